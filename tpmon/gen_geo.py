"""Seeded generator of domain-expression specs (DESIGN.md 3.3) with their parameter rows.

Every generated spec is validated on the float64 twin before it is used: positive measure, rejection
acceptance high enough that rejection loops of correct code terminate quickly, for every parameter row.
"""
import math
import numpy as np

from . import geo

KS = [0, 0, 1, 1, 2, 3, 5, 8]


def _rot(a):
    return np.array([[math.cos(a), -math.sin(a)], [math.sin(a), math.cos(a)]])


class Ctx:
    """generation context: rng, whether shapes depend on parameter 't', rigid motion term"""

    def __init__(self, rng, dep, k, move=None, dim=2):
        self.rng = rng
        self.dep = dep          # parameter dependent?
        self.k = k
        self.move = move        # coef vector of the rigid co-motion with t (or None)
        self.dim = dim

    def pos(self, p):
        """position value: constant or a + move * t"""
        p = [float(x) for x in p]
        if self.dep and self.move is not None:
            return {"a": p, "terms": [{"var": "t", "col": 0, "kind": "lin", "coef": [float(x) for x in self.move]}]}
        return p

    def size(self, r):
        """scalar size: constant or r * (1 + 0.1 sin(w t + p))"""
        if self.dep and self.rng.random() < 0.5:
            return {"a": [float(r)], "terms": [{"var": "t", "col": 0, "kind": "sin", "coef": [float(0.12 * r)],
                                                "w": float(self.rng.uniform(0.5, 2)), "p": float(self.rng.uniform(0, 6))}]}
        return float(r)


def prim2d(ctx, center, scale, kinds=("circle", "parallelogram", "triangle", "polygon")):
    rng = ctx.rng
    kind = str(rng.choice(kinds))
    if kind == "polygon" and ctx.dep:
        kind = "parallelogram"
    c = np.asarray(center, float)
    if kind == "circle":
        return {"prim": "circle", "var": "x", "center": ctx.pos(c + rng.uniform(-.3, .3, 2) * scale),
                "radius": ctx.size(scale * rng.uniform(0.5, 1.1))}
    ang = rng.uniform(0, 2 * math.pi)
    if rng.random() < 0.35:
        ang = float(rng.choice([0, math.pi / 2, math.pi, 3 * math.pi / 2]))      # axis aligned
    open_ = rng.uniform(math.radians(40), math.radians(140)) * rng.choice([-1, 1])  # orientation both ways
    if rng.random() < 0.3:
        open_ = math.pi / 2 * rng.choice([-1, 1])
    l1, l2 = scale * rng.uniform(0.8, 1.9), scale * rng.uniform(0.8, 1.9)
    d1 = l1 * np.array([math.cos(ang), math.sin(ang)])
    d2 = l2 * np.array([math.cos(ang + open_), math.sin(ang + open_)])
    o = c - 0.5 * (d1 + d2) + rng.uniform(-.2, .2, 2) * scale
    if kind == "parallelogram":
        return {"prim": "parallelogram", "var": "x", "origin": ctx.pos(o), "c1": ctx.pos(o + d1), "c2": ctx.pos(o + d2)}
    if kind == "triangle":
        # the library documents counter-clockwise corners for outward normals; both orders are generated
        return {"prim": "triangle", "var": "x", "origin": ctx.pos(o), "c1": ctx.pos(o + d1), "c2": ctx.pos(o + d2)}
    # polygon: star-shaped, 5-8 vertices, optionally non-convex, both vertex orders
    nv = int(rng.integers(5, 9))
    th = np.sort(rng.uniform(0, 2 * math.pi, nv))
    gaps = np.diff(np.concatenate([th, [th[0] + 2 * math.pi]]))
    if gaps.max() > 2.2 or gaps.min() < 0.35:
        th = np.linspace(0, 2 * math.pi, nv, endpoint=False) + rng.uniform(0, 1)
    rad = scale * rng.uniform(0.55, 1.2, nv)
    V = c + np.stack([rad * np.cos(th), rad * np.sin(th)], 1)
    if rng.random() < 0.5:
        V = V[::-1]
    spec = {"prim": "polygon", "var": "x", "vertices": [[float(a), float(b)] for a, b in V]}
    if rng.random() < 0.3:
        # a hole inside the kernel of the star shaped polygon (or a convex outline with a hole), either vertex order
        if rng.random() < 0.5:
            th2 = np.linspace(0, 2 * math.pi, nv, endpoint=False) + rng.uniform(0, 1)
            V = c + scale * rng.uniform(0.9, 1.2) * np.stack([np.cos(th2), np.sin(th2)], 1)
            spec["vertices"] = [[float(a), float(b)] for a, b in V]
        if rng.random() < 0.4:
            # two or three holes (the boundary walks over every ring): a convex outline, holes around the centre
            th2 = np.linspace(0, 2 * math.pi, nv, endpoint=False) + rng.uniform(0, 1)
            V = c + scale * rng.uniform(0.95, 1.2) * np.stack([np.cos(th2), np.sin(th2)], 1)
            spec["vertices"] = [[float(a), float(b)] for a, b in V]
            nh = int(rng.integers(2, 4))
            a0 = rng.uniform(0, 2 * math.pi)
            holes = []
            for j in range(nh):
                hc = c + 0.38 * scale * np.array([math.cos(a0 + 2 * math.pi * j / nh), math.sin(a0 + 2 * math.pi * j / nh)])
                m = int(rng.integers(3, 6))
                tt = np.linspace(0, 2 * math.pi, m, endpoint=False) + rng.uniform(0, 1)
                H = hc + rng.uniform(0.13, 0.17) * scale * np.stack([np.cos(tt), np.sin(tt)], 1)
                if rng.random() < 0.5:
                    H = H[::-1]
                holes.append([[float(a), float(b)] for a, b in H])
            spec["holes"] = holes
            return spec
        rh = 0.3 * scale
        m = int(rng.integers(3, 6))
        tt = np.linspace(0, 2 * math.pi, m, endpoint=False) + rng.uniform(0, 1)
        H = c + rng.uniform(-0.1, 0.1, 2) * scale + rh * np.stack([np.cos(tt), np.sin(tt)], 1)
        if rng.random() < 0.5:
            H = H[::-1]
        spec["holes"] = [[[float(a), float(b)] for a, b in H]]
    return spec


def prim1d(ctx, center, scale):
    rng = ctx.rng
    lo = center - scale * rng.uniform(0.4, 1.2)
    hi = center + scale * rng.uniform(0.4, 1.2)
    if ctx.dep and ctx.move is not None:
        lov = {"a": [float(lo)], "terms": [{"var": "t", "col": 0, "kind": "lin", "coef": [float(ctx.move[0])]}]}
        hiv = {"a": [float(hi)], "terms": [{"var": "t", "col": 0, "kind": "lin", "coef": [float(ctx.move[0])]}]}
        if rng.random() < 0.5:
            hiv["terms"].append({"var": "t", "col": 0, "kind": "sin", "coef": [float(0.1 * scale)], "w": 1.3, "p": 0.4})
        return {"prim": "interval", "var": "x", "lo": lov, "hi": hiv}
    return {"prim": "interval", "var": "x", "lo": float(lo), "hi": float(hi)}


def _rot3(rng):
    q = rng.normal(size=4)
    q /= np.linalg.norm(q)
    a, b, c, d = q
    return np.array([[a * a + b * b - c * c - d * d, 2 * (b * c - a * d), 2 * (b * d + a * c)],
                     [2 * (b * c + a * d), a * a - b * b + c * c - d * d, 2 * (c * d - a * b)],
                     [2 * (b * d - a * c), 2 * (c * d + a * b), a * a - b * b - c * c + d * d]])


def polyhedron(rng, center, scale):
    """convex polyhedron (box / tetrahedron / prism / octahedron), randomly rotated, faces in random winding"""
    kind = str(rng.choice(["box", "tetra", "prism", "octa"]))
    if kind == "box":
        w = rng.uniform(0.8, 1.8, 3)
        V = np.array([[0, 0, 0], [1, 0, 0], [1, 1, 0], [0, 1, 0], [0, 0, 1], [1, 0, 1], [1, 1, 1], [0, 1, 1]], float) * w - w / 2
        F = [[0, 2, 1], [0, 3, 2], [4, 5, 6], [4, 6, 7], [0, 1, 5], [0, 5, 4], [1, 2, 6], [1, 6, 5], [2, 3, 7], [2, 7, 6], [3, 0, 4], [3, 4, 7]]
    elif kind == "tetra":
        V = np.array([[1, 1, 1], [1, -1, -1], [-1, 1, -1], [-1, -1, 1]], float) * rng.uniform(0.7, 1.2)
        F = [[0, 1, 2], [0, 3, 1], [0, 2, 3], [1, 3, 2]]
    elif kind == "prism":
        h = rng.uniform(0.8, 1.8)
        T = np.array([[0, 0], [1.6, 0], [0.5, 1.3]]) - np.array([0.7, 0.43])
        V = np.array([[x, y, -h / 2] for x, y in T] + [[x, y, h / 2] for x, y in T])
        F = [[0, 2, 1], [3, 4, 5], [0, 1, 4], [0, 4, 3], [1, 2, 5], [1, 5, 4], [2, 0, 3], [2, 3, 5]]
    else:
        r = rng.uniform(0.8, 1.4, 3)
        V = np.array([[r[0], 0, 0], [-r[0], 0, 0], [0, r[1], 0], [0, -r[1], 0], [0, 0, r[2]], [0, 0, -r[2]]])
        F = [[0, 2, 4], [2, 1, 4], [1, 3, 4], [3, 0, 4], [2, 0, 5], [1, 2, 5], [3, 1, 5], [0, 3, 5]]
    V = (V * scale) @ _rot3(rng).T + np.asarray(center, float)
    F = np.asarray(F, int)
    if rng.random() < 0.5:
        F = F[:, ::-1]           # the whole mesh wound the other way round
    spec = {"prim": "polyhedron", "var": "x", "vertices": [[float(x) for x in v] for v in V], "faces": [[int(i) for i in f] for f in F]}
    r_ = rng.random()
    if r_ < 0.4:
        spec["via_file"] = True
    elif r_ < 0.6:
        spec["soup"] = True          # vertices / faces given as a triangle soup with inconsistent winding
    return spec


def prim3d(ctx, center, scale):
    rng = ctx.rng
    if not ctx.dep and rng.random() < 0.3:
        return polyhedron(rng, center, scale)
    c = np.asarray(center, float) + rng.uniform(-.3, .3, 3) * scale
    return {"prim": "sphere", "var": "x", "center": ctx.pos(c), "radius": ctx.size(scale * rng.uniform(0.5, 1.1))}


def prim(ctx, center, scale, **kw):
    if ctx.dim == 1:
        return prim1d(ctx, float(np.atleast_1d(center)[0]), scale)
    if ctx.dim == 3:
        return prim3d(ctx, center, scale)
    return prim2d(ctx, center, scale, **kw)


def notch_cut(rng):
    """rectangle minus a smaller rectangle that touches its right edge (a notch), declared contained=True: a legal subset
    sharing a piece of the outer boundary.  Returns (spec, equivalent polygon spec): the set IS that polygon, the twin of
    the cut cannot classify points on the two coincident leaf boundaries"""
    x0, y0 = [round(float(v) * 4) / 4 for v in rng.uniform(-2, 2, 2)]
    w, h = [max(1.0, round(float(rng.uniform(1.0, 2.5)) * 4) / 4) for _ in range(2)]
    bw = max(0.25, round(float(0.4 * w) * 4) / 4)
    q = h / 4.0
    a = {"prim": "parallelogram", "var": "x", "origin": [x0, y0], "c1": [x0 + w, y0], "c2": [x0, y0 + h]}
    b = {"prim": "parallelogram", "var": "x", "origin": [x0 + w - bw, y0 + q], "c1": [x0 + w, y0 + q], "c2": [x0 + w - bw, y0 + 3 * q]}
    spec = {"op": "cut", "a": a, "b": b, "flag": True}
    poly = {"prim": "polygon", "var": "x", "vertices": [[x0, y0], [x0 + w, y0], [x0 + w, y0 + q], [x0 + w - bw, y0 + q], [x0 + w - bw, y0 + 3 * q],
                                                        [x0 + w, y0 + 3 * q], [x0 + w, y0 + h], [x0, y0 + h]]}
    return spec, poly


def mc_fraction(node, envs, box, rng, M=4000):
    """fraction of the box covered by the node, for each env row -> array (rows,)"""
    out = []
    d = box.shape[1] // 2
    for i in range(box.shape[0]):
        P = box[i, 0::2] + rng.random((M, d)) * (box[i, 1::2] - box[i, 0::2])
        env = {k: np.repeat(v[i:i + 1], M, 0) for k, v in envs.items()}
        out.append(float((node.phi(P, env) <= 0).mean()))
    return np.array(out)


def boolean(ctx, depth, center, scale, envs, nrows, relation_log):
    """random nested +,-,& expression with planned relation between the operands"""
    rng = ctx.rng
    if depth == 0 or rng.random() < 0.25:
        return prim(ctx, center, scale)
    for _ in range(25):
        op = str(rng.choice(["union", "cut", "isect"]))
        rel = str(rng.choice(["overlap", "overlap", "contained", "disjoint", "abut", "tangent", "aligned"]))
        a = boolean(ctx, depth - 1, center, scale, envs, nrows, relation_log)
        flag = False
        dimv = ctx.dim
        if rel == "contained":
            b = prim(ctx, np.asarray(center, float) + rng.uniform(-.1, .1, dimv) * scale, scale * rng.uniform(0.25, 0.4),
                     **({"kinds": ("circle", "parallelogram")} if dimv == 2 else {}))
            if op == "isect":
                continue
            flag = op == "cut" and rng.random() < 0.7
        elif rel == "disjoint":
            if op != "union":
                continue
            off = np.zeros(dimv)
            off[int(rng.integers(0, dimv))] = rng.choice([-1, 1]) * scale * rng.uniform(3.2, 4.0)
            b = boolean(ctx, depth - 1, np.asarray(center, float) + off, scale * rng.uniform(0.6, 1.0), envs, nrows,
                        relation_log)
            flag = rng.random() < 0.7
        elif rel == "abut":
            if dimv != 2 or op != "union" or ctx.dep:
                continue
            # two axis-aligned rectangles sharing an edge exactly (representable coordinates)
            x0, y0 = [round(float(v) * 4) / 4 for v in (np.asarray(center, float) - scale)]
            w1, w2, h = [max(0.25, round(float(scale * rng.uniform(0.8, 1.6)) * 4) / 4) for _ in range(3)]
            a = {"prim": "parallelogram", "var": "x", "origin": [x0, y0], "c1": [x0 + w1, y0], "c2": [x0, y0 + h]}
            b = {"prim": "parallelogram", "var": "x", "origin": [x0 + w1, y0], "c1": [x0 + w1 + w2, y0],
                 "c2": [x0 + w1, y0 + h]}
        elif rel == "aligned":
            if dimv != 2 or ctx.dep:
                continue
            # two axis-parallel rectangles with the same y-range that overlap in x (collinear edges: corners of one
            # operand lie on edges of the other, grid samples hit points on both boundaries)
            x0, y0 = [round(float(v) * 4) / 4 for v in (np.asarray(center, float) - scale)]
            w1, w2, h = [max(0.5, round(float(scale * rng.uniform(0.8, 1.6)) * 4) / 4) for _ in range(3)]
            sh = max(0.25, round(float(0.5 * w1) * 4) / 4)
            a = {"prim": "parallelogram", "var": "x", "origin": [x0, y0], "c1": [x0 + w1, y0], "c2": [x0, y0 + h]}
            b = {"prim": "parallelogram", "var": "x", "origin": [x0 + sh, y0], "c1": [x0 + sh + w2, y0], "c2": [x0 + sh, y0 + h]}
            if rng.random() < 0.5:
                a, b = b, a
        elif rel == "tangent":
            if dimv == 1 or op != "union" or ctx.dep:
                continue
            # two balls touching from outside in exactly one point, or a disc resting on an edge of a rectangle
            # (representable coordinates: the contact point is a boundary point of the union by construction)
            c0 = np.array([round(float(v) * 4) / 4 for v in np.asarray(center, float)])
            r1, r2 = [max(0.25, round(float(scale * rng.uniform(0.5, 1.1)) * 4) / 4) for _ in range(2)]
            ball = "circle" if dimv == 2 else "sphere"
            e0 = np.zeros(dimv)
            e0[0] = 1.0
            a = {"prim": ball, "var": "x", "center": [float(v) for v in c0], "radius": float(r1)}
            if dimv == 2 and rng.random() < 0.4:
                b = {"prim": "parallelogram", "var": "x", "origin": [float(c0[0] + r1), float(c0[1] - r2)],
                     "c1": [float(c0[0] + r1 + r2), float(c0[1] - r2)], "c2": [float(c0[0] + r1), float(c0[1] + r2)]}
            else:
                b = {"prim": ball, "var": "x", "center": [float(v) for v in (c0 + (r1 + r2) * e0)], "radius": float(r2)}
            if rng.random() < 0.5:
                a, b = b, a
            relation_log.append("contact@" + ",".join("%r" % float(v) for v in (c0 + r1 * e0)))
        else:
            off = rng.uniform(-.8, .8, dimv) * scale
            b = boolean(ctx, depth - 1, np.asarray(center, float) + off, scale * rng.uniform(0.6, 1.0), envs, nrows,
                        relation_log)
        s = {"op": op, "a": a, "b": b}
        if flag:
            s["flag"] = True
        node = geo.ref(s)
        na = geo.ref(a)
        box = geo._hull_box(node, envs, nrows)
        fr = mc_fraction(node, envs, box, rng, 3000)
        fa = mc_fraction(na, envs, box, rng, 3000)
        # measure at least 5 % of its box, acceptance (result / proposal operand A) at least 12 %
        if (fr < 0.05).any():
            continue
        if op != "union" and (fr < 0.12 * np.maximum(fa, 1e-9)).any():
            continue
        if flag:
            # declared flags must be true on the twin for every row
            nb = geo.ref(b)
            M = 3000
            okflag = True
            # the box of both operands (the hull of a cut is the box of A: the part of B outside A would never be seen)
            fbox = geo._hull_box(geo.ref({"op": "union", "a": a, "b": b}), envs, nrows)
            for i in range(nrows):
                P = fbox[i, 0::2] + rng.random((M, fbox.shape[1] // 2)) * (fbox[i, 1::2] - fbox[i, 0::2])
                env = {k: np.repeat(v[i:i + 1], M, 0) for k, v in envs.items()}
                # with a margin (level functions are distance-like): a sliver of B outside A that is too thin to be hit by
                # the sample would still falsify the declaration
                mg = 0.02 * scale
                fa_, fb_ = na.phi(P, env), nb.phi(P, env)
                if op == "union" and ((fa_ <= mg) & (fb_ <= mg)).any():
                    okflag = False
                if op == "cut" and ((fb_ <= mg) & (fa_ > -mg)).any():
                    okflag = False
            if not okflag:
                s.pop("flag")
        relation_log.append("%s:%s%s" % (op, rel, "!" if s.get("flag") else ""))
        return s
    return prim(ctx, center, scale)


def param_rows(rng, k):
    """k unique parameter values: distinct integers plus a fractional part"""
    if k == 0:
        return {}
    base = rng.permutation(np.arange(0, max(k, 2) + 2))[:k].astype(float) * 0.5
    t = base + rng.uniform(0.0, 0.1, k)
    return {"t": [[float(np.float32(x))] for x in t]}


def gen_domain(rng, max_depth=2, dim=None, dep=None, k=None, allow=("bool", "prim", "translate", "rotate", "product"),
               pairing=True, strong=False):
    """returns dict(spec=..., rows=..., info=...) for a solid (full-dimensional) domain"""
    dim = int(rng.choice([1, 2, 2, 2, 3])) if dim is None else dim
    k = int(rng.choice(KS)) if k is None else k
    dep = (k > 0 and rng.random() < 0.6) if dep is None else (dep and k > 0)
    rows = param_rows(rng, k)
    envs = {kk: np.asarray(v, float).reshape(len(v), -1) for kk, v in rows.items()}
    nrows = max(k, 1)
    scale = float(rng.uniform(0.3, 2.0))
    center = rng.uniform(-3, 3, dim) * scale      # |offset| / size stays within the conditioning regime (3.1)
    move = None
    if dep:
        move = np.zeros(dim)
        # rigid co-motion, large enough that the regions of different rows are disjoint (pairing)
        # the regions of different parameter rows differ by at least 0.75 * scale (mis-pairing is observable)
        # while max |coordinate| / size stays <= ~10 (float32 conditioning regime of DESIGN.md 3.1)
        move[0] = scale * (1.5 if pairing else rng.uniform(0.5, 1.5))
        if strong:
            # pairing stress: regions of different rows are disjoint (>= 4 sizes apart); used for interior sampling only,
            # where no float32 boundary tolerance of the library is involved
            move[0] = scale * 8.0
    ctx = Ctx(rng, dep, k, move, dim)
    kind = str(rng.choice(allow))
    log = []
    if kind == "prim" or (kind in ("rotate",) and dim == 1):
        spec = prim(ctx, center, scale)
    elif kind == "rotate" and dim == 3:
        # 3-D rotations exist through the basic constructor only: a constant 3x3 matrix (a composition of rotations
        # about several axes), optionally about a pivot
        inner_ctx = Ctx(rng, False, k, None, dim)
        inner = boolean(inner_ctx, max(0, max_depth - 1), center, scale, envs, nrows, log)
        spec = {"op": "rotate", "d": inner, "matrix": [float(x) for x in _rot3(rng).reshape(-1)]}
        if rng.random() < 0.6:
            spec["around"] = [float(x) for x in (center + rng.uniform(-1, 1, dim) * scale)]
    elif kind == "bool":
        spec = boolean(ctx, max_depth, center, scale, envs, nrows, log)
    elif kind == "translate":
        inner_ctx = Ctx(rng, dep and rng.random() < 0.5, k, move, dim)
        inner = boolean(inner_ctx, max(0, max_depth - 1), center, scale, envs, nrows, log)
        vec = rng.uniform(-2, 2, dim) * scale
        if dep and rng.random() < 0.7:
            coef = rng.uniform(-1, 1, dim) * scale * 0.3
            if not inner_ctx.dep:
                coef[0] = move[0]
            V = {"a": [float(x) for x in vec], "terms": [{"var": "t", "col": 0, "kind": "lin", "coef": [float(x) for x in coef]}]}
        else:
            V = [float(x) for x in vec]
        spec = {"op": "translate", "d": inner, "vec": V}
    elif kind == "rotate":
        inner_ctx = Ctx(rng, False, k, None, dim)
        inner = boolean(inner_ctx, max(0, max_depth - 1), center, scale, envs, nrows, log)
        ang = float(rng.uniform(-3.1, 3.1))
        spec = {"op": "rotate", "d": inner}
        if dep and rng.random() < 0.7:
            A = {"a": [ang], "terms": [{"var": "t", "col": 0, "kind": "lin", "coef": [float(rng.uniform(0.2, 0.9))]}]}
        else:
            A = ang
        if rng.random() < 0.6 or not geo.is_const(A):
            spec["angle"] = A
        else:
            R = _rot(ang)
            spec["matrix"] = [float(x) for x in R.reshape(-1)]
        if rng.random() < 0.6:
            spec["around"] = [float(x) for x in (center + rng.uniform(-1, 1, dim) * scale)]
            if dep and rng.random() < 0.35:
                # the pivot moves with the parameter (here possibly the only parameter dependent part of the rotation)
                spec["around"] = {"a": spec["around"], "terms": [{"var": "t", "col": 0, "kind": "lin",
                                                                   "coef": [float(x) for x in rng.uniform(-1, 1, dim) * scale]}]}
    elif kind == "product":
        # A(x; s) * B(s): first factor may depend on the second's coordinates
        bspec = {"prim": "interval", "var": "s", "lo": float(rng.uniform(-1, 0)), "hi": float(rng.uniform(0.5, 2))}
        if dim == 3:
            dim = 2
            center = center[:2]
        actx = Ctx(rng, False, k, None, dim)
        a = prim(actx, center, scale, **({"kinds": ("circle", "parallelogram", "triangle")} if dim == 2 else {}))
        if rng.random() < 0.6:
            a = _make_depend_on(a, "s", rng, scale)
        if rng.random() < 0.3:
            # the second factor has two variables and the first factor depends on one of them only
            other = {"prim": "interval", "var": "r", "lo": float(rng.uniform(-1, 0)), "hi": float(rng.uniform(0.5, 2))}
            wrapped = {"op": "product", "a": bspec, "b": other} if rng.random() < 0.5 else {"op": "product", "a": other, "b": bspec}
            spec = {"op": "product", "a": a, "b": wrapped}
        else:
            spec = {"op": "product", "a": a, "b": bspec}
        dep = False
        if k > 0 and rng.random() < 0.5:
            # external parameter t shifts the second factor
            bspec["lo"] = {"a": [bspec["lo"]], "terms": [{"var": "t", "col": 0, "kind": "lin", "coef": [2.0]}]}
            bspec["hi"] = {"a": [bspec["hi"]], "terms": [{"var": "t", "col": 0, "kind": "lin", "coef": [2.0]}]}
            dep = True
    else:
        raise ValueError(kind)
    node = geo.ref(spec)
    free = node.free()
    if not free <= set(rows.keys()):
        rows = rows or param_rows(rng, 1)
    return {"spec": spec, "rows": rows, "k": len(next(iter(rows.values()))) if rows else 0,
            "info": {"kind": kind, "dim": dim, "dep": bool(free), "relations": log, "desc": node.desc()}}


def flip_parallelogram(rng, kinds=("parallelogram",)):
    """parallelogram / triangle whose corner order (orientation) flips with the parameter: corner_2 = o + (0.3 l, h (1 - 2 t));
    rows t ~ 0, 1, 1.5, -0.5 give heights ~ h, -h, -2h, 2h (well conditioned for every row)"""
    scale = float(rng.uniform(0.4, 1.5))
    o = rng.uniform(-2, 2, 2) * scale
    l1 = scale * rng.uniform(0.9, 1.8)
    h = scale * rng.uniform(0.8, 1.4)
    ang = float(rng.choice([0.0, rng.uniform(0, 2 * math.pi)]))
    R = _rot(ang)
    c1 = o + R @ np.array([l1, 0.0])
    base2 = o + R @ np.array([0.3 * l1, h])
    coef = R @ np.array([0.0, -2 * h])
    kind = str(rng.choice(kinds))
    spec = {"prim": kind, "var": "x", "origin": [float(o[0]), float(o[1])], "c1": [float(c1[0]), float(c1[1])],
            "c2": {"a": [float(base2[0]), float(base2[1])], "terms": [{"var": "t", "col": 0, "kind": "lin",
                                                                      "coef": [float(coef[0]), float(coef[1])]}]}}
    k = int(rng.choice([2, 3, 4]))
    tvals = rng.permutation(np.array([0.0, 1.0, 1.5, -0.5]))[:k] + rng.uniform(0, 0.05, k)
    rows = {"t": [[float(np.float32(v))] for v in tvals]}
    return {"spec": spec, "rows": rows, "k": k,
            "info": {"kind": "prim", "dim": 2, "dep": True, "relations": ["flip"], "desc": geo.ref(spec).desc() + "~flip"}}


def _make_depend_on(a, var, rng, scale):
    """make a primitive depend on the coordinates of the other product factor"""
    a = dict(a)
    if a["prim"] in ("circle", "sphere"):
        a["radius"] = {"a": [float(np.asarray(a["radius"]).reshape(-1)[0])],
                       "terms": [{"var": var, "col": 0, "kind": "lin", "coef": [float(0.25 * scale)]}]}
        if rng.random() < 0.5:
            c = [float(x) for x in np.asarray(a["center"]).reshape(-1)]
            a["center"] = {"a": c, "terms": [{"var": var, "col": 0, "kind": "lin", "coef": [float(0.5 * scale)] + [0.0] * (len(c) - 1)}]}
    elif a["prim"] == "interval":
        a["hi"] = {"a": [float(a["hi"])], "terms": [{"var": var, "col": 0, "kind": "lin", "coef": [float(0.4 * scale)]}]}
    else:
        for key in ("origin", "c1", "c2"):
            v = [float(x) for x in np.asarray(a[key]).reshape(-1)]
            coef = [float(0.5 * scale), 0.0]
            if key == "c1" and rng.random() < 0.5:
                coef = [float(0.65 * scale), 0.0]    # shape changes mildly with s as well
            a[key] = {"a": v, "terms": [{"var": var, "col": 0, "kind": "lin", "coef": coef}]}
    return a
