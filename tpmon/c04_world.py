"""C04/C14 helpers, part 2: build a condition from a JSON case with recording probes, run forward() and judge it.

Observation points (DESIGN.md 4 C04 "E"):
  (i)   instance-level probe on `sample_points` of every sampler object the condition calls itself
        (main / non-periodic, left, right, integral, function-set parameters): the returned tensor is cloned,
  (ii)  the instrumented residual clones every keyword argument before its body runs,
  (iii) instrumented data functions record their calls,
  (iv)  closed-form / FCN models with twins (c04_dsl),
  (v)   the value returned by forward().
The oracle recomputes, from the recorded points only, the expected value of every argument and the documented
reduction in float64.
"""
import math

import numpy as np
import torch

from . import c04_dsl as D
from .core import viol, exc_site, Inconclusive

RTOL = 1e-5          # loss
ARG_TOL = 2e-5       # approximate arguments (model outputs, data functions), relative to 1 + max|expected|


# ---------------------------------------------------------------------------------------------
# trace + probes
# ---------------------------------------------------------------------------------------------

class TraceRouter:
    """stands in for a Trace inside a user function object that several conditions share: events go to the trace of
    the condition that is being evaluated"""

    def __init__(self):
        self.target = None

    def add(self, kind, **kw):
        if self.target is not None:
            self.target.add(kind, **kw)


class Trace:
    def __init__(self):
        self.events = []
        self.phase = "construct"
        self.counters = {}

    def add(self, kind, **kw):
        kw.update(kind=kind, phase=self.phase)
        self.events.append(kw)
        self.counters["ev_" + kind] = self.counters.get("ev_" + kind, 0) + 1

    def get(self, kind, phase=None, **flt):
        out = []
        for e in self.events:
            if e["kind"] != kind or (phase is not None and e["phase"] != phase):
                continue
            if all(e.get(k) == v for k, v in flt.items()):
                out.append(e)
        return out


def space_list(points):
    return [(k, int(points.space[k])) for k in points.space]


def probe_sampler(sampler, role, trace, tag=None):
    """instance-level probe: records every Points object this sampler object returns"""
    if getattr(sampler, "_c04_probe", None) is not None:
        sampler._c04_probe.append((role, trace, tag))
        return
    orig = sampler.sample_points
    sampler._c04_probe = [(role, trace, tag)]

    def sample_points(*a, **kw):
        pts = orig(*a, **kw)
        for r, tr, tg in sampler._c04_probe:
            tr.add("sample", role=r, tag=tg, t=pts.as_tensor.detach().clone(), space=space_list(pts), sid=id(sampler))
        return pts
    sampler.sample_points = sample_points


def seed_sampler(sampler, seed):
    """A deterministic user sampler: the k-th call of this sampler object draws with torch seed (seed + k)."""
    orig = sampler.sample_points
    state = {"k": 0}

    def sample_points(*a, **kw):
        torch.manual_seed(seed + state["k"])
        state["k"] += 1
        return orig(*a, **kw)
    sampler.sample_points = sample_points


def log_inner(inner, static):
    """remembers (on the static sampler object) every point set its own inner sampler produced"""
    orig = inner.sample_points
    if not hasattr(static, "_c04_inner_log"):
        static._c04_inner_log = []

    def sample_points(*a, **kw):
        pts = orig(*a, **kw)
        static._c04_inner_log.append(pts.as_tensor.detach().clone())
        return pts
    inner.sample_points = sample_points


def from_own_inner(static, t):
    log = getattr(static, "_c04_inner_log", None)
    if log is None:
        return True
    return any(x.shape == t.shape and torch.equal(x, t) for x in log)


def probe_loader(loader, trace):
    """instance-level probe on a DataLoader: class swap so that __iter__ records every delivered batch"""
    base = loader.__class__

    def __iter__(self):
        for b in base.__iter__(self):
            trace.add("batch", items=[(p.as_tensor.detach().clone(), space_list(p)) for p in b])
            yield b
    loader.__class__ = type("Recording" + base.__name__, (base,), {"__iter__": __iter__})
    return loader


# ---------------------------------------------------------------------------------------------
# world: user objects (possibly shared between conditions, C14)
# ---------------------------------------------------------------------------------------------

class World:
    def __init__(self, share_domains=True):
        self.domains = {}
        self.share_domains = share_domains
        self.samplers = {}          # share id -> sampler object
        self.models = {}
        self.filters = {}           # share id -> filter function object
        self.user_functions = []    # (label, UserFunction object handed to the library)

    def domain(self, v, dep=None):
        if dep is not None or not self.share_domains:
            return D.build_domain(v, dep)
        key = (v["name"], v["dim"], v.get("dom"), v["lo"], v["hi"])
        if key not in self.domains:
            self.domains[key] = D.build_domain(v)
        return self.domains[key]


def build_filter(f, world):
    """filter function x[:, comp] > thr (+ c * t[:, 0] with a declared default for t); optionally handed over as a
    UserFunction object that several samplers of a world share"""
    share = f.get("share")
    if share is not None and share in world.filters:
        return world.filters[share]
    if f.get("dep"):
        dp = f["dep"]
        dflt = {dp["var"]: torch.tensor(np.asarray(dp["default"], dtype=np.float32)).reshape(1, -1)}
        fn = D.make_fn("flt", [f["var"], dp["var"]],
                       lambda kw, f=f, dp=dp: kw[f["var"]][:, f["comp"]] > f["thr"] + dp["c"] * kw[dp["var"]][:, 0], dflt)
    else:
        fn = D.make_fn("flt", [f["var"]], lambda kw, f=f: kw[f["var"]][:, f["comp"]] > f["thr"])
    if f.get("wrapped"):
        from torchphysics.utils import UserFunction
        fn = UserFunction(fn)
        world.user_functions.append(("filter_function", fn))
    if share is not None:
        world.filters[share] = fn
    return fn


def build_sampler(spec, vars_, world, seed=None):
    import torchphysics as tp
    byname = {v["name"]: v for v in vars_}
    op = spec["op"]
    if op == "empty":
        return tp.samplers.EmptySampler()
    if op == "empty_static":
        return tp.samplers.PointSampler.empty()          # EmptySampler().make_static()
    share = spec.get("share")
    if share is not None and share in world.samplers:
        return world.samplers[share]
    if op == "leaf":
        dom = None
        for i, n in enumerate(spec["vars"]):
            d = world.domain(byname[n], spec.get("dep") if i == 0 else None)
            dom = d if dom is None else dom * d
        flt = None
        if spec.get("filter"):
            flt = build_filter(spec["filter"], world)
        kind = spec["kind"]
        if kind == "random":
            s = tp.samplers.RandomUniformSampler(dom, n_points=spec["n"], filter_fn=flt)
        elif kind == "grid":
            s = tp.samplers.GridSampler(dom, n_points=spec["n"], filter_fn=flt)
        elif kind == "adaptive_thr":
            s = tp.samplers.AdaptiveThresholdRejectionSampler(dom, resample_ratio=0.5, n_points=spec["n"])
        elif kind == "adaptive_rand":
            s = tp.samplers.AdaptiveRandomRejectionSampler(dom, n_points=spec["n"])
        else:
            raise ValueError(kind)
    elif op == "prod":
        s = build_sampler(spec["a"], vars_, world) * build_sampler(spec["b"], vars_, world)
    elif op == "concat":
        s = build_sampler(spec["a"], vars_, world) + build_sampler(spec["b"], vars_, world)
    elif op == "static":
        inner = build_sampler(spec["a"], vars_, world)
        if spec.get("seeded") is not None:
            seed_sampler(inner, int(spec["seeded"]))
        s = inner.make_static() if spec.get("interval") is None else inner.make_static(int(spec["interval"]))
        log_inner(inner, s)
    else:
        raise ValueError(op)
    if op != "static" and spec.get("seeded") is not None:
        seed_sampler(s, int(spec["seeded"]))
    if share is not None:
        world.samplers[share] = s
    return s


def sampler_class(spec):
    if spec is None or spec["op"] == "empty":
        return "empty"
    if spec["op"] == "empty_static":
        return "static_empty"
    if spec["op"] == "static":
        return "static_inf" if spec.get("interval") is None else "static_finite_interval"
    if spec["op"] == "leaf" and spec["kind"].startswith("adaptive"):
        return "adaptive"
    return "nonstatic"


def sampler_vars(spec):
    if spec["op"] == "leaf":
        return list(spec["vars"])
    if spec["op"] == "prod":
        return sampler_vars(spec["a"]) + sampler_vars(spec["b"])
    if spec["op"] in ("concat", "static"):
        return sampler_vars(spec["a"])
    return []


def sampler_shape(spec):
    if spec["op"] == "leaf":
        return "%s%s%s%s" % (spec["kind"][0], len(spec["vars"]), "f" if spec.get("filter") else "",
                             "d" if spec.get("dep") else "")
    if spec["op"] == "prod":
        return "(%s*%s)" % (sampler_shape(spec["a"]), sampler_shape(spec["b"]))
    if spec["op"] == "concat":
        return "(%s+%s)" % (sampler_shape(spec["a"]), sampler_shape(spec["b"]))
    if spec["op"] == "static":
        return "S%s[%s]" % ("inf" if spec.get("interval") is None else "fin", sampler_shape(spec["a"]))
    return "Es" if spec["op"] == "empty_static" else "E"


# ---------------------------------------------------------------------------------------------
# building a condition
# ---------------------------------------------------------------------------------------------

SAMPLER_KINDS = ("pinn", "mean", "deepritz", "single", "adaptive_w", "periodic", "integro", "pideeponet")


class Built:
    pass


def _clone_kw(kw):
    out = {}
    for k, v in kw.items():
        if isinstance(v, torch.Tensor):
            out[k] = {"t": v.detach().clone(), "rg": bool(v.requires_grad), "id": id(v)}
        else:
            out[k] = {"t": v, "rg": False, "id": id(v)}
    return out


def make_defaults(case):
    return {k: torch.tensor(np.asarray(v, dtype=np.float32)).reshape(1, -1) for k, v in case.get("defaults", {}).items()}


def make_residual(case, trace, tag=None, defaults=None):
    res = case["residual"]
    if defaults is None:
        defaults = make_defaults(case)

    def impl(kw):
        trace.add("residual", tag=tag, kw=_clone_kw(kw))
        try:
            return D.residual_torch(res, kw)
        except Exception as e:
            trace.add("residual_exc", tag=tag, exc=type(e).__name__, msg=str(e)[:200])
            raise
    fn = D.make_fn("residual", case["sig"], impl, defaults)
    return fn, defaults


def make_data_functions(case, trace, tag=None, shared=None, registry=None):
    """-> dict name -> user function.  `shared` (C14): an existing dict to take the functions from / put them into.
    `registry` (C14): spec -> function object, so that the SAME user object can be put into several dicts."""
    import json
    out = {} if shared is None else shared
    for d in case.get("data", []):
        if d["name"] in out:
            continue

        def on_call(name, kw, tag=tag):
            trace.add("data_call", tag=tag, name=name, kw=_clone_kw(kw))
        if registry is not None:
            key = json.dumps(d, sort_keys=True)
            if key not in registry:
                registry[key] = D.data_fn_torch(d, on_call)
            out[d["name"]] = registry[key]
        else:
            out[d["name"]] = D.data_fn_torch(d, on_call)
    return out


def make_parameter(case):
    import torchphysics as tp
    ps = case.get("params") or []
    if not ps:
        return None
    if case.get("param_mode") == "joined" and len(ps) > 1:
        p = None
        for q in ps:
            one = tp.models.Parameter(q["init"], D.space_of([q]))
            p = one if p is None else p.join(one)
        return p
    init = [x for q in ps for x in q["init"]]
    return tp.models.Parameter(init, D.space_of(ps))


def build_condition(case, world=None, trace=None, tag=None, shared_data=None, model=None, fset=None, defaults=None,
                    param=None, residual=None):
    """Constructs the condition of `case` with all probes in place.  Raises whatever the library raises."""
    import torchphysics as tp
    world = world or World()
    trace = trace or Trace()
    b = Built()
    b.case, b.trace, b.tag, b.world = case, trace, tag, world
    kind = case["kind"]
    vars_ = case["vars"]
    if model is not None:
        b.model, b.twin = model
    else:
        b.model, b.twin = D.build_model(case["model"], vars_)
    if residual is not None:
        b.residual, b.defaults = residual
    else:
        b.residual, b.defaults = make_residual(case, trace, tag, defaults)
    b.data_dict = make_data_functions(case, trace, tag, shared_data)
    # the dict handed to the constructor: the shared one (C14) or a private one holding exactly this case's functions
    names = [d["name"] for d in case.get("data", [])]
    if shared_data is not None and case.get("share_dict"):
        b.user_dict = shared_data
    else:
        b.user_dict = {n: b.data_dict[n] for n in names}
    b.param = param if param is not None else make_parameter(case)
    b.samplers = {}
    kw = {}
    if names or case.get("pass_empty_dict"):
        kw["data_functions"] = b.user_dict
    if b.param is not None:
        kw["parameter"] = b.param
    if "weight" in case:
        kw["weight"] = case["weight"]
    if case.get("name"):
        kw["name"] = case["name"]
    if case.get("track_gradients") is False and kind in ("pinn", "mean", "single"):
        kw["track_gradients"] = False        # a condition whose residual needs no derivative of the model
    main_spec = case.get("sampler")
    if main_spec is not None and main_spec["op"] != "empty":
        s = build_sampler(main_spec, vars_, world)
        probe_sampler(s, "main", trace, tag)
        b.samplers["main"] = s
    err = D.error_torch(case["error"]) if case.get("error") else None
    red = D.reduce_torch(case["reduce"]) if case.get("reduce") else None

    if kind == "pinn":
        b.cond = tp.conditions.PINNCondition(b.model, b.samplers["main"], b.residual, **kw)
    elif kind == "mean":
        b.cond = tp.conditions.MeanCondition(b.model, b.samplers["main"], b.residual, **kw)
    elif kind == "deepritz":
        b.cond = tp.conditions.DeepRitzCondition(b.model, b.samplers["main"], b.residual, **kw)
    elif kind == "single":
        b.cond = tp.conditions.SingleModuleCondition(b.model, b.samplers["main"], b.residual, err, reduce_fn=red, **kw)
    elif kind == "adaptive_w":
        if err is not None:
            kw["error_fn"] = err
        b.cond = tp.conditions.AdaptiveWeightsCondition(b.model, b.samplers["main"], b.residual, **kw)
        w = torch.tensor(np.asarray(case["aw"], dtype=np.float32))
        if w.shape != b.cond.adaptive_layer.weight.shape:
            raise Inconclusive("adaptive weight layer has %s weights, the sampler was planned with %s points"
                               % (tuple(b.cond.adaptive_layer.weight.shape), tuple(w.shape)))
        with torch.no_grad():
            b.cond.adaptive_layer.weight.copy_(w)
    elif kind == "periodic":
        pv = [v for v in vars_ if v["name"] == case["periodic_var"]][0]
        b.interval = world.domain(pv)
        if err is not None:
            kw["error_fn"] = err
        if red is not None:
            kw["reduce_fn"] = red
        if "main" in b.samplers:
            kw["non_periodic_sampler"] = b.samplers["main"]
        b.cond = tp.conditions.PeriodicCondition(b.model, b.interval, b.residual, **kw)
        probe_sampler(b.cond.left_sampler, "left", trace, tag)
        probe_sampler(b.cond.right_sampler, "right", trace, tag)
    elif kind == "integro":
        si = build_sampler(case["int_sampler"], vars_, world)
        probe_sampler(si, "integral", trace, tag)
        b.samplers["integral"] = si
        if err is not None:
            kw["error_fn"] = err
        if red is not None:
            kw["reduce_fn"] = red
        b.cond = tp.conditions.IntegroPINNCondition(b.model, b.samplers["main"], b.residual, si, **kw)
    elif kind == "pideeponet":
        b.fset = fset
        b.cond = tp.conditions.PIDeepONetCondition(b.model, fset, b.samplers["main"], b.residual, **kw)
    else:
        raise ValueError(kind)
    return b


# ---------------------------------------------------------------------------------------------
# DeepONet pieces
# ---------------------------------------------------------------------------------------------

def build_deeponet(case, world, trace, tag=None):
    """-> (net, twin, function_set).  case["don"] = {"fvars": [trunk vars the functions depend on], "kvar": {...},
    "nf", "fs": data-fn spec over (kvar + fvars) with output space case["don"]["fout"], "disc_n", "neurons"}"""
    import torchphysics as tp
    from torchphysics.problem.spaces import FunctionSpace
    don = case["don"]
    vars_ = case["vars"]
    byname = {v["name"]: v for v in vars_}
    fdom = None
    for n in don["fvars"]:
        d = world.domain(byname[n])
        fdom = d if fdom is None else fdom * d
    fout = D.space_of([don["fout"]])
    fspace = FunctionSpace(fdom, fout)
    kdom = D.build_domain(don["kvar"])
    ks = tp.samplers.RandomUniformSampler(kdom, n_points=don["nf"])
    probe_sampler(ks, "fs_params", trace, tag)

    def on_call(name, kw):
        trace.add("fs_call", tag=tag, name=name, kw=_clone_kw(kw))
    fs = tp.domains.CustomFunctionSet(fspace, ks, D.data_fn_torch(don["fs"], on_call))
    disc = tp.samplers.GridSampler(fdom, n_points=don["disc_n"]).make_static()
    # grids are topped up with random points: fix the static discretisation now, as a function of the model spec only (a
    # DeepONet shared by several conditions must not depend on which of them evaluates first)
    _rng_state = torch.get_rng_state()
    torch.manual_seed(int(case["model"]["seed"]) % (2 ** 31))
    disc.sample_points()
    torch.set_rng_state(_rng_state)
    mspec = case["model"]
    g = torch.Generator().manual_seed(int(mspec["seed"]))
    trunk = tp.models.FCTrunkNet(D.space_of(vars_, mspec["in_order"]), hidden=tuple(mspec["hidden"]))
    branch = tp.models.FCBranchNet(fspace, hidden=tuple(mspec["hidden"]), discretization_sampler=disc)
    net = tp.models.DeepONet(trunk, branch, D.space_of(mspec["outs"]), output_neurons=don["neurons"])
    with torch.no_grad():
        for p in net.parameters():
            p.copy_(torch.randn(p.shape, generator=g) * 0.5)
    twin = D.DirectTwin(net, mspec, vars_, call=lambda pts: net(pts))
    return net, twin, fs


# ---------------------------------------------------------------------------------------------
# the oracle for one forward() call of a sampler-type condition
# ---------------------------------------------------------------------------------------------

def _np(t):
    return t.detach().double().numpy()


def _cols(ev):
    """recorded sample event -> {var: float64 array (n, dim)} and {var: float32 tensor}"""
    out, outt = {}, {}
    c = 0
    for n, d in ev["space"]:
        outt[n] = ev["t"][..., c:c + d]
        out[n] = _np(outt[n])
        c += d
    return out, outt


def _last(trace, kind, phase, **flt):
    ev = trace.get(kind, phase, **flt)
    return ev[-1] if ev else None


def _earlier_samples(trace, role, tag, phase):
    """sample events of this role recorded before `phase` (construction first), most recent first"""
    out = []
    for e in trace.events:
        if e["kind"] != "sample" or e["role"] != role or e.get("tag") != tag:
            continue
        if e["phase"] == phase:
            break
        out.append(e)
    return out[::-1]


def pointsets(b, phase):
    """From the sampler events of this phase: side -> ({var: f64 array}, {var: f32 tensor}) with the shapes the
    documented argument layout has for this kind of condition.  Returns (sets, info) or raises Inconclusive."""
    case, tr, tag = b.case, b.trace, b.tag
    kind = case["kind"]
    sets = {}
    info = {}
    main = _last(tr, "sample", phase, role="main", tag=tag)
    if "main" in b.samplers and main is None:
        return None, {"missing": "main"}
    if kind in ("pinn", "mean", "deepritz", "single", "adaptive_w"):
        sets[""] = _cols(main)
        info["n"] = main["t"].shape[0]
    elif kind == "periodic":
        le = _last(tr, "sample", phase, role="left", tag=tag)
        ri = _last(tr, "sample", phase, role="right", tag=tag)
        if le is None or ri is None:
            return None, {"missing": "left/right"}
        base = _cols(main) if main is not None else ({}, {})
        pv = case["periodic_var"]
        l, lt = _cols(le)
        r, rt = _cols(ri)
        if list(l) != [pv] or list(r) != [pv]:
            info["side_space"] = (list(l), list(r))
        sets[""] = base
        sets["left"] = ({**base[0], pv: l.get(pv)}, {**base[1], pv: lt.get(pv)})
        sets["right"] = ({**base[0], pv: r.get(pv)}, {**base[1], pv: rt.get(pv)})
        info["n"] = le["t"].shape[0]
    elif kind == "integro":
        it = _last(tr, "sample", phase, role="integral", tag=tag)
        if it is None:
            return None, {"missing": "integral"}
        m, mt = _cols(main)
        q, qt = _cols(it)
        m = {k: v[:, None, :] for k, v in m.items()}
        mt = {k: v[:, None, :] for k, v in mt.items()}
        q = {k: v[None, :, :] for k, v in q.items()}
        qt = {k: v[None, :, :] for k, v in qt.items()}
        sets[""] = (m, mt)
        sets["integral"] = ({**m, **q}, {**mt, **qt})
        info["n"] = main["t"].shape[0]
        info["int_vars"] = list(q)
    elif kind == "pideeponet":
        ks = _last(tr, "sample", None, role="fs_params", tag=tag)
        if ks is None:
            return None, {"missing": "fs_params"}
        nf = ks["t"].shape[0]
        m, mt = _cols(main)
        m = {k: np.repeat(v[None], nf, axis=0) for k, v in m.items()}
        mt = {k: v[None].repeat(nf, 1, 1) for k, v in mt.items()}
        sets[""] = (m, mt)
        info["n"] = main["t"].shape[0]
        info["nf"] = nf
        info["k"] = _cols(ks)
    return sets, info


def _data_ref(dspec, coords):
    return D.data_fn_np(dspec, coords)


def _broadcasts_to(got, exp):
    try:
        return _close(np.broadcast_to(got, exp.shape), exp)
    except ValueError:
        return False


def _close(recv, exp, tol=ARG_TOL):
    if recv.shape != exp.shape:
        return False
    if recv.size == 0:
        return True
    return bool(np.all(np.abs(recv - exp) <= tol * (1.0 + np.max(np.abs(exp)))))


def judge_call(b, phase, loss, only=None, judge_loss=True):
    """-> (violations, judged_rows, counters).  Judges the arguments the residual received in this phase and the
    returned loss against the reference recomputed from the recorded points."""
    case, tr, tag = b.case, b.trace, b.tag
    kind = case["kind"]
    sclass = sampler_class(case.get("sampler"))
    mech0 = {"cond": kind, "sampler": sclass, "data_functions": bool(case.get("data")),
             "model": case["model"]["type"]}
    V, judged, cnt = [], 0, {}
    if hasattr(b.twin, "_cache"):
        b.twin._cache.clear()
    sets, info = pointsets(b, phase)
    if sets is None:
        V.append(viol("no_sample_event", "forward() call %s did not ask its %s sampler for points" % (phase, info["missing"]),
                      role=info["missing"], **mech0))
        return V, judged, cnt
    if "side_space" in info:
        V.append(viol("periodic_side_points", "left/right samplers returned the spaces %s / %s instead of the periodic "
                      "variable only" % info["side_space"], **mech0))
        return V, judged, cnt
    revs = tr.get("residual", phase, tag=tag)
    cnt["residual_calls"] = len(revs)
    if not revs:
        V.append(viol("residual_not_called", "forward() call %s never evaluated the residual" % phase, **mech0))
        return V, judged, cnt
    recv = revs[-1]["kw"]
    vars_ = {v["name"]: v for v in case["vars"]}
    outs = {o["name"]: o for o in case["model"]["outs"]}
    datas = {d["name"]: d for d in case.get("data", [])}
    params = {p["name"]: p for p in (case.get("params") or [])}
    args = [(a[0], a[1], a[2]) for a in case["sigargs"]]
    if set(recv) != set(case["sig"]):
        V.append(viol("argument_set", "residual received %s, signature is %s" % (sorted(recv), sorted(case["sig"])), **mech0))
        return V, judged, cnt

    # --- expected value of every argument --------------------------------------------------------------
    data_used = {}       # (name, side) -> float64 array used for the loss reference
    layout_bad = False
    stale = []
    pvals = {}
    if b.param is not None:
        pc = b.param.coordinates
        pvals = {n: _np(pc[n]) for n in pc}
    dvals = {k: _np(v) for k, v in b.defaults.items()}
    fsvals = {}
    for k_, base, side in args:
        if only is not None and k_ not in only:
            continue
        an = D.argname(base, side)
        r = recv[an]
        rt = r["t"]
        if not isinstance(rt, torch.Tensor):
            V.append(viol("argument_type", "argument %s is a %s" % (an, type(rt).__name__), arg=k_, **mech0))
            continue
        if k_ == "coord":
            exp = sets[side][1][base]
            judged += int(np.prod(exp.shape[:-1]))
            cnt["coord_args"] = cnt.get("coord_args", 0) + 1
            if tuple(rt.shape) != tuple(exp.shape) or not torch.equal(rt, exp):
                where = ""
                if tuple(rt.shape) == tuple(exp.shape):
                    bad = (rt != exp).any(dim=-1).reshape(-1).nonzero().reshape(-1)
                    where = "; first differing row %d: got %s, sampled %s" % (
                        int(bad[0]), rt.reshape(-1, rt.shape[-1])[int(bad[0])].tolist(),
                        exp.reshape(-1, exp.shape[-1])[int(bad[0])].tolist())
                V.append(viol("coordinate_rows", "argument %s (shape %s) does not carry the sampled columns of '%s' "
                              "(shape %s) bit-for-bit%s" % (an, tuple(rt.shape), base, tuple(exp.shape), where),
                              arg="coord", side=side, **mech0))
            if not r["rg"]:
                V.append(viol("coordinate_not_tracked", "argument %s does not require grad: derivatives w.r.t. it are "
                              "unavailable" % an, arg="coord", side=side, **mech0))
        elif k_ == "out":
            o = outs[base]
            exp = np.concatenate([b.twin.out(sets[side][0], base, j) for j in range(o["dim"])], axis=-1)
            judged += int(np.prod(exp.shape[:-1]))
            cnt["out_args"] = cnt.get("out_args", 0) + 1
            if not _close(_np(rt), exp):
                V.append(viol("output_rows", "argument %s (shape %s) is not the model output '%s' at the sampled rows "
                              "(expected shape %s, max deviation %s)"
                              % (an, tuple(rt.shape), base, exp.shape,
                                 float(np.max(np.abs(_np(rt) - exp))) if _np(rt).shape == exp.shape else "n/a"),
                              arg="out", side=side, **mech0))
        elif k_ == "data":
            d = datas[base]
            exp = _data_ref(d, sets[side][0])
            got = _np(rt)
            judged += int(np.prod(exp.shape[:-1]))
            cnt["data_args"] = cnt.get("data_args", 0) + 1
            data_used[(base, side)] = exp
            if d.get("const") is not None:
                if not _close(got.reshape(-1), exp.reshape(-1)):
                    V.append(viol("data_function_rows", "constant data %s arrived as %s" % (an, got.reshape(-1)[:4]),
                                  arg="data", const=True, **mech0))
                continue
            if got.shape != exp.shape:
                try:
                    got = np.broadcast_to(got, exp.shape)
                    cnt["data_args_broadcast_layout"] = cnt.get("data_args_broadcast_layout", 0) + 1
                except ValueError:
                    if got.size == exp.size:
                        layout_bad = True
                        V.append(viol("data_function_layout", "argument %s has shape %s; the other arguments of this call "
                                      "are laid out as %s, so the values of '%s' do not broadcast row by row against them"
                                      % (an, got.shape, exp.shape, base), arg="data", side=side, **mech0))
                        got = got.reshape(exp.shape)
                    else:
                        V.append(viol("data_function_rows", "argument %s has shape %s, the data function '%s' on the rows "
                                      "of this call has shape %s" % (an, got.shape, base, exp.shape),
                                      arg="data", side=side, **mech0))
                        continue
            if _close(got, exp):
                continue
            # which rows was it evaluated on?  (other side / earlier point sets of the same samplers)
            found = None
            if kind == "periodic":
                other = {"left": "right", "right": "left"}[side]
                if _close(got, _data_ref(d, sets[other][0])):
                    found = ("other_side", None)
            if found is None:
                found = _find_stale(b, phase, d, got, side)
            if found and found[0] == "other_side":
                V.append(viol("periodic_data_side", "data function '%s': argument %s carries the values at the %s points"
                              % (base, an, other), arg="data", side=side, **mech0))
            elif found:
                age, exp_stale = found[1]
                data_used[(base, side)] = exp_stale
                stale.append((an, age))
                cnt["stale_data_args"] = cnt.get("stale_data_args", 0) + 1
            else:
                V.append(viol("data_function_rows", "argument %s (shape %s) is not the data function '%s' evaluated on the "
                              "rows of this call (expected shape %s, max deviation %s) nor on any earlier point set"
                              % (an, got.shape, base, exp.shape,
                                 float(np.max(np.abs(got - exp))) if got.shape == exp.shape else "n/a"),
                              arg="data", side=side, **mech0))
        elif k_ == "par":
            cnt["par_args"] = cnt.get("par_args", 0) + 1
            judged += 1
            exp = b.param.coordinates[base]
            if tuple(rt.shape) != tuple(exp.shape) or not torch.equal(rt, exp.detach()):
                V.append(viol("parameter_by_name", "argument %s = %s, the Parameter '%s' is %s"
                              % (an, rt.reshape(-1).tolist(), base, exp.reshape(-1).tolist()), arg="par", **mech0))
            elif not r["rg"]:
                V.append(viol("parameter_detached", "argument %s does not require grad (not learnable)" % an,
                              arg="par", **mech0))
        elif k_ == "dflt":
            judged += 1
            if not torch.equal(rt, b.defaults[base]):
                V.append(viol("default_argument", "default argument %s arrived as %s" % (an, rt.reshape(-1).tolist()),
                              arg="dflt", **mech0))
        elif k_ == "fs":
            don = case["don"]
            kc = info["k"][0]
            kname = don["kvar"]["name"]
            coords = dict(sets[""][0])
            coords[kname] = kc[kname][:, None, :]
            exp = _data_ref(don["fs"], coords)
            fsvals[base] = exp
            judged += int(np.prod(exp.shape[:-1]))
            cnt["fs_args"] = cnt.get("fs_args", 0) + 1
            if not _close(_np(rt), exp):
                V.append(viol("function_set_rows", "argument %s (shape %s) is not the input function evaluated at the "
                              "sampled rows for each function parameter (expected shape %s)"
                              % (an, tuple(rt.shape), exp.shape), arg="fs", **mech0))
    if stale:
        ages = sorted(set(a for _n, a in stale))
        V.append(viol("stale_data_functions",
                      "forward() call %s: data function argument(s) %s carry the values of an EARLIER point set of the "
                      "sampler (%s), not of the points sampled in this call"
                      % (phase, [n for n, _a in stale], ", ".join(ages)), arg="data", **mech0))

    # --- the loss ---------------------------------------------------------------------------------------
    if layout_bad or not judge_loss:
        return V, judged, cnt       # the broadcast of mis-laid-out arguments has no documented meaning
    R = D.Resolver({s: sets[s][0] for s in sets}, b.twin, data_used, pvals, dvals, fsvals)
    R.dspecs = datas
    try:
        r64 = D.residual_np(case["residual"], R)
        m64 = D.residual_np(case["residual"], R, mag=True)
    except Exception as e:
        raise Inconclusive("reference residual failed: %r" % e)
    ref, scale = reduce_ref(case, r64, m64)
    cnt["loss_judged"] = 1
    judged += 1
    if not isinstance(loss, torch.Tensor) or loss.numel() != 1:
        V.append(viol("loss_shape", "forward returned %s" % (tuple(loss.shape) if isinstance(loss, torch.Tensor)
                                                            else type(loss).__name__), **mech0))
        return V, judged, cnt
    got = float(loss.detach().double().reshape(-1)[0])
    tol = RTOL * max(abs(ref), scale) + 1e-12
    if not (abs(got - ref) <= tol):
        V.append(viol("loss_value", "forward() call %s returned %.9g, the documented reduction on the sampled points is "
                      "%.9g (ratio %.6g, tol %.2g; %d points, residual shape %s)"
                      % (phase, got, ref, got / ref if ref else float("nan"), tol, info.get("n", -1), r64.shape),
                      ncomp=int(r64.shape[-1]), **mech0))
    return V, judged, cnt


def _find_stale(b, phase, d, got, side):
    """Is `got` the data function on an earlier point set of the samplers of this condition?"""
    tr, tag, kind = b.trace, b.tag, b.case["kind"]
    earlier = _earlier_samples(tr, "main", tag, phase)
    for ev in earlier:
        c, _ = _cols(ev)
        if kind == "integro":
            c = {k: v[:, None, :] for k, v in c.items()}
        elif kind == "pideeponet":
            nf = got.shape[0]
            c = {k: np.repeat(v[None], nf, axis=0) for k, v in c.items()}
        elif kind == "periodic":
            # earlier point set of the non-periodic sampler, same side value of the periodic variable
            pv = b.case["periodic_var"]
            if pv in c:
                pass        # construction-time product points carry the periodic column already
            else:
                lo_hi = [v for v in b.case["vars"] if v["name"] == pv][0]
                val = lo_hi["lo"] if side == "left" else lo_hi["hi"]
                n = next(iter(c.values())).shape[0] if c else 1
                c = dict(c)
                c[pv] = np.full((n, 1), np.float64(np.float32(val)))
        try:
            exp = _data_ref(d, c)
        except KeyError:
            continue
        if _close(got, exp):
            return ("stale", ("phase %s" % ev["phase"], exp))
    return None


def reduce_ref(case, r64, m64):
    """documented reduction of the residual in float64 -> (loss, magnitude scale)"""
    kind = case["kind"]
    if kind in ("mean", "deepritz"):
        return float(np.mean(r64)), float(np.mean(m64))
    err = case.get("error") or "sq_sum"
    red = case.get("reduce") or "mean"
    e, em = D.error_np(err, r64), D.error_np(err, m64)
    if kind == "adaptive_w":
        w = np.asarray(case["aw"], dtype=np.float32).astype(np.float64)
        return float(np.mean(w * e)), float(np.mean(np.abs(w) * em))
    return D.reduce_np(red, e), D.reduce_np(red, em)


# ---------------------------------------------------------------------------------------------
# running a sampler-type case (C04)
# ---------------------------------------------------------------------------------------------

def exception_viol(e, case, phase, **extra):
    sclass = sampler_class(case.get("sampler"))
    return viol("exception", "%s raised %s: %s" % ("constructor" if phase == "construct" else "forward() call %s" % phase,
                                                   type(e).__name__, str(e)[:200]),
                cond={"periodic": "PeriodicCondition"}.get(case["kind"], case["kind"]),
                static=sclass.startswith("static"), sampler=sclass, data_functions=bool(case.get("data")),
                exc=type(e).__name__, site=exc_site(e), phase="construct" if phase == "construct" else "forward",
                parameter=case.get("param_mode", "single") if case.get("params") else "none", **extra)


def run_sampler_case(case):
    torch.manual_seed(case["seed"])
    res = {"judged": 0, "nontrivial": False, "viol": [], "counters": {}}
    C = res["counters"]
    world = World()
    trace = Trace()
    try:
        if case["kind"] == "pideeponet":
            net, twin, fs = build_deeponet(case, world, trace)
            b = build_condition(case, world, trace, model=(net, twin), fset=fs)
        else:
            b = build_condition(case, world, trace)
    except Inconclusive:
        raise
    except Exception as e:
        trace_site = exc_site(e)
        if trace_site == "?":
            raise
        res["viol"].append(exception_viol(e, case, "construct"))
        return res
    C["construct_sample_calls"] = len(trace.get("sample", "construct", role="main"))
    C["construct_data_calls"] = len(trace.get("data_call", "construct"))
    for k in range(case["calls"]):
        trace.phase = k
        if k >= 1 and case.get("param_change") and getattr(b, "param", None) is not None and case.get("param_mode") != "joined":
            # the learnable Parameter gets new values between two forward() calls: in place (what an optimizer does) or by
            # re-binding its storage (`.data = ...`, what a reset / dtype-preserving reload does); the next loss has to use them
            pt = b.param.as_tensor
            gnew = torch.Generator().manual_seed(int(case["seed"]) + 17 * k)
            new = pt.detach().clone() + 0.4 * torch.randn(pt.shape, generator=gnew)
            how = case["param_change"] if case["param_change"] != "both" else ("rebind" if k % 2 else "inplace")
            with torch.no_grad():
                if how == "rebind":
                    pt.data = new
                else:
                    pt.copy_(new)
            C["parameter_changes_" + how] = C.get("parameter_changes_" + how, 0) + 1
        try:
            if case["kind"] == "pideeponet":
                loss = b.cond(iteration=k)
            else:
                loss = b.cond()
        except Inconclusive:
            raise
        except Exception as e:
            rx = trace.get("residual_exc", k)
            if rx:
                res["viol"].append(viol("derivative_unavailable", "the residual could not differentiate an output w.r.t. a "
                                        "named coordinate in forward() call %s: %s: %s" % (k, rx[-1]["exc"], rx[-1]["msg"]),
                                        cond=case["kind"], sampler=sampler_class(case.get("sampler")),
                                        model=case["model"]["type"]))
            elif exc_site(e) == "?":
                raise
            else:
                res["viol"].append(exception_viol(e, case, k))
            break
        V, j, cnt = judge_call(b, k, loss)
        res["judged"] += j
        for kk, vv in cnt.items():
            C[kk] = C.get(kk, 0) + vv
        C["forward_calls"] = C.get("forward_calls", 0) + 1
        C["data_calls_in_forward"] = C.get("data_calls_in_forward", 0) + len(trace.get("data_call", k))
        if V:
            res["viol"].extend(V)
            break
    res["nontrivial"] = C.get("loss_judged", 0) >= 1 and res["judged"] > 1
    return res


# ---------------------------------------------------------------------------------------------
# data conditions
# ---------------------------------------------------------------------------------------------

def _norm_ref(batches_abs, norm, root, full):
    """documented value: mean(|m-y|^p) per batch (max for 'inf'), averaged over the batches for the full data set,
    root applied last.  batches_abs: list of float64 arrays."""
    if norm == "inf":
        v = max(float(np.max(a)) for a in batches_abs)
    else:
        v = sum(float(np.mean(a ** norm)) for a in batches_abs) / len(batches_abs)
    if root != 1.0:
        v = v ** (1.0 / root)
    return v


def run_data_case(case):
    import torchphysics as tp
    from torchphysics.problem.spaces import Points
    torch.manual_seed(case["seed"])
    rng = np.random.default_rng(case["seed"])
    res = {"judged": 0, "nontrivial": False, "viol": [], "counters": {}}
    C = res["counters"]
    trace = Trace()
    vars_ = case["vars"]
    byname = {v["name"]: v for v in vars_}
    model, twin = D.build_model(case["model"], vars_)
    ds = case["dataset"]
    cols = []
    for n in ds["x_order"]:
        v = byname[n]
        cols.append(rng.uniform(v["lo"], v["hi"], size=(ds["n"], v["dim"])))
    X = torch.tensor(np.concatenate(cols, axis=1)).float()
    nd = sum(o["dim"] for o in case["model"]["outs"])
    Y = torch.tensor(rng.uniform(-2, 2, size=(ds["n"], nd))).float()
    mech0 = {"cond": "data", "norm": str(case["norm"]), "root": case["root"], "full": case["full"],
             "constrain": bool(case.get("residual")), "model": case["model"]["type"]}
    try:
        loader = tp.utils.PointsDataLoader((Points(X, D.space_of(vars_, ds["x_order"])),
                                            Points(Y, D.space_of(case["model"]["outs"]))),
                                           batch_size=ds["batch"], shuffle=ds["shuffle"], drop_last=ds["drop_last"])
        if len(loader) == 0:
            res["cls_extra"] = "empty"
            return res
        probe_loader(loader, trace)
        kw = {}
        if case.get("residual"):
            fn, _ = make_residual(case, trace)
            kw["constrain_fn"] = fn
        if "weight" in case:
            kw["weight"] = case["weight"]
        cond = tp.conditions.DataCondition(model, loader, case["norm"], root=case["root"],
                                           use_full_dataset=case["full"], **kw)
    except Exception as e:
        if exc_site(e) == "?":
            raise
        res["viol"].append(viol("exception", "constructor raised %r" % e, exc=type(e).__name__, site=exc_site(e),
                                phase="construct", **mech0))
        return res
    for k in range(case["calls"]):
        trace.phase = k
        try:
            loss = cond()
        except Exception as e:
            if exc_site(e) == "?":
                raise
            res["viol"].append(viol("exception", "forward() call %d raised %r" % (k, e), exc=type(e).__name__,
                                    site=exc_site(e), phase="forward", **mech0))
            break
        C["forward_calls"] = C.get("forward_calls", 0) + 1
        bev = trace.get("batch", k)
        C["batches"] = C.get("batches", 0) + len(bev)
        if not bev:
            res["viol"].append(viol("no_batch", "forward() call %d consumed no batch" % k, **mech0))
            break
        used = bev if case["full"] else bev[-1:]
        rev = trace.get("residual", k)
        absl, mags = [], []
        bad = False
        for bi, be in enumerate(used):
            (xt, xs), (yt, ys) = be["items"]
            coords, coords_t = _cols({"t": xt, "space": xs})
            if hasattr(twin, "_cache"):
                twin._cache.clear()
            mo = np.concatenate([twin.out(coords, o["name"], j) for o in case["model"]["outs"] for j in range(o["dim"])],
                                axis=-1)
            mm = np.concatenate([twin.mag(coords, o["name"], j) for o in case["model"]["outs"] for j in range(o["dim"])],
                                axis=-1)
            if case.get("residual"):
                if len(rev) != len(used):
                    res["viol"].append(viol("constrain_calls", "constrain_fn called %d times for %d batches"
                                            % (len(rev), len(used)), **mech0))
                    bad = True
                    break
                recv = rev[bi]["kw"]
                for k_, base, side in [tuple(a) for a in case["sigargs"]]:
                    rt = recv[D.argname(base, side)]["t"]
                    res["judged"] += xt.shape[0]
                    if k_ == "coord":
                        if tuple(rt.shape) != tuple(coords_t[base].shape) or not torch.equal(rt, coords_t[base]):
                            res["viol"].append(viol("coordinate_rows", "constrain_fn argument %s does not carry the batch "
                                                    "columns of '%s'" % (base, base), arg="coord", **mech0))
                            bad = True
                    elif k_ == "out":
                        o = [o for o in case["model"]["outs"] if o["name"] == base][0]
                        exp = np.concatenate([twin.out(coords, base, j) for j in range(o["dim"])], axis=-1)
                        if not _close(_np(rt), exp):
                            res["viol"].append(viol("output_rows", "constrain_fn argument %s is not the model output at the "
                                                    "batch rows" % base, arg="out", **mech0))
                            bad = True
                R = D.Resolver({"": coords}, twin, {}, {}, {})
                mo = D.residual_np(case["residual"], R)
                mm = D.residual_np(case["residual"], R, mag=True)
            y = _np(yt)
            absl.append(np.abs(mo - y))
            mags.append(mm + np.abs(y))
            res["judged"] += xt.shape[0]
        if bad:
            break
        ref = _norm_ref(absl, case["norm"], case["root"], case["full"])
        scale = _norm_ref(mags, case["norm"], case["root"], case["full"])
        got_t = loss
        if not isinstance(got_t, torch.Tensor) or got_t.numel() != 1:
            res["viol"].append(viol("loss_shape", "forward returned %r" % (got_t,), **mech0))
            break
        got = float(got_t.detach().double().reshape(-1)[0])
        C["loss_judged"] = C.get("loss_judged", 0) + 1
        res["judged"] += 1
        # the root amplifies relative errors of tiny arguments; tolerance on the un-rooted scale is kept relative
        tol = RTOL * max(abs(ref), scale) * (3 if case["root"] != 1.0 else 1) + 1e-12
        if not abs(got - ref) <= tol:
            res["viol"].append(viol("loss_value", "forward() call %d returned %.9g, documented value on the %d delivered "
                                    "batch(es) (sizes %s) is %.9g (ratio %.6g)"
                                    % (k, got, len(used), [a.shape[0] for a in absl], ref, got / ref if ref else float("nan")),
                                    nbatches=len(used) if len(used) < 3 else "3+", **mech0))
            break
    res["nontrivial"] = C.get("loss_judged", 0) >= 1
    return res


def run_deeponet_data_case(case):
    import torchphysics as tp
    from torchphysics.problem.spaces import Points
    torch.manual_seed(case["seed"])
    rng = np.random.default_rng(case["seed"])
    res = {"judged": 0, "nontrivial": False, "viol": [], "counters": {}}
    C = res["counters"]
    trace = Trace()
    world = World()
    vars_ = case["vars"]
    byname = {v["name"]: v for v in vars_}
    net, twin, fs = build_deeponet(case, world, trace)
    ds = case["dataset"]
    don = case["don"]
    in_order = case["model"]["in_order"]
    nd = sum(o["dim"] for o in case["model"]["outs"])
    branch = torch.tensor(rng.uniform(-1, 1, size=(ds["nf"], don["disc_n"], don["fout"]["dim"]))).float()
    cols = [rng.uniform(byname[n]["lo"], byname[n]["hi"], size=(ds["nt"], byname[n]["dim"])) for n in in_order]
    trunk = torch.tensor(np.concatenate(cols, axis=1)).float()
    out = torch.tensor(rng.uniform(-2, 2, size=(ds["nf"], ds["nt"], nd))).float()
    mech0 = {"cond": "deeponet_data", "norm": str(case["norm"]), "root": case["root"], "full": case["full"]}
    try:
        loader = tp.utils.DeepONetDataLoader(branch, trunk, out, D.space_of([don["fout"]]), D.space_of(vars_, in_order),
                                             D.space_of(case["model"]["outs"]), ds["bb"], ds["tb"],
                                             shuffle_branch=ds["shuffle_branch"], shuffle_trunk=ds["shuffle_trunk"])
        probe_loader(loader, trace)
        cond = tp.conditions.DeepONetDataCondition(net, loader, case["norm"], root=case["root"],
                                                   use_full_dataset=case["full"])
    except Exception as e:
        if exc_site(e) == "?":
            raise
        res["viol"].append(viol("exception", "constructor raised %r" % e, exc=type(e).__name__, site=exc_site(e),
                                phase="construct", **mech0))
        return res
    for k in range(case["calls"]):
        trace.phase = k
        try:
            loss = cond()
        except Exception as e:
            if exc_site(e) == "?":
                raise
            res["viol"].append(viol("exception", "forward() call %d raised %r" % (k, e), exc=type(e).__name__,
                                    site=exc_site(e), phase="forward", **mech0))
            break
        C["forward_calls"] = C.get("forward_calls", 0) + 1
        bev = trace.get("batch", k)
        C["batches"] = C.get("batches", 0) + len(bev)
        if not bev:
            res["viol"].append(viol("no_batch", "forward() call %d consumed no batch" % k, **mech0))
            break
        used = bev if case["full"] else bev[-1:]
        absl = []
        for be in used:
            (bt, bs), (tt, ts), (ot, os_) = be["items"]
            with torch.no_grad():
                net.branch(Points(bt, D.space_of([don["fout"]])))
                m = net(Points(tt, D.space_of(vars_, [n for n, _d in ts]))).as_tensor
            absl.append(np.abs(_np(m) - _np(ot)))
            res["judged"] += int(np.prod(ot.shape[:-1]))
        ref = _norm_ref(absl, case["norm"], case["root"], case["full"])
        got = float(loss.detach().double().reshape(-1)[0]) if isinstance(loss, torch.Tensor) and loss.numel() == 1 else None
        C["loss_judged"] = C.get("loss_judged", 0) + 1
        if got is None or not abs(got - ref) <= 3 * RTOL * max(abs(ref), 1.0):
            res["viol"].append(viol("loss_value", "forward() call %d returned %s, documented value on the %d delivered "
                                    "batch(es) is %.9g" % (k, got, len(used), ref),
                                    nbatches=len(used) if len(used) < 3 else "3+", **mech0))
            break
    res["nontrivial"] = C.get("loss_judged", 0) >= 1
    return res


def run_param_case(case):
    import torchphysics as tp
    torch.manual_seed(case["seed"])
    res = {"judged": 0, "nontrivial": False, "viol": [], "counters": {}}
    trace = Trace()
    param = make_parameter(case)
    fn, _ = make_residual(case, trace)
    mech0 = {"cond": "param"}
    try:
        cond = tp.conditions.ParameterCondition(param, fn, case["weight"])
        for k in range(case["calls"]):
            trace.phase = k
            loss = cond()
            recv = trace.get("residual", k)[-1]["kw"]
            pc = param.coordinates
            for k_, base, side in [tuple(a) for a in case["sigargs"]]:
                res["judged"] += 1
                if not torch.equal(recv[base]["t"], pc[base].detach()):
                    res["viol"].append(viol("parameter_by_name", "penalty argument %s = %s, Parameter is %s"
                                            % (base, recv[base]["t"].tolist(), pc[base].tolist()), arg="par", **mech0))
            R = D.Resolver({}, None, {}, {n: _np(pc[n]) for n in pc}, {})
            ref = D.residual_np(case["residual"], R)
            got = _np(loss)
            if got.shape != ref.shape or not np.allclose(got, ref, rtol=1e-5, atol=1e-6):
                res["viol"].append(viol("loss_value", "penalty condition returned %s, penalty of the parameters is %s"
                                        % (got.tolist(), ref.tolist()), **mech0))
            res["counters"]["loss_judged"] = res["counters"].get("loss_judged", 0) + 1
    except Exception as e:
        if exc_site(e) == "?":
            raise
        res["viol"].append(viol("exception", "ParameterCondition raised %r" % e, exc=type(e).__name__, site=exc_site(e),
                                **mech0))
    res["nontrivial"] = res["counters"].get("loss_judged", 0) >= 1
    return res
