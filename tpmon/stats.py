"""Offline statistical checkers over recorded samples (DESIGN.md 4 C11).

All tests are chi-square tests with a per-test level ALPHA = 1e-9; a failing test is only reported by the
caller after it failed again on a fresh, four times larger sample from an independent stream.
"""
import math
import numpy as np
from scipy import stats as sst

ALPHA = 1e-9


def chi2_gof(counts, probs):
    """goodness of fit of observed cell counts against exact cell probabilities -> (stat, dof, p)"""
    counts = np.asarray(counts, float).reshape(-1)
    probs = np.asarray(probs, float).reshape(-1)
    N = counts.sum()
    exp = N * probs
    keep = exp > 0
    # merge cells with small expectation
    small = keep & (exp < 20)
    if small.any() and (~small & keep).any():
        c = np.concatenate([counts[keep & ~small], [counts[small].sum()]])
        e = np.concatenate([exp[keep & ~small], [exp[small].sum()]])
    else:
        c, e = counts[keep], exp[keep]
    stat = float(((c - e) ** 2 / e).sum())
    dof = max(1, len(c) - 1)
    return stat, dof, float(sst.chi2.sf(stat, dof))


def chi2_two_sample(c1, c2, min_expected=60):
    """two-sample chi-square on cell counts c1, c2 (cells with few points are merged) -> (stat, dof, p)"""
    c1 = np.asarray(c1, float).reshape(-1)
    c2 = np.asarray(c2, float).reshape(-1)
    tot = c1 + c2
    big = tot >= min_expected
    if (~big).any():
        c1 = np.concatenate([c1[big], [c1[~big].sum()]])
        c2 = np.concatenate([c2[big], [c2[~big].sum()]])
        tot = c1 + c2
    keep = tot > 0
    c1, c2, tot = c1[keep], c2[keep], tot[keep]
    if len(c1) < 2:
        return 0.0, 1, 1.0
    N1, N2 = c1.sum(), c2.sum()
    a, b = math.sqrt(N2 / N1), math.sqrt(N1 / N2)
    stat = float(((a * c1 - b * c2) ** 2 / tot).sum())
    dof = len(c1) - 1
    return stat, dof, float(sst.chi2.sf(stat, dof))


def box_cells(X, box, g):
    """cell index of every row of X in a g^d partition of the box (points outside go to an extra cell)"""
    d = X.shape[1]
    lo, hi = box[0::2], box[1::2]
    u = (X - lo) / np.maximum(hi - lo, 1e-300)
    out = ((u < 0) | (u > 1)).any(1)
    idx = np.clip((u * g).astype(int), 0, g - 1)
    flat = np.zeros(len(X), int)
    for j in range(d):
        flat = flat * g + idx[:, j]
    flat[out] = g ** d
    return np.bincount(flat, minlength=g ** d + 1)


def binom_p(k, n, p):
    """two-sided binomial p-value (normal approximation is not used: exact)"""
    return float(sst.binomtest(int(k), int(n), p).pvalue)
