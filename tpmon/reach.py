"""Reach counters: counts entries (PY_START) into every function of the monitored library.

Uses sys.monitoring (3.12+) restricted to code objects whose file lies under the library source
tree; everything else is DISABLEd at its first event so the overhead is not measurable.  A check
whose deciding mechanism was never entered is *inconclusive*, never "held".
"""
import sys
import os
import collections

from . import REPO_SRC

_counts = collections.Counter()
_installed = False
_TOOL = None
_prefix = os.path.join(os.path.realpath(REPO_SRC), "torchphysics") + os.sep


def _on_start(code, offset):
    fn = code.co_filename
    if fn.startswith(_prefix):
        _counts[code.co_qualname] += 1
        return None
    return sys.monitoring.DISABLE


def install():
    global _installed, _TOOL
    if _installed or not hasattr(sys, "monitoring"):
        return
    mon = sys.monitoring
    for tool in (mon.PROFILER_ID, 4, 3, mon.OPTIMIZER_ID):
        try:
            mon.use_tool_id(tool, "tpmon-reach")
            _TOOL = tool
            break
        except ValueError:
            continue
    if _TOOL is None:
        return
    mon.register_callback(_TOOL, mon.events.PY_START, _on_start)
    mon.set_events(_TOOL, mon.events.PY_START)
    _installed = True


def snapshot():
    return dict(_counts)


def reset():
    _counts.clear()


def count(qualname):
    return _counts.get(qualname, 0)
