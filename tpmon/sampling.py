"""Shared sampling workload for the geometric monitors (C01, C02, ...): generated domain expressions x
sampling calls (domain level and sampler level), executed on the real library under the progress budget.
Each executed call yields an *observation* that the per-property oracles judge.
"""
import math
import numpy as np

from . import geo, gen_geo, probes
from .core import exc_site, BudgetExceeded

N_CHOICES = [1, 2, 3, 7, 10, 11, 50, 121, 300]


def _interior_points(node, env_row, rng, M=400):
    """a few points of the twin (row 0) by rejection from its hull box"""
    box = geo._hull_box(node, env_row, 1)[0]
    d = len(box) // 2
    P = box[0::2] + rng.random((20000, d)) * (box[1::2] - box[0::2])
    env = {k: np.repeat(v[:1], len(P), 0) for k, v in env_row.items()}
    keep = node.phi(P, env) < 0
    return P[keep][:M], box, float(keep.mean())


def plan_calls(rng, dom, tier):
    """list of call descriptors for one generated domain"""
    spec, rows, info = dom["spec"], dom["rows"], dom["info"]
    k = dom["k"]
    node = geo.ref(spec)
    env = {kk: np.asarray(v, float).reshape(len(v), -1) for kk, v in rows.items()}
    env0 = {kk: v[:1] for kk, v in env.items()}
    pts, box, frac = _interior_points(node, env0, rng)
    d = node.dim()
    vol_est = None
    m = node.measure(env0, 1)
    if m is not None:
        vol_est = float(m[0])
    elif len(pts):
        vol_est = float(np.prod(box[1::2] - box[0::2]) * frac)
    kind = info["kind"]
    calls = []
    ncalls = 7 if tier == "quick" else 9
    has_b = True
    menu = []
    menu += [("domain", "interior", "random", "n")] * 3
    menu += [("domain", "boundary", "random", "n")] * 3
    if k <= 1:
        menu += [("domain", "interior", "grid", "n")] * 2 + [("domain", "boundary", "grid", "n")] * 2
        menu += [("domain", "interior", "random", "d"), ("domain", "interior", "grid", "d"),
                 ("domain", "boundary", "random", "d"), ("domain", "boundary", "grid", "d")]
    menu += [("sampler", "interior", "random", "n")] * 2 + [("sampler", "boundary", "random", "n")] * 2
    menu += [("sampler", "interior", "grid", "n"), ("sampler", "boundary", "grid", "n")]
    menu += [("sampler", "interior", "random", "d"), ("sampler", "interior", "grid", "d"),
             ("sampler", "boundary", "random", "d")]
    menu += [("sampler", "interior", "lhs", "n")]
    if not info["dep"]:
        menu += [("sampler", "interior", "gauss", "n")]
    menu += [("sampler", "interior", "adaptive_thr", "n"), ("sampler", "interior", "adaptive_rnd", "n")]
    if kind == "product":
        # ProductDomain.sample_grid is documented as not implemented; its boundary is a union of products
        menu = [c for c in menu if c[2] not in ("grid",) and not (c[2] == "lhs")]
    idx = rng.permutation(len(menu))[:ncalls]
    for i in idx:
        lvl, target, fn, by = menu[int(i)]
        c = {"lvl": lvl, "target": target, "fn": fn, "by": by}
        if by == "n":
            c["n"] = int(rng.choice(N_CHOICES if tier == "quick" else N_CHOICES + [4, 16, 114, 121]))
            if fn in ("adaptive_thr", "adaptive_rnd"):
                c["n"] = max(c["n"], 3)
                c["ratio"] = float(rng.choice([0.0, 0.3, 1.0]))
        else:
            want = float(rng.choice([1.5, 8, 40, 300, 1500]))
            if target == "interior":
                base = vol_est if vol_est else 1.0
            else:
                base = _boundary_measure_bound(node, env0)
            c["d"] = float(want / max(base, 1e-9))
        if lvl == "sampler" and fn in ("random", "grid") and rng.random() < 0.3 and pts.shape[0] > 20 \
                and not (d == 1 and target == "boundary") \
                and not (target == "boundary" and c.get("n", 99) < 10) \
                and not (info["dep"] and kind in ("rotate", "translate")) and kind != "product":
            ax = int(rng.integers(0, d))
            move0 = _move0(spec) if info["dep"] else 0.0
            t0 = env0["t"][0, 0] if "t" in env0 else 0.0
            thr = float(np.median(pts[:, ax]) - (move0 * t0 if ax == 0 else 0.0))
            c["filter"] = {"axis": ax, "thr": thr, "sign": int(rng.choice([-1, 1])),
                           "move": float(move0) if ax == 0 else 0.0, "use_t": bool(info["dep"] and "t" in env0)}
        if lvl == "sampler" and rng.random() < 0.15 and fn in ("random", "grid"):
            c["static"] = True
        if fn == "gauss":
            p = pts[int(rng.integers(0, len(pts)))] if len(pts) else box[0::2]
            c["mean"] = [float(x) for x in p]
            c["std"] = float(rng.uniform(0.1, 1.0) * max(1e-3, (box[1::2] - box[0::2]).max()) * 0.5)
        calls.append(c)
    return calls


def _move0(spec):
    """coefficient of the rigid co-motion along axis 0 (first 'lin' term in t found in the spec)"""
    stack = [spec]
    while stack:
        s = stack.pop()
        if isinstance(s, dict):
            if "terms" in s:
                for t in s["terms"]:
                    if t.get("var") == "t" and t.get("kind", "lin") == "lin":
                        return float(np.atleast_1d(t["coef"])[0])
            stack.extend(v for v in s.values() if isinstance(v, (dict, list)))
        elif isinstance(s, list):
            stack.extend(v for v in s if isinstance(v, (dict, list)))
    return 0.0


def _boundary_measure_bound(node, env0):
    """sum of the leaf boundary measures (upper bound of the boundary measure), row 0"""
    if isinstance(node, geo.Bool):
        return _boundary_measure_bound(node.a, env0) + _boundary_measure_bound(node.b, env0)
    if isinstance(node, geo.Moved):
        return _boundary_measure_bound(node.d, env0)
    if isinstance(node, geo.Product):
        bb = geo._hull_box(node.b, env0, 1)
        mid = 0.5 * (bb[:, 0::2] + bb[:, 1::2])
        env2 = dict(env0)
        off = 0
        for n_, d_ in node.b.space():
            env2[n_] = mid[:, off:off + d_]
            off += d_
        ma = node.a.measure(env2, 1)
        mb = node.b.measure(env0, 1)
        return float(_boundary_measure_bound(node.a, env2) * (mb[0] if mb is not None else 1.0)
                     + (ma[0] if ma is not None else 1.0) * _boundary_measure_bound(node.b, env0))
    if isinstance(node, geo.Interval):
        return 2.0
    if isinstance(node, (geo.Ball, geo.Polygonal, geo.Polyhedron)):
        return float(node.bmeasure(env0, 1)[0])
    return 1.0


SCALES = [0.01, 0.05, 30.0, 300.0]


def gen_cases(seed, tier, stream, n_quick, n_thorough, scales=False, **domkw):
    rng = np.random.default_rng([seed, stream])
    n = n_quick if tier == "quick" else n_thorough
    depth = 2 if tier == "quick" else 3
    cases = []
    for i in range(n):
        if i % 7 == 3 and not domkw:
            # pairing stress: parameter dependent cut / intersection, several rows in disjoint regions, many small calls
            # (row-wise rejection loops must keep every point with its own parameter row)
            for _ in range(60):
                dom = gen_geo.gen_domain(rng, max_depth=1, allow=("bool",), k=int(rng.choice([3, 5, 8])), dep=True, strong=True,
                                         dim=int(rng.choice([1, 2, 2, 3])))
                if dom["spec"].get("op") in ("cut", "isect") and dom["info"]["dep"]:
                    break
            calls = []
            for lvl in ("domain", "sampler"):
                calls += [{"lvl": lvl, "target": "interior", "fn": "random", "by": "n", "n": 1} for _ in range(12)]
                calls += [{"lvl": lvl, "target": "interior", "fn": "random", "by": "n", "n": int(m)} for m in (2, 3, 2)]
            calls += [{"lvl": "sampler", "target": "interior", "fn": "lhs", "by": "n", "n": 3},
                      {"lvl": "sampler", "target": "interior", "fn": "grid", "by": "n", "n": 7}]
            dom["info"]["stress"] = True
            cases.append({"spec": dom["spec"], "rows": dom["rows"], "info": dom["info"], "k": dom["k"], "calls": calls,
                          "seed": int(rng.integers(0, 2 ** 31))})
            continue
        dom = gen_geo.gen_domain(rng, max_depth=int(rng.integers(1, depth + 1)), **domkw)
        if scales and i % 6 == 1 and "product" not in geo.spec_ops(dom["spec"]):
            # the same expression at another length scale (before the calls are planned: densities follow the scale)
            S = float(SCALES[(i // 6) % len(SCALES)])
            dom["spec"] = geo.scale_spec(dom["spec"], S)
            dom["info"] = dict(dom["info"], scale=S)
        calls = plan_calls(rng, dom, tier)
        cases.append({"spec": dom["spec"], "rows": dom["rows"], "info": dom["info"], "k": dom["k"], "calls": calls,
                      "seed": int(rng.integers(0, 2 ** 31))})
    return cases


# ---------------------------------------------------------------------------------------------
# execution
# ---------------------------------------------------------------------------------------------

def make_filter(f):
    import torch
    ax, thr, sg, mv = f["axis"], f["thr"], f["sign"], f["move"]
    if f["use_t"]:
        def filt(x, t):
            return sg * (x[:, ax:ax + 1] - mv * t[:, :1] - thr) >= 0
    else:
        def filt(x):
            return sg * (x[:, ax:ax + 1] - thr) >= 0
    return filt


def filter_ref(f, X, env):
    v = X[:, f["axis"]] - (f["move"] * env["t"][:, 0] if f["use_t"] else 0.0) - f["thr"]
    return f["sign"] * v


class Obs:
    """what one executed call produced"""
    __slots__ = ("call", "points", "exc", "site", "inner", "extra", "budget")

    def __init__(self, call):
        self.call, self.points, self.exc, self.site, self.inner, self.extra, self.budget = call, None, None, None, None, {}, None


def build_case(case):
    import torch
    torch.manual_seed(case["seed"])
    probes.install()
    try:
        D = geo.build(case["spec"])
    except Exception as e:
        from .core import LibraryFailure, viol
        raise LibraryFailure(viol("exception", "building %s through the public constructors raised %s in %s: %s" %
                                  (case.get("info", {}).get("desc", "?"), type(e).__name__, exc_site(e), str(e)[:300]),
                                  exc=type(e).__name__, site=exc_site(e), phase="construct"))
    node = geo.ref(case["spec"])
    P, env = geo.make_params(case["rows"])
    return D, node, P, env


def target_of(D, call):
    return D if call["target"] == "interior" else D.boundary


def run_call(D, call, P):
    import torch
    import torchphysics as tp
    S = tp.samplers
    o = Obs(call)
    tgt = None
    probes.begin_call()
    try:
        tgt = target_of(D, call)
        kw = {"n": call["n"]} if call["by"] == "n" else {"d": call["d"]}
        if call["lvl"] == "domain":
            f = tgt.sample_random_uniform if call["fn"] == "random" else tgt.sample_grid
            o.points = f(params=P, **kw)
        else:
            skw = {"n_points": call["n"]} if call["by"] == "n" else {"density": call["d"]}
            if "filter" in call:
                skw["filter_fn"] = make_filter(call["filter"])
            fn = call["fn"]
            if fn == "random":
                s = S.RandomUniformSampler(tgt, **skw)
            elif fn == "grid":
                s = S.GridSampler(tgt, **skw)
            elif fn == "lhs":
                s = S.LHSSampler(tgt, call["n"])
            elif fn == "gauss":
                s = S.GaussianSampler(tgt, call["n"], mean=call["mean"], std=call["std"])
            elif fn == "adaptive_thr":
                s = S.AdaptiveThresholdRejectionSampler(tgt, resample_ratio=call["ratio"], n_points=call["n"])
            elif fn == "adaptive_rnd":
                s = S.AdaptiveRandomRejectionSampler(tgt, n_points=call["n"])
            else:
                raise ValueError(fn)
            if call.get("static"):
                s = s.make_static()
            if fn.startswith("adaptive"):
                first = s.sample_points(params=P)
                o.extra["first"] = first.as_tensor.detach().clone()
                loss = torch.rand(len(first))
                o.extra["loss"] = loss.clone()
                P2 = P
                if call.get("p2") == "reverse" and len(P) > 1:
                    # later calls may come with other parameter rows: rows kept from the first call stay paired with the
                    # parameter row they were sampled for (the returned points carry their own parameter columns)
                    P2 = tp.spaces.Points(P.as_tensor.flip(0).clone(), P.space)
                    o.extra["p2"] = True
                o.points = s.sample_points(unreduced_loss=loss, params=P2)
            else:
                o.points = s.sample_points(P)
                if call.get("static"):
                    again = s.sample_points(P)
                    o.extra["static_same"] = bool(again is o.points or torch.equal(again.as_tensor, o.points.as_tensor))
                    o.extra["last_rows"] = len(again)      # len(sampler) refers to the most recent sample
            try:
                o.extra["len"] = len(s)
            except Exception as e:
                o.extra["len_exc"] = repr(e)[:200]
    except BudgetExceeded as e:
        o.budget = str(e)
    except Exception as e:
        o.exc = e
        o.site = exc_site(e)
    finally:
        o.inner = probes.end_call()
    return o


def split_result(node, points, env, k, call):
    """-> (X (rows, dim) float64 of the domain variables, envrows dict per row, problems list)"""
    names = [n for n, _ in node.space()]
    sp = points.space
    coords = points.coordinates
    problems = []
    try:
        X = np.concatenate([coords[n].detach().double().numpy().reshape(len(points), -1) for n in names], 1)
    except KeyError as e:
        return None, None, ["result space %s lacks domain variable %s" % (list(sp.keys()), e)]
    R = len(points)
    envrows = {}
    if call["lvl"] == "sampler":
        for pn in env:
            if pn in coords:
                envrows[pn] = coords[pn].detach().double().numpy().reshape(R, -1)
            else:
                problems.append("parameter %s missing from sampler output space %s" % (pn, list(sp.keys())))
                envrows[pn] = np.repeat(env[pn][:1], R, 0)
    else:
        kk = max(k, 1)
        if R % kk != 0:
            problems.append("row count %d not divisible by %d parameter rows" % (R, kk))
            n = max(1, R // kk)
        else:
            n = R // kk
        idx = np.minimum(np.arange(R) // max(n, 1), kk - 1)
        for pn in env:
            envrows[pn] = env[pn][idx]
    return X, envrows, problems


def call_cls(call, info):
    return "%s/%s/%s/%s%s%s" % (call["lvl"], call["target"], call["fn"], call["by"],
                                "/filter" if "filter" in call else "", "/static" if call.get("static") else "")


def ncls(n):
    if n is None:
        return "d"
    return "1" if n == 1 else ("small" if n < 10 else ("mid" if n < 100 else "big"))
