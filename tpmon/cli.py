"""./check <Cxx> [--tier quick|thorough] [--seed N] [--replay path]"""
import argparse
import os
import sys

from . import core


def main():
    ap = argparse.ArgumentParser()
    ap.add_argument("pid")
    ap.add_argument("--tier", default=os.environ.get("VERIF_TIER", "quick"))
    ap.add_argument("--seed", type=int, default=int(os.environ.get("VERIF_SEED", "0") or 0))
    ap.add_argument("--replay", default=None)
    a = ap.parse_args()
    tier = a.tier if a.tier in ("quick", "thorough") else "quick"
    sys.exit(core.run_check(a.pid, tier, a.seed, a.replay))


if __name__ == "__main__":
    main()
