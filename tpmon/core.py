"""Driver shared by all checks: sharding over worker subprocesses, verdicts, known findings,
evidence and replay files.  See DESIGN.md section 2.

A check module (tpmon/checks/Cxx.py) provides

    LEVEL            evidence level ("exploration" | "fault_enumeration")
    RULE             how cases are generated and what makes one distinct / non-trivial
    REQUIRED_REACH   list of library function qualnames (or tuples = any-of) that must be entered
    MIN_NONTRIVIAL   minimum number of distinct non-trivial case classes for a "held" verdict
    gen_cases(seed, tier) -> list of JSON-able case dicts (each gets a "cid")
    run_case(case)   -> result dict  {"cls", "judged", "nontrivial", "viol": [...], "counters": {...}}
    optional: ASSUMPTIONS, CASE_TIMEOUT, MAX_SHARDS, finish(results, ctx) -> extra violations
"""
import importlib
import json
import os
import shutil
import signal
import subprocess
import sys
import tempfile
import time
import traceback
import collections

from . import VERIF_ROOT, REPO_SRC

EVIDENCE_DIR = os.path.join(VERIF_ROOT, "evidence")
REPLAY_DIR = os.path.join(VERIF_ROOT, "replays")
if os.path.realpath(REPO_SRC) != "/repo/src":
    # developer runs against a scratch copy (mutants, seeded changes) must not touch the committed evidence / replays
    EVIDENCE_DIR = os.path.join(VERIF_ROOT, ".tmp", "scratch-evidence")
    REPLAY_DIR = os.path.join(VERIF_ROOT, ".tmp", "scratch-replays")
FINDINGS_FILE = os.path.join(VERIF_ROOT, "KNOWN_FINDINGS.json")
TMP_ROOT = os.path.join(VERIF_ROOT, ".tmp")
PY = sys.executable


class CaseTimeout(BaseException):
    pass


class Inconclusive(Exception):
    """Raised by a monitor when its own reference is not trustworthy for this case."""


class LibraryFailure(Exception):
    """The library raised while the harness was building the objects of a case through the public constructors:
    a violation (the promised object was not delivered), carried as a ready violation record."""

    def __init__(self, v):
        super().__init__(v["msg"])
        self.v = v


class BudgetExceeded(Exception):
    """Raised from inside a probe when an outer call exceeds its logical progress budget."""


def viol(kind, msg, **mech):
    """A violation record. `mech` describes the mechanism (used to match known findings)."""
    return {"kind": kind, "msg": str(msg)[:1500], "mech": mech}


def exc_site(e):
    """Name of the innermost library function on the traceback of e (mechanism of a crash)."""
    site = None
    for fs in traceback.extract_tb(e.__traceback__):
        if "torchphysics" in fs.filename and "/verif/" not in fs.filename and fs.name != "__torch_function__":
            site = fs.name
    return site or "?"


# ---------------------------------------------------------------------------------------------
# worker side
# ---------------------------------------------------------------------------------------------

def _alarm(signum, frame):
    raise CaseTimeout()


def run_one(mod, case, timeout):
    from . import reach
    t0 = time.time()
    before = reach.snapshot()
    res = {"cid": case.get("cid"), "cls": "?", "judged": 0, "nontrivial": False, "viol": [],
           "counters": {}, "status": "held"}
    old = signal.signal(signal.SIGALRM, _alarm)
    signal.alarm(int(timeout))
    try:
        out = mod.run_case(case)
        res.update(out)
        if res["viol"]:
            res["status"] = "violated"
    except CaseTimeout:
        res["status"] = "inconclusive"
        res["reason"] = "wall-clock watchdog (%ds) fired" % timeout
    except Inconclusive as e:
        res["status"] = "inconclusive"
        res["reason"] = "reference not trustworthy: %s" % e
    except BudgetExceeded as e:
        res["status"] = "violated"
        res["viol"] = [viol("no_bounded_progress", str(e), site="budget")]
    except LibraryFailure as e:
        res["status"] = "violated"
        res["viol"] = [e.v]
    except Exception as e:  # harness error or unexpected library exception escaping a monitor
        res["status"] = "inconclusive"
        res["reason"] = "harness exception: %s\n%s" % (repr(e)[:300], traceback.format_exc()[-1500:])
    finally:
        signal.alarm(0)
        signal.signal(signal.SIGALRM, old)
    after = reach.snapshot()
    res["reach"] = {k: v - before.get(k, 0) for k, v in after.items() if v - before.get(k, 0) > 0}
    res["wall_s"] = round(time.time() - t0, 3)
    return res


def worker_main(argv):
    pid, shard_file, out_file = argv
    import faulthandler
    faulthandler.enable()
    import warnings
    warnings.filterwarnings("ignore")
    import torch
    torch.set_num_threads(1)
    from . import reach
    reach.install()
    mod = importlib.import_module("tpmon.checks." + pid)
    # import the library (and whatever the check needs) before any per-case watchdog is armed: an alarm that
    # fires in the middle of an import leaves partially initialised modules behind
    import torchphysics  # noqa: F401
    from . import probes
    probes.install()
    if hasattr(mod, "warmup"):
        mod.warmup()
    with open(shard_file) as f:
        cases = json.load(f)
    timeout = getattr(mod, "CASE_TIMEOUT", 120)
    results = []
    for case in cases:
        r = run_one(mod, case, timeout)
        results.append(r)
        with open(out_file + ".part", "w") as f:
            json.dump(results, f)
    os.replace(out_file + ".part", out_file)


# ---------------------------------------------------------------------------------------------
# known findings
# ---------------------------------------------------------------------------------------------

def load_findings(pid):
    if not os.path.exists(FINDINGS_FILE):
        return []
    with open(FINDINGS_FILE) as f:
        data = json.load(f)
    return [x for x in data.get("findings", []) if x.get("property") == pid and x.get("status") == "open"]


def _match_value(want, have):
    if isinstance(want, list):
        return have in want
    if isinstance(want, dict):
        if "min" in want and not (have is not None and have >= want["min"]):
            return False
        if "max" in want and not (have is not None and have <= want["max"]):
            return False
        if "contains" in want and not (isinstance(have, str) and want["contains"] in have):
            return False
        return True
    return want == have


def match_finding(v, findings):
    """An open finding suppresses a violation only if its `match` predicate holds for both the
    violation kind and every listed mechanism key (exact value, list of values, or range)."""
    for f in findings:
        m = f.get("match", {})
        if "kind" in m and not _match_value(m["kind"], v["kind"]):
            continue
        ok = True
        for k, want in m.items():
            if k == "kind":
                continue
            if not _match_value(want, v["mech"].get(k)):
                ok = False
                break
        if ok:
            return f
    return None


# ---------------------------------------------------------------------------------------------
# main side
# ---------------------------------------------------------------------------------------------

def _env():
    env = dict(os.environ)
    env["PYTHONHASHSEED"] = "0"
    env["PYTHONPATH"] = VERIF_ROOT + os.pathsep + env.get("PYTHONPATH", "")
    env["OMP_NUM_THREADS"] = "1"
    env["MKL_NUM_THREADS"] = "1"
    env["PYTHONWARNINGS"] = "ignore"
    return env


def run_shards(pid, cases, max_shards, shard_timeout):
    os.makedirs(TMP_ROOT, exist_ok=True)
    tmp = tempfile.mkdtemp(prefix="run-%s-" % pid, dir=TMP_ROOT)
    n = max(1, min(max_shards, len(cases), os.cpu_count() or 4, int(os.environ.get("TPMON_SHARDS", "64"))))
    shards = [cases[i::n] for i in range(n)]
    procs = []
    try:
        for i, sh in enumerate(shards):
            sf = os.path.join(tmp, "shard%d.json" % i)
            of = os.path.join(tmp, "out%d.json" % i)
            with open(sf, "w") as f:
                json.dump(sh, f)
            log = open(os.path.join(tmp, "log%d.txt" % i), "w")
            p = subprocess.Popen([PY, "-m", "tpmon.worker", pid, sf, of], cwd=VERIF_ROOT,
                                 env=_env(), stdout=log, stderr=subprocess.STDOUT)
            procs.append((p, sh, of, log))
        results, problems = [], []
        deadline = time.time() + shard_timeout
        for i, (p, sh, of, log) in enumerate(procs):
            try:
                p.wait(timeout=max(1, deadline - time.time()))
            except subprocess.TimeoutExpired:
                p.kill()
                p.wait()
                problems.append("shard %d exceeded the wall-clock budget of %ds" % (i, shard_timeout))
            log.close()
            got = []
            for path in (of, of + ".part"):
                if os.path.exists(path):
                    try:
                        with open(path) as f:
                            got = json.load(f)
                        break
                    except Exception:
                        pass
            results.extend(got)
            if len(got) < len(sh):
                done = {r["cid"] for r in got}
                missing = [c["cid"] for c in sh if c["cid"] not in done]
                tail = ""
                try:
                    with open(os.path.join(tmp, "log%d.txt" % i)) as f:
                        tail = f.read()[-1500:]
                except Exception:
                    pass
                if p.returncode not in (0, None) or missing:
                    problems.append("shard %d ended (rc=%s) with %d cases not run, first=%s; log tail: %s"
                                    % (i, p.returncode, len(missing), missing[:1], tail))
        return results, problems
    finally:
        shutil.rmtree(tmp, ignore_errors=True)


def reach_ok(required, total_reach):
    missing = []
    for r in required:
        names = r if isinstance(r, (tuple, list)) else (r,)
        if not any(total_reach.get(n, 0) > 0 for n in names):
            missing.append("|".join(names))
    return missing


def write_replay(pid, case, res, v, idx):
    d = os.path.join(REPLAY_DIR, pid)
    os.makedirs(d, exist_ok=True)
    path = os.path.join(d, "%s-%d.json" % (str(case.get("cid", "case")).replace("/", "_"), idx))
    with open(path, "w") as f:
        json.dump({"property": pid, "case": case, "violation": v, "repo_src": REPO_SRC}, f, indent=1,
                  default=str)
    return path


def run_check(pid, tier="quick", seed=0, replay=None, out=sys.stdout):
    t0 = time.time()
    mod = importlib.import_module("tpmon.checks." + pid)
    findings = load_findings(pid)
    if replay:
        with open(replay) as f:
            rp = json.load(f)
        cases = [rp["case"]]
    else:
        cases = mod.gen_cases(seed, tier)
    for i, c in enumerate(cases):
        c.setdefault("cid", "%s-s%d-%05d" % (pid, seed, i))
    by_cid = {c["cid"]: c for c in cases}
    per_case = getattr(mod, "CASE_TIMEOUT", 120)
    shard_timeout = getattr(mod, "SHARD_TIMEOUT", {"quick": 900, "thorough": 3600}[tier])
    if not replay:
        shutil.rmtree(os.path.join(REPLAY_DIR, pid), ignore_errors=True)
        for stale in ("last_%s_violations.json" % pid, "last_%s_inconclusive.json" % pid):
            try:
                os.remove(os.path.join(TMP_ROOT, stale))
            except OSError:
                pass
    results, problems = run_shards(pid, cases, getattr(mod, "MAX_SHARDS", 16), shard_timeout)

    extra = []
    if hasattr(mod, "finish") and not replay:
        extra = mod.finish(results, {"tier": tier, "seed": seed}) or []

    total_reach = collections.Counter()
    counters = collections.Counter()
    classes = set()
    judged = 0
    inconcl = []
    unlisted, known_hit, known_list = [], collections.Counter(), []
    n_viol = 0
    for r in results:
        total_reach.update(r.get("reach", {}))
        counters.update({k: v for k, v in r.get("counters", {}).items() if isinstance(v, (int, float))})
        judged += r.get("judged", 0)
        if r["status"] == "inconclusive":
            inconcl.append((r["cid"], r.get("reason", "")))
        if r.get("nontrivial") and r["status"] != "inconclusive":
            classes.add(r.get("cls", "?"))
        for v in r.get("viol", []):
            v.setdefault("mech", {})
            f = match_finding(v, findings)
            if f:
                known_hit[f["id"]] += 1
                known_list.append({"finding": f["id"], "cid": r["cid"], "kind": v["kind"], "msg": v["msg"][:600], "mech": v["mech"]})
            else:
                n_viol += 1
                unlisted.append((r["cid"], v))
    for v in extra:
        f = match_finding(v, findings)
        if f:
            known_hit[f["id"]] += 1
        else:
            n_viol += 1
            unlisted.append((v.get("cid", "aggregate"), v))

    try:        # developer aid: the violations that were attributed to listed findings in this run
        os.makedirs(TMP_ROOT, exist_ok=True)
        with open(os.path.join(TMP_ROOT, "last_%s_known.json" % pid), "w") as fk:
            json.dump(known_list[:500], fk, indent=1, default=str)
    except Exception:
        pass
    for f in findings:
        if known_hit.get(f["id"]):
            print("KNOWN-FINDING: property=%s %s (%s; observed %d times in this run)"
                  % (pid, f["what"], f["id"], known_hit[f["id"]]), file=out)

    replay_paths = []
    for idx, (cid, v) in enumerate(unlisted[:20]):
        case = by_cid.get(cid, {"cid": cid, "aggregate": True})
        path = write_replay(pid, case, None, v, idx)
        replay_paths.append(path)
        print("VIOLATION property=%s replay=%s" % (pid, path), file=out)
        print("   %s: %s" % (v["kind"], v["msg"][:400].replace("\n", " ")), file=out)
    if len(unlisted) > 20:
        print("   ... %d further violations not printed" % (len(unlisted) - 20), file=out)
    if unlisted:
        grp = collections.Counter()
        for cid, v in unlisted:
            m = v.get("mech", {})
            grp[(v["kind"],) + tuple("%s=%s" % (k_, m[k_]) for k_ in sorted(m) if k_ not in ("frac",))] += 1
        print("   violation groups (kind, mechanism): ", file=out)
        for g, c_ in grp.most_common(40):
            print("     %4d  %s" % (c_, " ".join(g)), file=out)
        os.makedirs(TMP_ROOT, exist_ok=True)
        with open(os.path.join(TMP_ROOT, "last_%s_violations.json" % pid), "w") as f:
            json.dump([{"cid": cid, "v": v} for cid, v in unlisted], f, indent=1, default=str)
    if inconcl:
        with open(os.path.join(TMP_ROOT, "last_%s_inconclusive.json" % pid), "w") as f:
            json.dump(inconcl, f, indent=1, default=str)

    missing_reach = [] if replay else reach_ok(getattr(mod, "REQUIRED_REACH", []), total_reach)
    min_nt = 1 if replay else getattr(mod, "MIN_NONTRIVIAL", 2)
    reasons = []
    if problems:
        reasons.extend(problems)
    if missing_reach:
        reasons.append("mechanisms never reached: " + ", ".join(missing_reach))
    if len(classes) < min_nt:
        reasons.append("only %d distinct non-trivial case classes judged (need %d)" % (len(classes), min_nt))
    if len(inconcl) > max(2, 0.02 * len(cases)):
        reasons.append("%d inconclusive cases, e.g. %s" % (len(inconcl), inconcl[0]))

    samples = []
    if hasattr(mod, "sample_of"):
        for r in results[:: max(1, len(results) // 4)][:4]:
            samples.append(mod.sample_of(by_cid.get(r["cid"], {}), r))
    else:
        for c in cases[:: max(1, len(cases) // 3)][:3]:
            samples.append(c)
    interesting = sorted(getattr(mod, "REQUIRED_REACH", []), key=str)
    mech_reach = {}
    for r_ in interesting:
        for n_ in (r_ if isinstance(r_, (tuple, list)) else (r_,)):
            mech_reach[n_] = total_reach.get(n_, 0)
    ev = {
        "property_id": pid,
        "tier": tier,
        "seed": int(seed),
        "level": mod.LEVEL,
        "coverage": {
            "evaluations": len(results),
            "distinct_nontrivial": len(classes),
            "rule": mod.RULE,
            "samples": samples if samples else [{"note": "no case ran"}],
            "rows_or_events_judged": int(judged),
            "monitor_counters": {k: (int(v) if float(v).is_integer() else v) for k, v in sorted(counters.items())},
            "mechanism_reach": mech_reach,
            "library_functions_entered": len(total_reach),
            "known_findings_hit": dict(known_hit),
            "slowest_cases": [{"cid": r_["cid"], "wall_s": r_.get("wall_s"), "class": r_.get("cls")}
                              for r_ in sorted(results, key=lambda z: -(z.get("wall_s") or 0))[:3]],
            "inconclusive_cases": len(inconcl),
            "inconclusive_reasons": [x[1][:200] for x in inconcl[:3]],
            "verdict": "violated" if unlisted else ("inconclusive" if reasons else "held on what was observed"),
        },
        "assumptions": list(getattr(mod, "ASSUMPTIONS", [])),
        "wall_s": round(time.time() - t0, 2),
        "violations": n_viol,
    }
    if getattr(mod, "EXHAUSTIVE", False):
        ev["coverage"]["exhaustive"] = True
    if hasattr(mod, "extra_coverage"):
        ev["coverage"].update(mod.extra_coverage(results))
    if not replay:
        os.makedirs(EVIDENCE_DIR, exist_ok=True)
        with open(os.path.join(EVIDENCE_DIR, pid + ".json"), "w") as f:
            json.dump(ev, f, indent=1, default=str)

    print("%s tier=%s seed=%s cases=%d classes=%d judged=%d violations=%d known=%d inconclusive=%d wall=%.1fs"
          % (pid, tier, seed, len(results), len(classes), judged, n_viol, sum(known_hit.values()),
             len(inconcl), time.time() - t0), file=out)
    if unlisted:
        return 1
    if reasons:
        for r in reasons:
            print("INCONCLUSIVE property=%s reason=%s" % (pid, r[:600].replace("\n", " | ")), file=out)
        return 2
    print("HELD property=%s on everything observed" % pid, file=out)
    return 0
