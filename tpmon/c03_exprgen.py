"""c03_exprgen -- random differentiable expressions, built several times from ONE JSON tree.

A tree is a nested list
    ["v", name, i]            component i of the input variable `name`
    ["c", k]                  the constant k/4 (exactly representable in float32)
    ["add"|"sub"|"mul", a, b]
    ["pow", a, n]             integer power n >= 2
    ["sin"|"cos"|"exp"|"tanh", a]

From the same tree this module derives
  * `eval_torch`  : the function as a user would write it with torch operations (what the library's
                    operators differentiate),
  * `eval_numpy`  : a direct float64 evaluation (no sympy involved),
  * `to_sympy`    : the sympy twin; `Reference` differentiates it with `sympy.diff`, lambdifies ALL needed
                    expressions of a case in one `lambdify(..., 'numpy')` call, and validates every
                    differentiation step dE/ds at run time by a 4th-order central finite difference of the
                    numeric E (E = the direct numpy evaluation for the generated functions themselves, the
                    already validated lambdified expression for higher derivatives).  A disagreement is a bug
                    of the reference -> `core.Inconclusive`, never a violation.
  * `Reference.value_and_majorant` walks the sympy derivative once more with numpy and returns, next to
                    the value, the *magnitude of its terms* (sum of |terms| through Add, product through Mul,
                    first-order propagation through sin/cos/tanh/exp).  Rounding errors of any float
                    evaluation of the expression are proportional to this number, so the comparison
                    tolerances are stated relative to it.
"""
import math

import numpy as np

from .core import Inconclusive

UNARY = ("sin", "cos", "exp", "tanh")
BOUND_NODE = 8.0       # no node of a generated tree exceeds this magnitude on the box [-1, 1]^d
BOUND_EXP_ARG = 2.0
CONSTS = [k for k in range(-8, 9) if k != 0]


# ---------------------------------------------------------------------------------------------
# generation
# ---------------------------------------------------------------------------------------------

def bound(tree):
    """Magnitude bound of every node on the box [-1,1]^d; returns (bound of the root, all nodes ok)."""
    op = tree[0]
    if op == "v":
        return 1.0, True
    if op == "c":
        return abs(tree[1]) / 4.0, True
    if op in ("add", "sub", "mul"):
        a, oa = bound(tree[1])
        b, ob = bound(tree[2])
        r = a * b if op == "mul" else a + b
        return r, oa and ob and r <= BOUND_NODE
    if op == "pow":
        a, oa = bound(tree[1])
        r = a ** tree[2]
        return r, oa and r <= BOUND_NODE
    a, oa = bound(tree[1])
    if op == "exp":
        r = math.exp(min(a, 50.0))
        return r, oa and a <= BOUND_EXP_ARG and r <= BOUND_NODE
    return 1.0, oa                      # sin, cos, tanh


def leaves_of(tree, acc=None):
    acc = set() if acc is None else acc
    if tree[0] == "v":
        acc.add((tree[1], tree[2]))
    elif tree[0] != "c":
        for ch in tree[1:]:
            if isinstance(ch, list):
                leaves_of(ch, acc)
    return acc


def depth_of(tree):
    if tree[0] in ("v", "c"):
        return 0
    return 1 + max(depth_of(ch) for ch in tree[1:] if isinstance(ch, list))


def _const(rng):
    return ["c", int(rng.choice(CONSTS))]


def _leaf(rng, leaves, pconst):
    if not leaves or rng.random() < pconst:
        return _const(rng)
    n, i = leaves[int(rng.integers(len(leaves)))]
    return ["v", n, int(i)]


def _raw_tree(rng, leaves, depth):
    if depth <= 0 or rng.random() < 0.12:
        return _leaf(rng, leaves, 0.0)
    r = rng.random()
    if r < 0.20:
        return ["add", _raw_tree(rng, leaves, depth - 1), _operand(rng, leaves, depth - 1)]
    if r < 0.30:
        return ["sub", _raw_tree(rng, leaves, depth - 1), _operand(rng, leaves, depth - 1)]
    if r < 0.58:
        return ["mul", _operand(rng, leaves, depth - 1), _raw_tree(rng, leaves, depth - 1)]
    if r < 0.70:
        return ["pow", _raw_tree(rng, leaves, depth - 1), int(rng.choice([2, 2, 3, 4]))]
    return [UNARY[int(rng.integers(4))], _raw_tree(rng, leaves, depth - 1)]


def _operand(rng, leaves, depth):
    """Second operand of a binary node: a subtree or (sometimes) a constant."""
    if rng.random() < 0.2:
        return _const(rng)
    return _raw_tree(rng, leaves, depth)


def gen_tree(rng, leaves, depth, need=None):
    """Random tree over `leaves` ([name, i] pairs) of depth <= `depth` whose nodes respect the magnitude
    bounds.  `need`: the tree must involve at least one of these leaves (best effort)."""
    leaves = [tuple(l) for l in leaves]
    if not leaves:
        return _const(rng)
    best = None
    for attempt in range(60):
        t = _raw_tree(rng, leaves, depth)
        if not bound(t)[1]:
            continue
        if t[0] == "c":
            continue
        best = t
        if need is None or (leaves_of(t) & set(tuple(l) for l in need)):
            return t
    if best is not None:
        return best
    return ["v", leaves[0][0], int(leaves[0][1])]


TEMPLATES = ("generic", "const_in", "lin_coef", "lin_const", "separable", "product", "one_var", "bilinear",
             "constant")


def gen_component(rng, template, dleaves, oleaves, depth, groups=None):
    """One scalar component following a dependence template.
    dleaves: leaves of the derivative variables, oleaves: leaves of the other variables,
    groups: dleaves grouped per derivative variable."""
    dleaves = [list(l) for l in dleaves]
    oleaves = [list(l) for l in oleaves]
    for attempt in range(40):
        t = _component(rng, template, dleaves, oleaves, depth, groups)
        if bound(t)[1]:
            return t
    return gen_tree(rng, dleaves + oleaves, min(depth, 2))


def _pick(rng, leaves):
    n, i = leaves[int(rng.integers(len(leaves)))]
    return ["v", n, int(i)]


def _component(rng, template, dl, ol, depth, groups):
    d1 = max(1, depth - 1)
    if template == "constant":
        return _const(rng)
    if template == "const_in":                       # does not involve any derivative variable
        return gen_tree(rng, ol, depth) if ol else _const(rng)
    if template == "lin_const" or (template == "lin_coef" and not ol):
        k = int(rng.integers(1, len(dl) + 1))
        idx = rng.permutation(len(dl))[:k]
        t = _const(rng)
        for j in idx:
            t = ["add", t, ["mul", _const(rng), ["v", dl[j][0], int(dl[j][1])]]]
        return t
    if template == "lin_coef":                       # a(others) * s + b(others)
        t = ["add", ["mul", gen_tree(rng, ol, d1), _pick(rng, dl)], gen_tree(rng, ol, d1)]
        if len(dl) > 1 and rng.random() < 0.4:
            t = ["add", t, ["mul", gen_tree(rng, ol, max(1, d1 - 1)), _pick(rng, dl)]]
        return t
    if template == "bilinear":                       # linear in each variable separately, mixed terms != 0
        if len(dl) < 2:
            return _component(rng, "lin_coef", dl, ol, depth, groups)
        i, j = rng.permutation(len(dl))[:2]
        t = ["mul", ["v", dl[i][0], int(dl[i][1])], ["v", dl[j][0], int(dl[j][1])]]
        if ol:
            t = ["mul", t, gen_tree(rng, ol, max(1, d1 - 1))]
        if rng.random() < 0.5:
            t = ["add", t, ["mul", _const(rng), _pick(rng, dl)]]
        return t
    if template == "separable":
        return ["add", gen_tree(rng, dl, d1), gen_tree(rng, ol, d1) if ol else _const(rng)]
    if template == "product":
        return ["mul", gen_tree(rng, dl, d1), gen_tree(rng, ol, d1) if ol else _const(rng)]
    if template == "one_var" and groups and len(groups) > 1:
        g = groups[int(rng.integers(len(groups)))]
        t = gen_tree(rng, g, d1)
        if ol and rng.random() < 0.5:
            t = ["mul", t, gen_tree(rng, ol, max(1, d1 - 1))]
        return t
    return gen_tree(rng, dl + ol, depth, need=dl)    # generic


# ---------------------------------------------------------------------------------------------
# functions that are even in chosen leaves: stationary at 0 there, second derivative generally not 0
# ---------------------------------------------------------------------------------------------

EVEN_TEMPLATES = ("even_sub", "even_quad", "even_cos", "even_cosh", "even_cross")


def _square_leaves(tree, sset):
    """Replace every leaf in sset by its square."""
    if tree[0] == "v":
        return ["pow", tree, 2] if (tree[1], tree[2]) in sset else tree
    if tree[0] == "c":
        return tree
    return [tree[0]] + [_square_leaves(ch, sset) if isinstance(ch, list) else ch for ch in tree[1:]]


def gen_even_component(rng, template, sleaves, rest, depth):
    """A scalar function that is even in every leaf of `sleaves` (so its first derivatives w.r.t. them are
    exactly zero at 0, also in floating point) while the second derivatives are generally non-zero.
    `rest`: all other leaves (non-stationary derivative variables and other variables)."""
    sleaves = [list(l) for l in sleaves]
    rest = [list(l) for l in rest]
    for attempt in range(40):
        t = _even(rng, template, sleaves, rest, depth)
        if bound(t)[1]:
            return t
    return ["mul", _const(rng), ["pow", ["v", sleaves[0][0], int(sleaves[0][1])], 2]]


def _even(rng, template, sl, rest, depth):
    V = lambda l: ["v", l[0], int(l[1])]
    g = (lambda d: gen_tree(rng, rest, d)) if rest else (lambda d: _const(rng))
    d1 = max(1, depth - 1)
    if template == "even_cross" and len(sl) < 2:
        template = "even_quad"
    if template == "even_sub":             # G(s_0**2, s_1**2, ..., rest)
        t = gen_tree(rng, sl + rest, d1, need=sl)
        t = _square_leaves(t, set(tuple(l) for l in sl))
        if rng.random() < 0.5:             # make sure some pure second derivative does not vanish
            t = ["add", t, ["mul", _const(rng), ["pow", V(sl[int(rng.integers(len(sl)))]), 2]]]
        return t
    if template == "even_quad":            # c(rest) * sum a_i s_i**2 + h(rest)
        q = None
        k = int(rng.integers(1, len(sl) + 1))
        for j in rng.permutation(len(sl))[:k]:
            term = ["mul", _const(rng), ["pow", V(sl[int(j)]), 2]]
            q = term if q is None else ["add", q, term]
        t = ["mul", g(max(1, d1 - 1)), q] if rng.random() < 0.6 else q
        return ["add", t, g(max(1, d1 - 1))] if rng.random() < 0.5 else t
    if template == "even_cos":             # cos(sum c_i s_i) * g(rest)
        a = None
        k = int(rng.integers(1, len(sl) + 1))
        for j in rng.permutation(len(sl))[:k]:
            term = ["mul", ["c", int(rng.choice([-6, -4, -3, 2, 4, 5, 8]))], V(sl[int(j)])]
            a = term if a is None else ["add", a, term]
        t = ["cos", a]
        t = ["mul", t, g(max(1, d1 - 1))] if rng.random() < 0.6 else t
        return ["add", t, g(max(1, d1 - 1))] if rng.random() < 0.4 else t
    if template == "even_cosh":            # exp(s) + exp(-s)  (times g(rest))
        s = V(sl[int(rng.integers(len(sl)))])
        t = ["add", ["exp", s], ["exp", ["mul", ["c", -4], s]]]
        return ["mul", g(max(1, d1 - 1)), t] if rng.random() < 0.5 else t
    # even_cross: s_i * s_j * g(rest) + a * s_k**2   (mixed second derivative != 0, gradient 0 at 0)
    i, j = rng.permutation(len(sl))[:2]
    t = ["mul", V(sl[int(i)]), V(sl[int(j)])]
    if rng.random() < 0.6:
        t = ["mul", t, g(max(1, d1 - 1))]
    if rng.random() < 0.6:
        t = ["add", t, ["mul", _const(rng), ["pow", V(sl[int(rng.integers(len(sl)))]), 2]]]
    return t


# ---------------------------------------------------------------------------------------------
# the three evaluators
# ---------------------------------------------------------------------------------------------

def eval_torch(tree, env, like):
    """The function written with torch operations.  env: name -> tensor (..., d).  Returns (..., 1).
    `like`: a tensor (..., d) that fixes batch shape / dtype for constant functions."""
    import torch
    r = _ev_torch(tree, env, torch)
    if not isinstance(r, torch.Tensor):
        r = torch.full((*like.shape[:-1], 1), float(r), dtype=like.dtype)
    return r


def _ev_torch(t, env, torch):
    op = t[0]
    if op == "v":
        return env[t[1]][..., t[2]:t[2] + 1]
    if op == "c":
        return t[1] / 4.0
    if op in ("add", "sub", "mul"):
        a = _ev_torch(t[1], env, torch)
        b = _ev_torch(t[2], env, torch)
        return a + b if op == "add" else (a - b if op == "sub" else a * b)
    a = _ev_torch(t[1], env, torch)
    if op == "pow":
        return a ** t[2]
    if not isinstance(a, torch.Tensor):
        return getattr(math, op)(a)
    return getattr(torch, op)(a)


def eval_numpy(tree, pts):
    """Direct float64 evaluation.  pts: (name, i) -> array (N,)."""
    op = tree[0]
    if op == "v":
        return pts[(tree[1], tree[2])]
    if op == "c":
        return np.float64(tree[1] / 4.0)
    if op in ("add", "sub", "mul"):
        a = eval_numpy(tree[1], pts)
        b = eval_numpy(tree[2], pts)
        return a + b if op == "add" else (a - b if op == "sub" else a * b)
    a = eval_numpy(tree[1], pts)
    if op == "pow":
        return a ** tree[2]
    return getattr(np, op)(a)


def to_sympy(tree, syms):
    import sympy as sp
    op = tree[0]
    if op == "v":
        return syms[(tree[1], tree[2])]
    if op == "c":
        return sp.Rational(tree[1], 4)
    if op in ("add", "sub", "mul"):
        a = to_sympy(tree[1], syms)
        b = to_sympy(tree[2], syms)
        return a + b if op == "add" else (a - b if op == "sub" else a * b)
    a = to_sympy(tree[1], syms)
    if op == "pow":
        return a ** int(tree[2])
    return getattr(sp, op)(a)


# ---------------------------------------------------------------------------------------------
# reference: sympy derivatives, one lambdify per case, finite-difference validation, majorants
# ---------------------------------------------------------------------------------------------

class Reference:
    FD_H = 1e-3
    FD_RTOL = 1e-5

    def __init__(self, varspec):
        import sympy as sp
        self.sp = sp
        self.keys = [(n, i) for n, d in varspec for i in range(d)]
        self.syms = {k: sp.Symbol("%s_%d" % k, real=True) for k in self.keys}
        self.exprs = []
        self.index = {}
        self.trees = {}          # expression index -> generating tree (base functions only)
        self.rel = []            # (index of E, key s, index of dE/ds)
        self._dcache = {}
        self.fn = None
        self.stats = {"fd_relations": 0, "fd_rows": 0, "exprs": 0, "fd_max_ratio": 0.0}

    def _add(self, e):
        if e in self.index:
            return self.index[e]
        self.exprs.append(e)
        self.index[e] = len(self.exprs) - 1
        return len(self.exprs) - 1

    def add_base(self, tree):
        i = self._add(to_sympy(tree, self.syms))
        self.trees.setdefault(i, tree)
        return i

    def d(self, idx, key):
        """index of d exprs[idx] / d key  (registered for finite-difference validation)."""
        ck = (idx, key)
        if ck not in self._dcache:
            de = self.sp.diff(self.exprs[idx], self.syms[key])
            j = self._add(de)
            self._dcache[ck] = j
            self.rel.append((idx, key, j))
        return self._dcache[ck]

    def compile(self):
        self.fn = self.sp.lambdify([self.syms[k] for k in self.keys], list(self.exprs), "numpy")
        self.stats["exprs"] = len(self.exprs)

    def evaluate(self, pts):
        """(n_exprs, N) float64: lambdified expressions; generated base functions are replaced by their
        direct numpy evaluation only in `_mixed` (used for the finite differences)."""
        n = len(next(iter(pts.values())))
        out = self.fn(*[pts[k] for k in self.keys])
        return np.stack([np.broadcast_to(np.asarray(o, dtype=np.float64), (n,)) for o in out])

    def _mixed(self, pts):
        vals = self.evaluate(pts)
        vals = np.array(vals)
        for i, tree in self.trees.items():
            vals[i] = eval_numpy(tree, pts)
        return vals

    def validate(self, pts):
        """Returns (values, majorants) at pts after validating the whole reference; raises Inconclusive."""
        vals = self.evaluate(pts)
        n = vals.shape[1]
        if not np.all(np.isfinite(vals)):
            raise Inconclusive("reference value not finite")
        # (1) lambdified base functions == direct evaluation of the tree
        for i, tree in self.trees.items():
            direct = np.broadcast_to(eval_numpy(tree, pts), (n,))
            if not np.allclose(vals[i], direct, rtol=1e-11, atol=1e-11):
                raise Inconclusive("sympy twin of the generated function differs from its direct evaluation")
        # (2) second, structurally different evaluation of every expression + magnitude of its terms
        env = {self.syms[k]: pts[k] for k in self.keys}
        memo = {}
        majs = np.empty_like(vals)
        for i, e in enumerate(self.exprs):
            v, m = _val_maj(e, env, memo, self.sp)
            v = np.broadcast_to(v, (n,))
            majs[i] = np.broadcast_to(m, (n,))
            if not np.all(np.abs(v - vals[i]) <= 1e-10 * (majs[i] + 1e-3)):
                raise Inconclusive("lambdified expression differs from the tree walk of the same expression")
        # (3) every differentiation step against 4th-order central differences
        h = self.FD_H
        by_key = {}
        for (i, key, j) in self.rel:
            by_key.setdefault(key, []).append((i, j))
        for key, pairs in by_key.items():
            sh = {}
            for k in (-2, -1, 1, 2):
                p2 = dict(pts)
                p2[key] = pts[key] + k * h
                sh[k] = self._mixed(p2)
            fd = (sh[-2] - 8.0 * sh[-1] + 8.0 * sh[1] - sh[2]) / (12.0 * h)
            for (i, j) in pairs:
                tol = self.FD_RTOL * (1.0 + majs[j] + np.abs(fd[i]))
                err = np.abs(fd[i] - vals[j])
                self.stats["fd_relations"] += 1
                self.stats["fd_rows"] += n
                self.stats["fd_max_ratio"] = max(self.stats["fd_max_ratio"], float(np.max(err / tol)))
                if not np.all(err <= tol):
                    r = int(np.argmax(err / tol))
                    raise Inconclusive("sympy derivative w.r.t. %s_%d disagrees with the finite difference: "
                                       "%.12g vs %.12g" % (key[0], key[1], vals[j][r], fd[i][r]))
        return vals, majs


def _val_maj(e, env, memo, sp):
    """(value, magnitude of terms) of a sympy expression by a numpy tree walk."""
    if e in memo:
        return memo[e]
    if e.is_Number or e.is_NumberSymbol:          # rationals, floats, E (= exp(1))
        v = np.float64(float(e))
        r = (v, abs(v))
    elif e.is_Symbol:
        v = env[e]
        r = (v, np.abs(v))
    elif e.is_Add:
        v, m = 0.0, 0.0
        for a in e.args:
            va, ma = _val_maj(a, env, memo, sp)
            v = v + va
            m = m + ma
        r = (v, m)
    elif e.is_Mul:
        v, m = 1.0, 1.0
        for a in e.args:
            va, ma = _val_maj(a, env, memo, sp)
            v = v * va
            m = m * ma
        r = (v, m)
    elif e.is_Pow:
        b, ex = e.args
        if not (ex.is_Integer and int(ex) >= 1):
            raise Inconclusive("unexpected power %s in the reference expression" % ex)
        vb, mb = _val_maj(b, env, memo, sp)
        r = (vb ** int(ex), mb ** int(ex))
    elif e.func in (sp.sin, sp.cos, sp.tanh, sp.exp):
        va, ma = _val_maj(e.args[0], env, memo, sp)
        if e.func is sp.sin:
            v = np.sin(va); r = (v, np.abs(v) + np.abs(np.cos(va)) * ma)
        elif e.func is sp.cos:
            v = np.cos(va); r = (v, np.abs(v) + np.abs(np.sin(va)) * ma)
        elif e.func is sp.tanh:
            v = np.tanh(va); r = (v, np.abs(v) + (1.0 - v * v) * ma)
        else:
            v = np.exp(va); r = (v, v * (1.0 + ma))
    else:
        raise Inconclusive("unexpected node %s in the reference expression" % e.func)
    memo[e] = r
    return r
