"""tpmon -- runtime monitors for boschresearch/torchphysics (see /verif/DESIGN.md).

The library under observation is imported from TPMON_REPO (default /repo/src), which is put in
front of sys.path so that a scratch copy of the repository can be monitored without touching /repo.
"""
import os
import sys

VERIF_ROOT = os.path.dirname(os.path.dirname(os.path.abspath(__file__)))
REPO_SRC = os.environ.get("TPMON_REPO", "/repo/src")
DEPS = os.path.join(VERIF_ROOT, ".deps")


def setup_paths():
    for p in (DEPS, REPO_SRC):
        if p in sys.path:
            sys.path.remove(p)
    sys.path.append(DEPS)  # after the interpreter's own packages: never shadow them
    sys.path.insert(0, REPO_SRC)


setup_paths()
