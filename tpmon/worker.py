import sys
from .core import worker_main

if __name__ == "__main__":
    worker_main(sys.argv[1:])
