"""Real-run side of checks C07 / C19: trains a world through the library's Solver with a pytorch-lightning Trainer
and records, from a harness callback placed AFTER the library's callbacks and from forward-pre-hooks on the
condition objects, what the monitors need:

  * event log: batch start / end, validation start / end, every condition call with the (device, iteration) it got,
  * learnable state (harness' own reachability walk) and optimizer state at every batch start / end,
  * snapshots before / after every validation run,
  * which learnable tensors the optimizer holds,
  * (C19) copies of every checkpoint / weight file as it appears on disk, SimulatedCrash at a chosen step.

Importing this module imports pytorch_lightning (heavy): do it from `warmup()` of the check module.
"""
import logging
import os
import shutil
import warnings

import torch
import pytorch_lightning as pl

from . import c07_world as W

warnings.filterwarnings("ignore")
for _n in ("pytorch_lightning", "lightning", "lightning.pytorch", "lightning_fabric", "lightning.fabric",
           "pytorch_lightning.utilities.rank_zero", "lightning.pytorch.utilities.rank_zero",
           "pytorch_lightning.accelerators.cuda"):
    logging.getLogger(_n).setLevel(logging.ERROR)


class SimulatedCrash(Exception):
    """raised by the harness callback to simulate an interruption of the training process"""


def _sig(path):
    try:
        st = os.stat(path)
        return (st.st_mtime_ns, st.st_size)
    except OSError:
        return None


class Recorder(pl.Callback):
    def __init__(self, params, crash_at=None, watch=None, record_opt=True, probe=None, reseed=None):
        self.params = params
        self.reseed = reseed              # reseed the global torch RNG with reseed + <step ordinal> at every batch start
        self.n_batches = 0
        self.probe = probe                # optional module whose state_dict() is cloned at every boundary
        self.probe_states = []            # [(hook, global_step, {key: tensor})]
        self.crash_at = crash_at
        self.watch = watch or {}          # {label: path} files to copy whenever they change
        self.record_opt = record_opt
        self.events = []
        self.start_states = {}            # global_step at batch start -> state
        self.end_states = {}              # global_step after the batch -> state
        self.end_opt = {}                 # global_step after the batch -> (opt state, lrs)
        self.val_snaps = []               # [(before, after, before_opt, after_opt, global_step)]
        self.opt_param_ids = None
        self.n_optimizers = None
        self.copies = []                  # [(label, copy path, hook, global_step, state at that moment)]
        self._sigs = {k: _sig(v) for k, v in self.watch.items()}
        self._val_before = None
        self.in_val = False
        self.crashed = False
        self.train_start_state = None
        self.train_end_state = None

    # -- helpers
    def _state(self):
        return W.clone_state(self.params)

    def _opt(self, trainer):
        if not self.record_opt or not trainer.optimizers:
            return None
        opt = trainer.optimizers[0]
        if isinstance(opt, torch.optim.LBFGS):
            return (W.lbfgs_state(opt), [float(g["lr"]) for g in opt.param_groups])
        return W.canon_opt_state(opt, self.params)

    def _probe(self, hook, trainer):
        if self.probe is not None:
            self.probe_states.append((hook, int(trainer.global_step),
                                      {k: v.detach().clone() for k, v in self.probe.state_dict().items()}))

    def _check_files(self, hook, trainer):
        for label, path in self.watch.items():
            s = _sig(path)
            if s is not None and s != self._sigs.get(label):
                self._sigs[label] = s
                cp = "%s.%s.%d.%d.copy" % (path, hook, trainer.global_step, len(self.copies))
                shutil.copyfile(path, cp)
                self.copies.append((label, cp, hook, int(trainer.global_step), self._state()))

    # -- hooks
    def on_train_start(self, trainer, m):
        self.events.append(("train_start", int(trainer.global_step)))
        self.n_optimizers = len(trainer.optimizers)
        ids = set()
        for opt in trainer.optimizers:
            for g in opt.param_groups:
                for p in g["params"]:
                    ids.add(id(p))
        self.opt_param_ids = ids
        self.train_start_state = self._state()
        self._probe("train_start", trainer)
        self._check_files("train_start", trainer)

    def on_train_batch_start(self, trainer, m, batch, batch_idx):
        self.events.append(("bs", int(batch_idx), int(trainer.global_step)))
        if self.reseed is not None:
            torch.manual_seed(int(self.reseed) + self.n_batches)
        self.n_batches += 1
        self.start_states[int(trainer.global_step)] = self._state()
        self._probe("batch_start", trainer)
        self._check_files("batch_start", trainer)

    def on_train_batch_end(self, trainer, m, outputs, batch, batch_idx):
        gs = int(trainer.global_step)
        self.events.append(("be", int(batch_idx), gs))
        self.end_states[gs] = self._state()
        o = self._opt(trainer)
        if o is not None:
            self.end_opt[gs] = o
        self._probe("batch_end", trainer)
        self._check_files("batch_end", trainer)
        if self.crash_at is not None and gs == self.crash_at:
            self.crashed = True
            raise SimulatedCrash("simulated crash after step %d" % gs)

    def on_validation_start(self, trainer, m):
        self.in_val = True
        self.events.append(("vs", int(trainer.global_step), bool(trainer.sanity_checking)))
        self._val_before = (self._state(), self._opt(trainer) if trainer.optimizers else None)

    def on_validation_end(self, trainer, m):
        self.in_val = False
        self.events.append(("ve", int(trainer.global_step), bool(trainer.sanity_checking)))
        after = (self._state(), self._opt(trainer) if trainer.optimizers else None)
        if self._val_before is not None:
            self.val_snaps.append((self._val_before[0], after[0], self._val_before[1], after[1],
                                   int(trainer.global_step)))
        self._val_before = None

    def on_train_end(self, trainer, m):
        self.events.append(("train_end", int(trainer.global_step)))
        self.train_end_state = self._state()
        self._probe("train_end", trainer)
        self._check_files("train_end", trainer)


def hook_conditions(world, events):
    """forward-pre-hooks (torch's public hook API) on every condition object: log the arguments of each call"""
    handles = []

    def mk(role, idx):
        def hook(mod, args, kwargs):
            it = kwargs.get("iteration", args[1] if len(args) > 1 else "<missing>")
            dev = kwargs.get("device", args[0] if len(args) > 0 else "<missing>")
            events.append(("cond", role, idx, it if (it is None or isinstance(it, (int, str))) else repr(it),
                           str(dev), bool(torch.is_grad_enabled())))
        return hook

    for i, c in enumerate(world.train):
        handles.append(c.register_forward_pre_hook(mk("train", i), with_kwargs=True))
    for i, c in enumerate(world.val):
        handles.append(c.register_forward_pre_hook(mk("val", i), with_kwargs=True))
    return handles


def optimizer_setting(spec):
    """OptimizerSetting of the library for spec["opt"].  With opt["default_args"] the setting is created WITHOUT the
    optimizer_args argument (library default); a new setting object (and a new args dict) on every call."""
    import torchphysics as tp
    o = spec["opt"]
    kw = {}
    if o.get("sched"):
        s = o["sched"]
        kw = dict(scheduler_class=W.sched_class(s["cls"]), scheduler_args=dict(s["args"]),
                  scheduler_frequency=int(s.get("freq", 1)))
    if o.get("default_args"):
        assert not o.get("args")
        return tp.OptimizerSetting(W.opt_class(o["cls"]), lr=o["lr"], **kw)
    return tp.OptimizerSetting(W.opt_class(o["cls"]), lr=o["lr"], optimizer_args=W.opt_args(o), **kw)


def trainer_kwargs(spec, steps):
    kw = dict(max_steps=steps, accelerator="cpu", devices=1, logger=False, enable_checkpointing=False,
              enable_progress_bar=False, enable_model_summary=False)
    t = spec.get("trainer", {})
    if spec.get("vals"):
        kw.update(val_check_interval=int(t.get("val_interval", 1)), check_val_every_n_epoch=None,
                  num_sanity_val_steps=int(t.get("sanity", 0)))
        if t.get("inference_mode") is not None:
            kw["inference_mode"] = bool(t["inference_mode"])
    else:
        kw.update(limit_val_batches=0, num_sanity_val_steps=0)
    if t.get("limit_train_batches"):
        kw["limit_train_batches"] = int(t["limit_train_batches"])
    if t.get("precision"):
        kw["precision"] = t["precision"]          # e.g. "64-true": the modules are converted when the fit starts
    return kw


class RealRun:
    pass


def run_real(spec, steps, lib_callbacks=None, ckpt_path=None, crash_at=None, watch=None, world=None,
             record_opt=True, probe=None, setting=None, reseed=None):
    """Build a fresh world, train it `steps` steps through Solver + Trainer.  `lib_callbacks(world)` returns the
    library callbacks to install (before the harness recorder).  Exceptions other than SimulatedCrash propagate."""
    import torchphysics as tp
    r = RealRun()
    w = world if world is not None else W.build(spec)
    r.world = w
    reached = W.reach_learnables(w.train)
    r.names = [n for n, _ in reached]
    r.params = [p for _, p in reached]
    r.theta0 = W.clone_state(r.params)
    # learnable tensors reachable from validation conditions only: nothing may ever change them
    tids = {id(p) for p in r.params}
    vo = [(n, p) for n, p in W.reach_learnables(w.val) if id(p) not in tids]
    r.val_only_names = [n for n, _ in vo]
    r.val_only_params = [p for _, p in vo]
    r.val_only_theta0 = W.clone_state(r.val_only_params)
    r.train_conds = list(w.train)
    r.log_base = [len(getattr(c, "log_calls", ())) for c in w.train]
    rec = Recorder(r.params, crash_at=crash_at, watch=watch, record_opt=record_opt,
                   reseed=reseed if reseed is not None else W.reseed_base(spec, 0))
    r.rec = rec
    r.trainer = None
    handles = hook_conditions(w, rec.events)
    try:
        if setting == "solver_default":
            solver = tp.solver.Solver(w.train, w.val)          # the Solver's own default OptimizerSetting
        else:
            r.setting = setting if setting is not None else optimizer_setting(spec)
            solver = tp.solver.Solver(w.train, w.val, optimizer_setting=r.setting)
        r.solver = solver
        for c_, wt in zip(w.train, spec.get("late_weights") or []):
            c_.weight = wt             # condition.weight is a public attribute: assigned after the Solver was constructed
        if probe is not None:
            rec.probe = probe(w, solver)
            r.probe_before = {k: v.detach().clone() for k, v in rec.probe.state_dict().items()}
        cbs = list(lib_callbacks(w, solver) if lib_callbacks else [])
        r.lib_callbacks = cbs
        trainer = pl.Trainer(callbacks=cbs + [rec], **trainer_kwargs(spec, steps))
        r.trainer = trainer
        try:
            trainer.fit(solver, ckpt_path=ckpt_path)
        except SimulatedCrash:
            pass
    finally:
        for h in handles:
            h.remove()
    r.global_step = int(trainer.global_step)
    r.cond_logs = [list(getattr(c, "log_calls", ())[b:]) for c, b in zip(r.train_conds, r.log_base)]
    r.final = W.clone_state(r.params)
    r.val_only_final = W.clone_state(r.val_only_params)
    if probe is not None:
        r.probe_after = {k: v.detach().clone() for k, v in rec.probe.state_dict().items()}
    r.opt = trainer.optimizers[0] if trainer.optimizers else None
    if r.opt is not None:
        if isinstance(r.opt, torch.optim.LBFGS):
            r.opt_state, r.lrs = W.lbfgs_state(r.opt), [float(g["lr"]) for g in r.opt.param_groups]
        else:
            r.opt_state, r.lrs = W.canon_opt_state(r.opt, r.params)
    else:
        r.opt_state, r.lrs = None, None
    r.sched_last_epoch = None
    try:
        cfgs = trainer.lr_scheduler_configs
        if cfgs:
            r.sched_last_epoch = cfgs[0].scheduler.last_epoch
    except Exception:
        pass
    return r


def run_real_staged(spec):
    """Several training stages in ONE world and ONE process: each stage has its own Solver and Trainer; conditions are
    reused or freshly built (bystanders first, never handed to a Solver); the OptimizerSetting is a new object per stage
    (created without optimizer_args where the stage says so), the Solver's default, or the previous stage's object
    with `.lr` changed.  Nothing of the library is reset between stages.  -> (list of RealRun, exception or None)"""
    w = W.build_base(spec)
    out, train, prev_setting = [], None, None
    for si, st in enumerate(spec["stages"]):
        if st.get("reuse") and train is not None:
            pass
        else:
            W.build_conditions(w, st.get("bystanders", []), "s%db" % si)
            train = W.build_conditions(w, st["conds"], "s%dc" % si)
        w.train, w.val = train, []
        pseudo = {"opt": st["opt"], "trainer": st.get("trainer", {}), "vals": []}
        if st["opt"].get("default_setting"):
            setting = "solver_default"
        elif st.get("same_setting") and prev_setting is not None:
            setting = prev_setting
            setting.lr = st["opt"]["lr"]          # the user changes the learning rate of his setting object
        else:
            setting = optimizer_setting(pseudo)
        try:
            r = run_real(pseudo, st["steps"], world=w, setting=setting, reseed=W.reseed_base(spec, si))
        except Exception as e:
            return out, e
        prev_setting = setting if setting != "solver_default" else None
        wl = W.world_learnables(w)
        r.world_names = [n for n, _ in wl]
        r.world_state = W.clone_state([p for _, p in wl])
        out.append(r)
    return out, None


def maxdiff(a, b):
    """max abs difference of two lists of tensors (inf for shape mismatch / non-finite mismatch)"""
    m = 0.0
    for x, y in zip(a, b):
        if x.shape != y.shape:
            return float("inf")
        if x.numel() == 0:
            continue
        d = (x.double() - y.double()).abs()
        d = torch.where(torch.isnan(d), torch.full_like(d, float("inf")), d)
        m = max(m, float(d.max()))
    if len(a) != len(b):
        return float("inf")
    return m
