"""C04/C14 helpers, part 1: JSON specs -> live user objects (torch) and their float64 numpy twins.

Everything a *user* of torchphysics would write for a condition is generated here from plain JSON:

  * named functions with an explicit signature (residuals, data functions, filters, domain bounds),
  * closed-form `Model`s  u_j(z) = c0 + sum_i a_i sin(w_i z_i) + b_i z_i^2  +  d z_p z_q  (learnable coefficients)
    whose value, first and second derivatives have an analytic numpy twin; FCN models whose twin is a direct call,
  * a small expression language for residuals (factors: output / coordinate / data / parameter / default components,
    first and second derivatives of outputs w.r.t. named coordinates, sin, integral mean) with a torch evaluator
    (used inside the instrumented residual) and a numpy/float64 evaluator (used by the oracle),
  * data functions (affine + sin + bilinear in a subset of the variables) with a numpy twin,
  * error / reduce functions with numpy twins.

The two evaluators share nothing but the spec.
"""
import numpy as np
import torch


# ---------------------------------------------------------------------------------------------
# functions with a real signature
# ---------------------------------------------------------------------------------------------

def make_fn(name, argnames, impl, defaults=None):
    """A genuine python function `name(arg0, arg1, ..., d=default)` that forwards its arguments as a dict
    to impl.  Arguments with defaults must be at the end of argnames."""
    defaults = defaults or {}
    ns = {"_impl": impl}
    params = []
    seen_default = False
    for a in argnames:
        if a in defaults:
            ns["_d_" + a] = defaults[a]
            params.append("%s=_d_%s" % (a, a))
            seen_default = True
        else:
            assert not seen_default, "non-default argument after default argument"
            params.append(a)
    src = "def %s(%s):\n    return _impl({%s})\n" % (
        name, ", ".join(params), ", ".join("%r: %s" % (a, a) for a in argnames))
    exec(src, ns)
    return ns[name]


def argname(base, side):
    return base + ("_" + side if side else "")


# ---------------------------------------------------------------------------------------------
# spaces / domains
# ---------------------------------------------------------------------------------------------

def space_of(vars_, order=None):
    """vars_: list of {"name","dim"}; order: list of names"""
    from torchphysics.problem.spaces import Space
    dims = {v["name"]: v["dim"] for v in vars_}
    order = order or [v["name"] for v in vars_]
    return Space({n: dims[n] for n in order})


def build_domain(v, dep=None):
    """v: {"name","dim","dom","lo","hi"}.  dep: {"on": other variable, "dim": its dim, "c": slope} makes the upper
    bound of an interval depend on the first component of another variable."""
    import torchphysics as tp
    from torchphysics.problem.spaces import Space
    sp = Space({v["name"]: v["dim"]})
    lo, hi = float(v["lo"]), float(v["hi"])
    if v["dim"] == 1:
        if dep:
            c = float(dep["c"])
            up = make_fn("upper", [dep["on"]], lambda kw: hi + c * torch.abs(kw[dep["on"]][:, :1]))
            return tp.domains.Interval(sp, lo, up)
        return tp.domains.Interval(sp, lo, hi)
    if v["dim"] == 2:
        if v.get("dom") == "circle":
            return tp.domains.Circle(sp, [(lo + hi) / 2, (lo + hi) / 2], (hi - lo) / 2)
        return tp.domains.Parallelogram(sp, [lo, lo], [hi, lo], [lo, hi])
    return tp.domains.Sphere(sp, [(lo + hi) / 2] * 3, (hi - lo) / 2)


# ---------------------------------------------------------------------------------------------
# closed-form models
# ---------------------------------------------------------------------------------------------

def zlist(vars_, in_order):
    dims = {v["name"]: v["dim"] for v in vars_}
    return [(n, i) for n in in_order for i in range(dims[n])]


def _closed_model_class():
    from torchphysics.models.model import Model
    from torchphysics.problem.spaces import Points

    class ClosedFormModel(Model):
        """u_j(z) = c0_j + sum_i A_ji sin(W_ji z_i) + B_ji z_i^2 + D_j z_p(j) z_q(j); z = inputs in input-space order"""

        def __init__(self, input_space, output_space, coef):
            super().__init__(input_space, output_space)
            f = lambda k: torch.nn.Parameter(torch.tensor(np.asarray(coef[k], dtype=np.float64)).float())
            self.c0 = f("c0")
            self.A = f("A")
            self.W = f("W")
            self.B = f("B")
            self.D = f("D")
            self.p = [int(i) for i in coef["p"]]
            self.q = [int(i) for i in coef["q"]]

        def forward(self, points):
            points = self._fix_points_order(points)
            z = points.as_tensor
            zz = z.unsqueeze(-2)                                   # (..., 1, nz)
            out = self.c0 + (self.A * torch.sin(self.W * zz)).sum(-1) + (self.B * zz * zz).sum(-1)
            cross = torch.stack([z[..., p] * z[..., q] for p, q in zip(self.p, self.q)], dim=-1)
            out = out + self.D * cross
            return Points(out, self.output_space)

    return ClosedFormModel


_CLS = {}


def closed_model_class():
    if "c" not in _CLS:
        _CLS["c"] = _closed_model_class()
    return _CLS["c"]


class ClosedTwin:
    """float64 twin of ClosedFormModel; coordinates are supplied by NAME (dict var -> array (..., dim))."""

    def __init__(self, mspec, vars_):
        self.z = zlist(vars_, mspec["in_order"])
        c = mspec["coef"]
        g = lambda k: np.asarray(c[k], dtype=np.float32).astype(np.float64)   # the model stores float32
        self.c0, self.A, self.W, self.B, self.D = g("c0"), g("A"), g("W"), g("B"), g("D")
        self.p, self.q = list(c["p"]), list(c["q"])
        self.outs = []
        for o in mspec["outs"]:
            for j in range(o["dim"]):
                self.outs.append((o["name"], j))

    def _z(self, coords):
        cols = [np.asarray(coords[n], dtype=np.float64)[..., i] for n, i in self.z]
        return np.broadcast_arrays(*cols)

    def _row(self, name, j):
        return self.outs.index((name, j))

    def out(self, coords, name, j):
        z = self._z(coords)
        r = self._row(name, j)
        v = self.c0[r] + sum(self.A[r, i] * np.sin(self.W[r, i] * z[i]) + self.B[r, i] * z[i] ** 2
                             for i in range(len(z)))
        v = v + self.D[r] * z[self.p[r]] * z[self.q[r]]
        return v[..., None]

    def mag(self, coords, name, j):
        z = self._z(coords)
        r = self._row(name, j)
        v = abs(self.c0[r]) + sum(abs(self.A[r, i]) + abs(self.B[r, i]) * z[i] ** 2 for i in range(len(z)))
        v = v + abs(self.D[r] * z[self.p[r]] * z[self.q[r]])
        return v[..., None]

    def d1(self, coords, name, j, var, i):
        z = self._z(coords)
        r = self._row(name, j)
        k = self.z.index((var, i))
        v = self.A[r, k] * self.W[r, k] * np.cos(self.W[r, k] * z[k]) + 2 * self.B[r, k] * z[k]
        if self.p[r] == k:
            v = v + self.D[r] * z[self.q[r]]
        if self.q[r] == k:
            v = v + self.D[r] * z[self.p[r]]
        return v[..., None]

    def d2(self, coords, name, j, var, i):
        z = self._z(coords)
        r = self._row(name, j)
        k = self.z.index((var, i))
        v = -self.A[r, k] * self.W[r, k] ** 2 * np.sin(self.W[r, k] * z[k]) + 2 * self.B[r, k] + 0 * z[k]
        if self.p[r] == k and self.q[r] == k:
            v = v + 2 * self.D[r]
        return v[..., None]


class DirectTwin:
    """Twin of a black-box module: a direct call of the module on the recorded rows (float32 torch), derivatives by
    autograd in the harness.  Independent of the library's routing, not of torch."""

    def __init__(self, module, mspec, vars_, call=None):
        self.module = module
        self.vars = {v["name"]: v["dim"] for v in vars_}
        self.in_order = list(mspec["in_order"])
        self.outs = {}
        c = 0
        for o in mspec["outs"]:
            self.outs[o["name"]] = (c, o["dim"])
            c += o["dim"]
        self._cache = {}
        self._call = call

    def _eval(self, coords):
        key = id(coords)
        if key in self._cache:
            return self._cache[key]
        from torchphysics.problem.spaces import Points, Space
        ts = [torch.as_tensor(np.asarray(coords[n])).float() for n in self.in_order]
        ts = list(torch.broadcast_tensors(*[t[..., :1] * 0 for t in ts]))
        shape = ts[0].shape[:-1]
        leaves = {}
        for n in self.in_order:
            t = torch.as_tensor(np.asarray(coords[n])).float()
            t = t.expand(*shape, t.shape[-1]).clone().requires_grad_(True)
            leaves[n] = t
        pts = Points(torch.cat([leaves[n] for n in self.in_order], dim=-1),
                     Space({n: self.vars[n] for n in self.in_order}))
        y = self._call(pts) if self._call else self.module(pts)
        y = y.as_tensor
        self._cache[key] = (leaves, y, coords)
        return self._cache[key]

    def out(self, coords, name, j):
        _, y, _ = self._eval(coords)
        c, _d = self.outs[name]
        return y[..., c + j:c + j + 1].detach().double().numpy()

    def mag(self, coords, name, j):
        return np.abs(self.out(coords, name, j))

    def _g1(self, coords, name, j, var):
        leaves, y, _ = self._eval(coords)
        c, _d = self.outs[name]
        return torch.autograd.grad(y[..., c + j].sum(), leaves[var], create_graph=True)[0], leaves

    def d1(self, coords, name, j, var, i):
        g, _ = self._g1(coords, name, j, var)
        return g[..., i:i + 1].detach().double().numpy()

    def d2(self, coords, name, j, var, i):
        g, leaves = self._g1(coords, name, j, var)
        g2 = torch.autograd.grad(g[..., i].sum(), leaves[var], create_graph=True, allow_unused=True)[0]
        if g2 is None:
            return np.zeros(tuple(g.shape[:-1]) + (1,))
        return g2[..., i:i + 1].detach().double().numpy()


def build_model(mspec, vars_):
    """-> (module, twin)"""
    in_space = space_of(vars_, mspec["in_order"])
    out_space = space_of(mspec["outs"])
    if mspec["type"] == "closed":
        m = closed_model_class()(in_space, out_space, mspec["coef"])
        return m, ClosedTwin(mspec, vars_)
    import torchphysics as tp
    g = torch.Generator().manual_seed(int(mspec["seed"]))
    m = tp.models.FCN(in_space, out_space, hidden=tuple(mspec["hidden"]))
    with torch.no_grad():
        for p in m.parameters():
            p.copy_(torch.randn(p.shape, generator=g) * 0.6)
    return m, DirectTwin(m, mspec, vars_)


def gen_closed_coef(rng, vars_, in_order, outs):
    nz = sum({v["name"]: v["dim"] for v in vars_}[n] for n in in_order)
    no = sum(o["dim"] for o in outs)
    r = lambda *s: np.round(rng.uniform(0.3, 1.2, size=s) * rng.choice([-1, 1], size=s), 3)
    p = [int(rng.integers(0, nz)) for _ in range(no)]
    q = [int(rng.integers(0, nz)) for _ in range(no)]
    return {"c0": r(no).tolist(), "A": r(no, nz).tolist(), "W": np.abs(r(no, nz) * 1.5).round(3).tolist(),
            "B": (r(no, nz) * 0.5).round(3).tolist(), "D": r(no).tolist(), "p": p, "q": q}


# ---------------------------------------------------------------------------------------------
# data functions:  f_c(args) = c0 + sum_z a_z z + b sin(w z_p) + d z_p z_q     (z over the components of its args)
# ---------------------------------------------------------------------------------------------

def gen_data_fn(rng, name, dim, argvars, defaults=None, wrapped=False):
    """argvars: list of {"name","dim"} (the subset signature); defaults: {var: [values]} declared default arguments
    (those variables are put at the end of the signature); wrapped: the user hands over a UserFunction object"""
    if defaults:
        argvars = [v for v in argvars if v["name"] not in defaults] + [v for v in argvars if v["name"] in defaults]
    z = [(v["name"], i) for v in argvars for i in range(v["dim"])]
    comps = []
    for _ in range(dim):
        comps.append({"c0": round(float(rng.uniform(-1, 1)), 3),
                      "a": np.round(rng.uniform(-1, 1, size=len(z)), 3).tolist(),
                      "b": round(float(rng.uniform(0.3, 1.0)), 3), "w": round(float(rng.uniform(0.5, 2.0)), 3),
                      "d": round(float(rng.uniform(-0.5, 0.5)), 3),
                      "p": int(rng.integers(0, len(z))), "q": int(rng.integers(0, len(z)))})
    out = {"name": name, "dim": dim, "args": [v["name"] for v in argvars],
           "argdims": [v["dim"] for v in argvars], "comps": comps}
    if defaults:
        out["defaults"] = {k: list(v) for k, v in defaults.items()}
    if wrapped:
        out["wrapped"] = True
    return out


def _data_eval(dspec, get, xp):
    z = [get(n)[..., i:i + 1] for n, d in zip(dspec["args"], dspec["argdims"]) for i in range(d)]
    out = []
    for c in dspec["comps"]:
        v = c["c0"] + c["b"] * xp.sin(c["w"] * z[c["p"]]) + c["d"] * z[c["p"]] * z[c["q"]]
        for a, zi in zip(c["a"], z):
            v = v + a * zi
        out.append(v)
    return out


def data_fn_torch(dspec, on_call=None):
    """The user's data function (torch).  on_call(name, kwargs) is the instrumentation hook."""
    if dspec.get("const") is not None:
        return torch.tensor([dspec["const"]], dtype=torch.float32)          # a constant instead of a callable

    def impl(kw):
        if on_call:
            on_call(dspec["name"], kw)
        comps = _data_eval(dspec, lambda n: kw[n], torch)
        comps = torch.broadcast_tensors(*comps)
        return torch.cat(comps, dim=-1)
    dflt = {k: torch.tensor(np.asarray(v, dtype=np.float32)).reshape(1, -1) for k, v in (dspec.get("defaults") or {}).items()}
    fn = make_fn("data_" + dspec["name"], dspec["args"], impl, dflt)
    if dspec.get("wrapped"):
        from torchphysics.utils import UserFunction
        return UserFunction(fn)
    return fn


def data_fn_np(dspec, coords):
    """float64 reference on coordinates given by name -> array (..., dim); returns (..., dim_f)"""
    if dspec.get("const") is not None:
        return np.asarray([dspec["const"]], dtype=np.float32).astype(np.float64)
    dflt = dspec.get("defaults") or {}

    def get(n):
        if n in coords:
            return np.asarray(coords[n], dtype=np.float64)
        if n in dflt:       # the declared default of a variable the sampler does not provide
            return np.asarray(dflt[n], dtype=np.float32).astype(np.float64).reshape(1, -1)
        raise KeyError(n)
    comps = _data_eval(dspec, get, np)
    comps = np.broadcast_arrays(*comps)
    return np.concatenate(comps, axis=-1)


# ---------------------------------------------------------------------------------------------
# residual expressions
#   residual = [component, ...];  component = [term, ...];  term = {"c": coef, "f": [factor, ...]}
#   factor = ["out"|"coord"|"data"|"par"|"dflt"|"fs", base, j, side]
#          | ["d1"|"d2", out_base, j, out_side, var_base, i, var_side]
#          | ["sin", factor] | ["imean", [factor, ...]]
#          | ["ddata", data_base, j, var_base, i] derivative of component j of a data function w.r.t. coordinate i of var
#          | ["dint", out_base, j, var_base, i]   mean over the integral points of d out_j / d var_i, where var is a
#                                                 NON-integrated coordinate: grad(out_integral, var) / n_integral
# ---------------------------------------------------------------------------------------------

def factor_args(fac, acc):
    k = fac[0]
    if k in ("out", "coord", "data", "par", "dflt", "fs"):
        acc.add((k, fac[1], fac[3]))
    elif k in ("d1", "d2"):
        acc.add(("out", fac[1], fac[3]))
        acc.add(("coord", fac[4], fac[6]))
    elif k == "sin":
        factor_args(fac[1], acc)
    elif k == "imean":
        for f in fac[1]:
            factor_args(f, acc)
    elif k == "dint":
        acc.add(("out", fac[1], "integral"))
        acc.add(("coord", fac[3], ""))
    elif k == "ddata":
        acc.add(("data", fac[1], ""))
        acc.add(("coord", fac[3], ""))
    return acc


def residual_args(res):
    acc = set()
    for comp in res:
        for term in comp:
            for f in term["f"]:
                factor_args(f, acc)
    return acc


def _t_factor(fac, kw):
    k = fac[0]
    if k in ("out", "coord", "data", "par", "dflt", "fs"):
        return kw[argname(fac[1], fac[3])][..., fac[2]:fac[2] + 1]
    if k in ("d1", "d2"):
        u = kw[argname(fac[1], fac[3])]
        x = kw[argname(fac[4], fac[6])]
        g = torch.autograd.grad(u[..., fac[2]].sum(), x, create_graph=True)[0]
        if k == "d1":
            return g[..., fac[5]:fac[5] + 1]
        g2 = torch.autograd.grad(g[..., fac[5]].sum(), x, create_graph=True, allow_unused=True)[0]
        if g2 is None:
            return torch.zeros_like(g[..., :1])
        return g2[..., fac[5]:fac[5] + 1]
    if k == "ddata":
        dv = kw[argname(fac[1], "")]
        x = kw[argname(fac[3], "")]
        g = torch.autograd.grad(dv[..., fac[2]].sum(), x, create_graph=True, allow_unused=True)[0] if dv.requires_grad else None
        if g is None:           # the library's own operators return zeros for an unconnected input
            g = torch.zeros_like(x)
        return g[..., fac[4]:fac[4] + 1]
    if k == "dint":
        u = kw[argname(fac[1], "integral")]
        x = kw[argname(fac[3], "")]
        g = torch.autograd.grad(u[..., fac[2]].sum(), x, create_graph=True, allow_unused=True)[0]
        if g is None:           # the library's own operators return zeros for an unconnected input
            g = torch.zeros_like(x)
        return g[..., fac[4]:fac[4] + 1] / u.shape[1]
    if k == "sin":
        return torch.sin(_t_factor(fac[1], kw))
    if k == "imean":
        v = None
        for f in fac[1]:
            t = _t_factor(f, kw)
            v = t if v is None else v * t
        return torch.mean(v, dim=1, keepdim=True)
    raise ValueError(k)


def residual_torch(res, kw):
    comps = []
    for comp in res:
        v = None
        for term in comp:
            t = None
            for f in term["f"]:
                ft = _t_factor(f, kw)
                t = ft if t is None else t * ft
            t = t * term["c"]
            v = t if v is None else v + t
        comps.append(v)
    comps = torch.broadcast_tensors(*comps)
    return torch.cat(comps, dim=-1)


class Resolver:
    """numpy side: supplies the float64 value (and a magnitude bound) of every factor from the RECORDED rows."""

    def __init__(self, coords_by_side, twin, data_by_side, params, defaults, fs=None):
        self.c = coords_by_side          # side -> {var: array}; the point set an argument with this side lives on
        self.twin = twin
        self.data = data_by_side         # (name, side) -> array
        self.params = params             # name -> array (1, dim)
        self.defaults = defaults
        self.fs = fs or {}
        self.dspecs = {}                 # name -> data function spec (for derivatives of data functions)

    def value(self, fac, mag=False):
        k = fac[0]
        if k == "coord":
            v = np.asarray(self.c[fac[3]][fac[1]], dtype=np.float64)[..., fac[2]:fac[2] + 1]
        elif k == "out":
            f = self.twin.mag if mag else self.twin.out
            v = f(self.c[fac[3]], fac[1], fac[2])
        elif k == "data":
            v = self.data[(fac[1], fac[3])][..., fac[2]:fac[2] + 1]
        elif k == "par":
            v = self.params[fac[1]][..., fac[2]:fac[2] + 1]
        elif k == "dflt":
            v = self.defaults[fac[1]][..., fac[2]:fac[2] + 1]
        elif k == "fs":
            v = self.fs[fac[1]][..., fac[2]:fac[2] + 1]
        elif k == "d1":
            v = self.twin.d1(self.c[fac[3]], fac[1], fac[2], fac[4], fac[5])
        elif k == "d2":
            v = self.twin.d2(self.c[fac[3]], fac[1], fac[2], fac[4], fac[5])
        elif k == "sin":
            v = np.ones_like(self.value(fac[1])) if mag else np.sin(self.value(fac[1]))
        elif k == "imean":
            p = None
            for f in fac[1]:
                t = self.value(f, mag)
                p = t if p is None else p * t
            v = np.mean(p, axis=1, keepdims=True)
        elif k == "ddata":
            # central difference of the float64 data function on the recorded rows
            dspec = self.dspecs[fac[1]]
            cs = {kk: np.asarray(a, dtype=np.float64) for kk, a in self.c[""].items()}
            h = 1e-5
            vals = []
            for sgn in (1.0, -1.0):
                c2 = dict(cs)
                a2 = cs[fac[3]].copy()
                a2[..., fac[4]] += sgn * h
                c2[fac[3]] = a2
                vals.append(data_fn_np(dspec, c2)[..., fac[2]:fac[2] + 1])
            v = (vals[0] - vals[1]) / (2 * h)
            if mag:
                v = np.abs(v) + 1.0
        elif k == "dint":
            # pointwise derivative on the fully broadcast (n, n_integral) point set, then the mean over the integral axis
            cs = {kk: np.asarray(a, dtype=np.float64) for kk, a in self.c["integral"].items()}
            lead = np.broadcast_shapes(*[a.shape[:-1] for a in cs.values()])
            full = {kk: np.ascontiguousarray(np.broadcast_to(a, lead + a.shape[-1:])) for kk, a in cs.items()}
            v = np.asarray(self.twin.d1(full, fac[1], fac[2], fac[3], fac[4]))
            v = np.broadcast_to(v, lead + (1,))
            v = np.mean(np.abs(v) if mag else v, axis=1, keepdims=True)
        else:
            raise ValueError(k)
        return np.abs(v) if mag else v


def residual_np(res, R, mag=False):
    comps = []
    for comp in res:
        v = None
        for term in comp:
            t = None
            for f in term["f"]:
                ft = R.value(f, mag)
                t = ft if t is None else t * ft
            t = t * (abs(term["c"]) if mag else term["c"])
            v = t if v is None else v + t
        comps.append(v)
    comps = np.broadcast_arrays(*comps)
    return np.concatenate(comps, axis=-1)


# ---------------------------------------------------------------------------------------------
# error / reduce functions
# ---------------------------------------------------------------------------------------------

ERRORS = ["sq_sum", "abs_sum", "max_abs", "quart_sum"]
REDUCES = ["mean", "sum", "max", "rms", "half_mean_plus"]


def error_torch(kind):
    if kind == "sq_sum":
        return lambda r: torch.sum(torch.square(r), dim=-1)
    if kind == "abs_sum":
        return lambda r: torch.sum(torch.abs(r), dim=-1)
    if kind == "max_abs":
        return lambda r: torch.max(torch.abs(r), dim=-1)[0]
    if kind == "quart_sum":
        return lambda r: torch.sum(r ** 4, dim=-1)
    raise ValueError(kind)


def error_np(kind, r):
    if kind == "sq_sum":
        return np.sum(r ** 2, axis=-1)
    if kind == "abs_sum":
        return np.sum(np.abs(r), axis=-1)
    if kind == "max_abs":
        return np.max(np.abs(r), axis=-1)
    if kind == "quart_sum":
        return np.sum(r ** 4, axis=-1)
    if kind == "identity":
        return r
    raise ValueError(kind)


def reduce_torch(kind):
    if kind == "mean":
        return lambda e: torch.mean(e)
    if kind == "sum":
        return lambda e: torch.sum(e)
    if kind == "max":
        return lambda e: torch.max(e)
    if kind == "rms":
        return lambda e: torch.sqrt(torch.mean(e))
    if kind == "half_mean_plus":
        return lambda e: 0.5 * torch.mean(e) + 1.0
    raise ValueError(kind)


def reduce_np(kind, e, w=None):
    if w is not None:
        e = e * w
    if kind == "mean":
        return float(np.mean(e))
    if kind == "sum":
        return float(np.sum(e))
    if kind == "max":
        return float(np.max(e))
    if kind == "rms":
        return float(np.sqrt(np.mean(e)))
    if kind == "half_mean_plus":
        return float(0.5 * np.mean(e) + 1.0)
    raise ValueError(kind)
