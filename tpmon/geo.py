"""Twin specs of domain expressions: one JSON spec, two independent semantics.

  * `build(spec)`  -> live torchphysics objects through the public constructors/operators (float32, torch)
  * `ref(spec)`    -> float64 numpy reference geometry (membership, level function, measure, bounding box)

The two share nothing but the spec (DESIGN.md 2.2).  Nothing here imports the library except `build`.

Value DSL (parameters of shapes):  a number / list (constant)  or
    {"a": [m], "terms": [{"var": "t", "col": 0, "kind": "lin"|"sin"|"sq", "coef": [m], "w": 1.0, "p": 0.0}, ...]}
    value(row) = a + sum_k coef_k * g_k(env[var][row, col]),  g = identity | sin(w u + p) | u^2
"""
import math
import numpy as np

# ---------------------------------------------------------------------------------------------
# value DSL
# ---------------------------------------------------------------------------------------------


def is_const(V):
    return not isinstance(V, dict)


def val_vars(V):
    """variables the value REQUIRES (terms with a declared default are optional arguments of the user function)"""
    if is_const(V):
        return set()
    return {t["var"] for t in V["terms"] if "default" not in t}


def val_optional(V):
    """{variable: default} for the optional arguments (python defaults of the generated parameter function)"""
    if is_const(V):
        return {}
    return {t["var"]: float(t["default"]) for t in V["terms"] if "default" in t}


def val_np(V, env, N):
    """float64 array (N, m)"""
    if is_const(V):
        a = np.atleast_1d(np.asarray(V, dtype=np.float64)).reshape(1, -1)
        return np.repeat(a, N, axis=0)
    a = np.atleast_1d(np.asarray(V["a"], dtype=np.float64)).reshape(1, -1)
    out = np.repeat(a, N, axis=0)
    for t in V["terms"]:
        u = np.asarray(env[t["var"]] if t["var"] in env else np.full((1, 1), float(np.float32(t["default"]))), dtype=np.float64)
        if u.shape[0] == 1 and N > 1:
            u = np.repeat(u, N, axis=0)
        u = u[:, t.get("col", 0)].reshape(-1, 1)
        coef = np.atleast_1d(np.asarray(t["coef"], dtype=np.float64)).reshape(1, -1)
        k = t.get("kind", "lin")
        if k == "lin":
            g = u
        elif k == "sin":
            g = np.sin(t.get("w", 1.0) * u + t.get("p", 0.0))
        elif k == "sq":
            g = u * u
        else:
            raise ValueError(k)
        out = out + coef * g
    return out


def val_torch(V, scalar=False):
    """constant (list/number) or a python callable with the variables as named arguments"""
    import torch
    if is_const(V):
        if scalar:
            return float(np.asarray(V).reshape(-1)[0])
        return [float(x) for x in np.asarray(V, dtype=float).reshape(-1)]
    names = sorted(val_vars(V))
    opt = val_optional(V)
    a = torch.tensor(np.atleast_1d(np.asarray(V["a"], dtype=np.float32)))
    terms = V["terms"]

    def impl(**kw):
        out = None
        for t in terms:
            u = kw[t["var"]]
            if not isinstance(u, torch.Tensor):          # a python default (plain number)
                u = torch.tensor([[float(u)]])
            u = u[:, t.get("col", 0)].reshape(-1, 1)
            coef = torch.tensor(np.atleast_1d(np.asarray(t["coef"], dtype=np.float32)), device=u.device).reshape(1, -1)
            k = t.get("kind", "lin")
            if k == "lin":
                g = u
            elif k == "sin":
                g = torch.sin(t.get("w", 1.0) * u + t.get("p", 0.0))
            else:
                g = u * u
            term = coef * g
            out = term if out is None else out + term
        return out + a.to(out.device).reshape(1, -1)

    allnames = names + sorted(opt)
    sig = ", ".join(names + ["%s=%r" % (n, opt[n]) for n in sorted(opt)])
    src = "lambda %s: _impl(%s)" % (sig, ", ".join("%s=%s" % (n, n) for n in allnames))
    return eval(src, {"_impl": impl})


# ---------------------------------------------------------------------------------------------
# reference geometry helpers
# ---------------------------------------------------------------------------------------------

def poly_sdf(P, V):
    """signed distance (negative inside, even-odd rule) of points P (N,2) to polygons V (N|1, nv, 2)"""
    N = P.shape[0]
    nv = V.shape[1]
    d2 = np.full(N, np.inf)
    inside = np.zeros(N, dtype=bool)
    px, py = P[:, 0], P[:, 1]
    for i in range(nv):
        a = V[:, i, :]
        b = V[:, (i + 1) % nv, :]
        ab = b - a
        ap = P - a
        den = np.maximum((ab * ab).sum(1), 1e-300)
        t = np.clip((ap * ab).sum(1) / den, 0.0, 1.0)
        q = ap - t[:, None] * ab
        d2 = np.minimum(d2, (q * q).sum(1))
        ya, yb = a[:, 1], b[:, 1]
        cond = (ya > py) != (yb > py)
        with np.errstate(divide="ignore", invalid="ignore"):
            xint = (b[:, 0] - a[:, 0]) * (py - ya) / np.where(yb - ya == 0, 1.0, yb - ya) + a[:, 0]
        inside ^= cond & (px < xint)
    d = np.sqrt(d2)
    return np.where(inside, -d, d)


def _dirs(dim, n=64):
    if dim == 1:
        return np.array([[1.0], [-1.0]])
    if dim == 2:
        ang = np.linspace(0, 2 * np.pi, n, endpoint=False) + 0.1234
        return np.stack([np.cos(ang), np.sin(ang)], 1)
    if dim == 3:
        m = 2 * n
        i = np.arange(m) + 0.5
        z = 1 - 2 * i / m
        r = np.sqrt(1 - z * z)
        th = np.pi * (1 + 5 ** 0.5) * i
        return np.stack([r * np.cos(th), r * np.sin(th), z], 1)
    raise ValueError(dim)


LADDER = (1e-4, 3e-4, 1e-3, 3e-3, 1e-2)

# ---------------------------------------------------------------------------------------------
# reference nodes
# ---------------------------------------------------------------------------------------------


class Node:
    solid = True          # False for lower-dimensional sets (boundaries, points)

    def space(self):      # ordered [(name, dim)]
        raise NotImplementedError

    def dim(self):
        return sum(d for _, d in self.space())

    def free(self):
        raise NotImplementedError

    def phi(self, P, env):
        raise NotImplementedError

    def leaf_phis(self, P, env):
        return [self.phi(P, env)]

    def member(self, P, env, tol, L):
        """(ok, ambiguous) boolean arrays: row lies in the denoted (closed) set up to tol"""
        f = self.phi(P, env)
        return f <= tol, np.zeros(len(P), bool)

    def inside(self, P, env, tol=0.0):
        return self.phi(P, env) <= tol

    def measure(self, env, N=1):
        """(N,) array of exact measures or None when no closed form is known"""
        return None

    def bbox(self, env, N=1):
        """(N, 2*dim) exact/enclosing box per row, or None"""
        return None

    def bbox_exact(self):
        return False

    def vertex_dist(self, P, env):
        """distance to the nearest vertex (corner) of a polygonal leaf; inf for smooth shapes"""
        return np.full(len(P), np.inf)

    def desc(self):
        raise NotImplementedError


def _env_rows(env, N):
    return {k: (np.repeat(v, N, 0) if v.shape[0] == 1 and N > 1 else v) for k, v in env.items()}


class Interval(Node):
    def __init__(self, s):
        self.var, self.lo, self.hi = s["var"], s["lo"], s["hi"]

    def space(self):
        return [(self.var, 1)]

    def free(self):
        return val_vars(self.lo) | val_vars(self.hi)

    def bounds(self, env, N):
        return val_np(self.lo, env, N)[:, 0], val_np(self.hi, env, N)[:, 0]

    def phi(self, P, env):
        lo, hi = self.bounds(env, len(P))
        return np.maximum(lo - P[:, 0], P[:, 0] - hi)

    def measure(self, env, N=1):
        lo, hi = self.bounds(env, N)
        return hi - lo

    def bbox(self, env, N=1):
        lo, hi = self.bounds(env, N)
        return np.stack([lo, hi], 1)

    def bbox_exact(self):
        return True

    def desc(self):
        return "I"


class Ball(Node):
    def __init__(self, s, d):
        self.var, self.c, self.r, self.d = s["var"], s["center"], s["radius"], d

    def space(self):
        return [(self.var, self.d)]

    def free(self):
        return val_vars(self.c) | val_vars(self.r)

    def cr(self, env, N):
        return val_np(self.c, env, N), val_np(self.r, env, N)[:, 0]

    def phi(self, P, env):
        c, r = self.cr(env, len(P))
        return np.linalg.norm(P - c, axis=1) - r

    def measure(self, env, N=1):
        _, r = self.cr(env, N)
        return math.pi * r ** 2 if self.d == 2 else 4.0 / 3.0 * math.pi * r ** 3

    def bmeasure(self, env, N=1):
        _, r = self.cr(env, N)
        return 2 * math.pi * r if self.d == 2 else 4 * math.pi * r ** 2

    def bbox(self, env, N=1):
        c, r = self.cr(env, N)
        out = np.zeros((N, 2 * self.d))
        out[:, 0::2] = c - r[:, None]
        out[:, 1::2] = c + r[:, None]
        return out

    def bbox_exact(self):
        return True

    def normal(self, P, env):
        c, r = self.cr(env, len(P))
        v = P - c
        return v / np.linalg.norm(v, axis=1, keepdims=True)

    def desc(self):
        return "C" if self.d == 2 else "S"


class Polygonal(Node):
    """parallelogram / triangle / polygon: row-wise vertex arrays"""

    def __init__(self, s):
        self.var, self.kind = s["var"], s["prim"]
        self.s = s

    def space(self):
        return [(self.var, 2)]

    def free(self):
        if self.kind == "polygon":
            return set()
        return val_vars(self.s["origin"]) | val_vars(self.s["c1"]) | val_vars(self.s["c2"])

    def verts(self, env, N):
        if self.kind == "polygon":
            return np.asarray(self.s["vertices"], dtype=np.float64)[None]
        o = val_np(self.s["origin"], env, N)
        a = val_np(self.s["c1"], env, N)
        b = val_np(self.s["c2"], env, N)
        if self.kind == "triangle":
            return np.stack([o, a, b], 1)
        return np.stack([o, a, a + b - o, b], 1)

    def vertex_dist(self, P, env):
        d = np.full(len(P), np.inf)
        for V in [self.verts(env, len(P))] + self.rings():
            d = np.minimum(d, np.linalg.norm(P[:, None, :] - V, axis=2).min(1))
        return d

    def rings(self):
        """hole rings of a polygon (constant), each (1, nv, 2)"""
        return [np.asarray(h, dtype=np.float64)[None] for h in self.s.get("holes", [])] if self.kind == "polygon" else []

    def phi(self, P, env):
        f = poly_sdf(P, self.verts(env, len(P)))
        for H in self.rings():
            f = np.maximum(f, -poly_sdf(P, H))
        return f

    @staticmethod
    def _area_len(V):
        x, y = V[:, :, 0], V[:, :, 1]
        return (0.5 * np.abs((x * np.roll(y, -1, 1) - np.roll(x, -1, 1) * y).sum(1)),
                np.linalg.norm(np.roll(V, -1, 1) - V, axis=2).sum(1))

    def measure(self, env, N=1):
        A = self._area_len(self.verts(env, N))[0]
        for H in self.rings():
            A = A - self._area_len(H)[0]
        return np.repeat(A, N) if len(A) == 1 and N > 1 else A

    def bmeasure(self, env, N=1):
        per = self._area_len(self.verts(env, N))[1]
        for H in self.rings():
            per = per + self._area_len(H)[1]
        return np.repeat(per, N) if len(per) == 1 and N > 1 else per

    def bbox(self, env, N=1):
        V = self.verts(env, N)
        if V.shape[0] == 1 and N > 1:
            V = np.repeat(V, N, 0)
        out = np.zeros((N, 4))
        out[:, 0] = V[:, :, 0].min(1)
        out[:, 1] = V[:, :, 0].max(1)
        out[:, 2] = V[:, :, 1].min(1)
        out[:, 3] = V[:, :, 1].max(1)
        return out

    def bbox_exact(self):
        return True

    def desc(self):
        return {"parallelogram": "P", "triangle": "T", "polygon": "G"}[self.kind]


class Polyhedron(Node):
    """convex polyhedron given by vertices and triangular faces (any winding): half-space form"""

    def __init__(self, s):
        self.var = s["var"]
        self.V = np.asarray(s["vertices"], dtype=np.float64)
        self.F = np.asarray(s["faces"], dtype=int)
        c = self.V.mean(0)
        a, b, d = self.V[self.F[:, 0]], self.V[self.F[:, 1]], self.V[self.F[:, 2]]
        n = np.cross(b - a, d - a)
        self.area = 0.5 * np.linalg.norm(n, axis=1)
        n = n / np.linalg.norm(n, axis=1, keepdims=True)
        flip = ((a - c) * n).sum(1) < 0
        n[flip] *= -1
        self.n, self.off = n, (n * a).sum(1)
        self.vol = float(np.abs(np.einsum("ij,ij->i", a - c, np.cross(b - c, d - c))).sum() / 6.0)

    def space(self):
        return [(self.var, 3)]

    def free(self):
        return set()

    def phi(self, P, env):
        return (P @ self.n.T - self.off).max(1)

    def measure(self, env, N=1):
        return np.full(N, self.vol)

    def bmeasure(self, env, N=1):
        return np.full(N, float(self.area.sum()))

    def bbox(self, env, N=1):
        out = np.zeros((N, 6))
        out[:, 0::2] = self.V.min(0)
        out[:, 1::2] = self.V.max(0)
        return out

    def bbox_exact(self):
        return True

    def desc(self):
        return "H"


class PointSet(Node):
    solid = False

    def __init__(self, s):
        self.var, self.pt, self.d = s["var"], s["point"], s["dim"]

    def space(self):
        return [(self.var, self.d)]

    def free(self):
        return val_vars(self.pt)

    def phi(self, P, env):
        return np.linalg.norm(P - val_np(self.pt, env, len(P)), axis=1)

    def measure(self, env, N=1):
        return np.ones(N)

    def bbox(self, env, N=1):
        p = val_np(self.pt, env, N)
        out = np.zeros((N, 2 * self.d))
        out[:, 0::2] = p
        out[:, 1::2] = p
        return out

    def desc(self):
        return "pt"


class Bool(Node):
    def __init__(self, s):
        self.op, self.a, self.b, self.flag = s["op"], ref(s["a"]), ref(s["b"]), bool(s.get("flag", False))

    def space(self):
        return self.a.space()

    def free(self):
        return self.a.free() | self.b.free()

    def phi(self, P, env):
        pa, pb = self.a.phi(P, env), self.b.phi(P, env)
        if self.op == "union":
            return np.minimum(pa, pb)
        if self.op == "isect":
            return np.maximum(pa, pb)
        return np.maximum(pa, -pb)

    def leaf_phis(self, P, env):
        return self.a.leaf_phis(P, env) + self.b.leaf_phis(P, env)

    def vertex_dist(self, P, env):
        return np.minimum(self.a.vertex_dist(P, env), self.b.vertex_dist(P, env))

    def member(self, P, env, tol, L):
        oka, _ = self.a.member(P, env, tol, L)
        pb = self.b.phi(P, env)
        if self.op == "union":
            return oka | (pb <= tol), np.zeros(len(P), bool)
        if self.op == "isect":
            return oka & (pb <= tol), np.zeros(len(P), bool)
        return oka & (pb >= -tol), np.zeros(len(P), bool)

    def measure(self, env, N=1):
        ma, mb = self.a.measure(env, N), self.b.measure(env, N)
        if ma is None or mb is None or not self.flag:
            return None
        if self.op == "union":
            return ma + mb            # declared disjoint
        if self.op == "cut":
            return ma - mb            # declared contained
        return None

    def bbox(self, env, N=1):
        ba, bb = self.a.bbox(env, N), self.b.bbox(env, N)
        if ba is None:
            return None
        if self.op == "union":
            if bb is None:
                return None
            out = ba.copy()
            out[:, 0::2] = np.minimum(ba[:, 0::2], bb[:, 0::2])
            out[:, 1::2] = np.maximum(ba[:, 1::2], bb[:, 1::2])
            return out
        return ba                     # enclosing (not tight) for cut / intersection

    def desc(self):
        return "(%s%s%s)" % (self.a.desc(), {"union": "+", "cut": "-", "isect": "&"}[self.op], self.b.desc())


class Product(Node):
    def __init__(self, s):
        self.a, self.b = ref(s["a"]), ref(s["b"])

    def space(self):
        return self.a.space() + self.b.space()

    @property
    def solid(self):
        return self.a.solid and self.b.solid

    def free(self):
        bvars = {n for n, _ in self.b.space()}
        return (self.a.free() - bvars) | self.b.free()

    def split(self, P, env):
        da = self.a.dim()
        Pa, Pb = P[:, :da], P[:, da:]
        env2 = dict(env)
        off = 0
        for n, d in self.b.space():
            env2[n] = Pb[:, off:off + d]
            off += d
        return Pa, Pb, env2

    def phi(self, P, env):
        Pa, Pb, env2 = self.split(P, env)
        return np.maximum(self.a.phi(Pa, env2), self.b.phi(Pb, env))

    def leaf_phis(self, P, env):
        Pa, Pb, env2 = self.split(P, env)
        return self.a.leaf_phis(Pa, env2) + self.b.leaf_phis(Pb, env)

    def member(self, P, env, tol, L):
        Pa, Pb, env2 = self.split(P, env)
        oka, amba = self.a.member(Pa, env2, tol, L)
        okb, ambb = self.b.member(Pb, env, tol, L)
        return oka & okb, amba | ambb

    def dependent(self):
        return bool(self.a.free() & {n for n, _ in self.b.space()})

    def measure(self, env, N=1):
        if self.dependent():
            return None
        ma, mb = self.a.measure(env, N), self.b.measure(env, N)
        if ma is None or mb is None:
            return None
        return ma * mb

    def bbox(self, env, N=1):
        if self.dependent():
            return None
        ba, bb = self.a.bbox(env, N), self.b.bbox(env, N)
        if ba is None or bb is None:
            return None
        return np.concatenate([ba, bb], 1)

    def bbox_exact(self):
        return (not self.dependent()) and self.a.bbox_exact() and self.b.bbox_exact()

    def desc(self):
        return "(%s*%s)" % (self.a.desc(), self.b.desc())


class Moved(Node):
    """translate / rotate (isometries): pull the query point back"""

    def __init__(self, s):
        self.op, self.d = s["op"], ref(s["d"])
        self.s = s

    def space(self):
        return self.d.space()

    @property
    def solid(self):
        return self.d.solid

    def free(self):
        f = set(self.d.free())
        if self.op == "translate":
            return f | val_vars(self.s["vec"])
        f |= val_vars(self.s.get("around", 0))
        f |= val_vars(self.s["angle"]) if "angle" in self.s else val_vars(self.s["matrix"])
        return f

    def rot(self, env, N):
        if "angle" in self.s:
            a = val_np(self.s["angle"], env, N)[:, 0]
            R = np.zeros((N, 2, 2))
            R[:, 0, 0] = np.cos(a)
            R[:, 0, 1] = -np.sin(a)
            R[:, 1, 0] = np.sin(a)
            R[:, 1, 1] = np.cos(a)
            return R
        dd = self.dim_full()
        return val_np(self.s["matrix"], env, N).reshape(N, dd, dd)

    def dim_full(self):
        return sum(d for _, d in self.space())

    def pull(self, P, env):
        N = len(P)
        if self.op == "translate":
            return P - val_np(self.s["vec"], env, N)
        c = val_np(self.s.get("around", [0.0] * self.dim_full()), env, N)
        R = self.rot(env, N)
        return np.einsum("nji,nj->ni", R, P - c) + c     # R^T (p - c) + c

    def push(self, Q, env):
        N = len(Q)
        if self.op == "translate":
            return Q + val_np(self.s["vec"], env, N)
        c = val_np(self.s.get("around", [0.0] * self.dim_full()), env, N)
        R = self.rot(env, N)
        return np.einsum("nij,nj->ni", R, Q - c) + c

    def phi(self, P, env):
        return self.d.phi(self.pull(P, env), env)

    def leaf_phis(self, P, env):
        return self.d.leaf_phis(self.pull(P, env), env)

    def member(self, P, env, tol, L):
        return self.d.member(self.pull(P, env), env, tol, L)

    def measure(self, env, N=1):
        return self.d.measure(env, N)

    def bbox(self, env, N=1):
        if self.op == "translate":
            bb = self.d.bbox(env, N)
            if bb is None:
                return None
            v = val_np(self.s["vec"], env, N)
            return bb + np.repeat(v, 2, axis=1)
        return None           # rotated boxes: use support points instead

    def bbox_exact(self):
        return self.op == "translate" and self.d.bbox_exact()

    def desc(self):
        return "%s[%s]" % ("Tr" if self.op == "translate" else "Rot", self.d.desc())


class Boundary(Node):
    solid = False

    def __init__(self, s):
        self.d = ref(s["d"])
        self.side = s.get("side")       # 'left' / 'right' for single interval sides

    def space(self):
        return self.d.space()

    def free(self):
        return self.d.free()

    def phi(self, P, env):
        if self.side:
            lo, hi = self.d.bounds(env, len(P))
            return np.abs(P[:, 0] - (lo if self.side == "left" else hi))
        return np.abs(self.d.phi(P, env))

    def leaf_phis(self, P, env):
        return self.d.leaf_phis(P, env)

    def member(self, P, env, tol, L):
        f = self.phi(P, env)
        ok = f <= tol
        if self.side or isinstance(self.d, (Interval, Ball, Polygonal, Polyhedron)):
            return ok, np.zeros(len(P), bool)
        # Boolean / product / moved expression: the zero set of the min/max level function contains
        # interior seams; a row is certainly on the true boundary when only one leaf is near.
        leaves = np.abs(np.stack(self.leaf_phis(P, env), 0))
        near = (leaves <= 50 * tol).sum(0)
        sure = ok & (near <= 1)
        cand = np.where(ok & ~sure)[0]
        amb = np.zeros(len(P), bool)
        if len(cand):
            ts = two_sided(self.d, P[cand], {k: (v[cand] if v.shape[0] == len(P) else v) for k, v in env.items()}, L)
            good = ts
            sure[cand[good]] = True
            # not two-sided although on the zero set: interior seam (violation) unless the contact is
            # near-degenerate (several leaves within tol of each other nearly tangentially) -> ambiguous
            bad = cand[~good]
            if len(bad):
                tang = near_tangent(self.d, P[bad], {k: (v[bad] if v.shape[0] == len(P) else v) for k, v in env.items()}, tol)
                amb[bad[tang]] = True
                # a seam has two leaf boundaries ON the point; when the second one passes at 2..50 tol the point sits on
                # a sliver thinner than the smallest ring of the ladder (e.g. a circle passing 3e-4 outside a triangle
                # vertex): below the resolution of the two-sided test, not judged
                second = np.sort(leaves[:, bad], axis=0)[1] if leaves.shape[0] > 1 else np.zeros(len(bad))
                amb[bad[second > 2 * tol]] = True
                if P.shape[1] >= 3:
                    # 3-D: the 128 directions of the ring test miss thin wedges along the curve where two surfaces cross
                    # (operands sharing a face exactly are generated in 2-D only): not judged
                    amb[bad] = True
        return sure, amb

    def measure(self, env, N=1):
        if self.side:
            return np.ones(N)
        return _bmeasure(self.d, env, N)

    def bbox(self, env, N=1):
        return self.d.bbox(env, N)

    def bbox_exact(self):
        return self.d.bbox_exact()

    def desc(self):
        return "d%s%s" % (self.d.desc(), "" if not self.side else self.side[0])


def _bmeasure(d, env, N):
    if isinstance(d, Interval):
        return 2 * np.ones(N)
    if isinstance(d, (Ball, Polygonal, Polyhedron)):
        return d.bmeasure(env, N)
    if isinstance(d, Moved):
        return _bmeasure(d.d, env, N)
    if isinstance(d, Bool) and d.flag:
        ma, mb = _bmeasure(d.a, env, N), _bmeasure(d.b, env, N)
        if ma is None or mb is None:
            return None
        return ma + mb          # disjoint union / contained cut: both boundaries belong to the result
    return None


def two_sided(node, P, env, L):
    """multi-scale ring test: at some radius of the ladder the ring around the point contains both
    inside and outside points of the solid set `node`"""
    dim = P.shape[1]
    if dim > 3:
        return np.ones(len(P), bool)
    dirs = _dirs(dim)
    res = np.zeros(len(P), bool)
    for r in LADDER:
        ins = np.zeros(len(P), bool)
        out = np.zeros(len(P), bool)
        for d in dirs:
            f = node.phi(P + d * (r * L), env)
            ins |= f < 0
            out |= f > 0
        res |= ins & out
        if res.all():
            break
    return res


def near_tangent(node, P, env, tol):
    """True where two leaf boundaries pass within 10*tol with nearly parallel normals (< 15 deg):
    the seam test is ambiguous there (DESIGN.md 2.2)"""
    h = max(tol, 1e-9) * 5
    N, dim = P.shape
    leaves0 = np.stack(node.leaf_phis(P, env), 0)
    grads = []
    for k in range(dim):
        e = np.zeros(dim)
        e[k] = h
        fp = np.stack(node.leaf_phis(P + e, env), 0)
        fm = np.stack(node.leaf_phis(P - e, env), 0)
        grads.append((fp - fm) / (2 * h))
    G = np.stack(grads, -1)                                   # (leaves, N, dim)
    G = G / np.maximum(np.linalg.norm(G, axis=-1, keepdims=True), 1e-30)
    out = np.zeros(N, bool)
    nl = leaves0.shape[0]
    for i in range(nl):
        for j in range(i + 1, nl):
            close = (np.abs(leaves0[i]) <= 10 * tol) & (np.abs(leaves0[j]) <= 10 * tol)
            cosang = np.abs((G[i] * G[j]).sum(-1))
            out |= close & (cosang > math.cos(math.radians(15)))
    return out


_PRIMS = {"interval": Interval, "parallelogram": Polygonal, "triangle": Polygonal, "polygon": Polygonal,
          "point": PointSet}


def ref(s):
    if "prim" in s:
        p = s["prim"]
        if p == "circle":
            return Ball(s, 2)
        if p == "sphere":
            return Ball(s, 3)
        if p == "polyhedron":
            return Polyhedron(s)
        return _PRIMS[p](s)
    op = s["op"]
    if op in ("union", "cut", "isect"):
        return Bool(s)
    if op == "product":
        return Product(s)
    if op in ("translate", "rotate"):
        return Moved(s)
    if op in ("boundary", "side"):
        return Boundary(s)
    raise ValueError(op)


# ---------------------------------------------------------------------------------------------
# spec utilities
# ---------------------------------------------------------------------------------------------

def spec_desc(s):
    return ref(s).desc()


LENGTH_KEYS = ("center", "origin", "c1", "c2", "lo", "hi", "radius", "point", "vec", "around")


def _scale_val(v, S):
    if isinstance(v, dict):
        out = dict(v, a=[float(x) * S for x in np.atleast_1d(np.asarray(v["a"], float))])
        out["terms"] = [dict(t, coef=[float(x) * S for x in np.atleast_1d(np.asarray(t["coef"], float))]) for t in v["terms"]]
        return out
    a = np.asarray(v, float)
    return (a * S).tolist() if a.ndim else float(a) * S


def scale_spec(s, S):
    """a copy of the spec with every length and position multiplied by S (angles, matrices and flags unchanged)"""
    if not isinstance(s, dict):
        return s
    out = {}
    for k, v in s.items():
        if k in LENGTH_KEYS:
            out[k] = _scale_val(v, S)
        elif k == "vertices":
            out[k] = (np.asarray(v, float) * S).tolist()
        elif k == "holes":
            out[k] = [(np.asarray(h, float) * S).tolist() for h in v]
        elif k in ("a", "b", "d") and isinstance(v, dict):
            out[k] = scale_spec(v, S)
        else:
            out[k] = v
    if s.get("prim") == "polyhedron" and S > 1 and "tol" not in s:
        out["tol"] = 1e-5 * S        # the documented knob of the mesh classes for coordinates far above 1
    return out


def spec_ops(s, acc=None):
    """multiset of node kinds in a spec (for case-class signatures)"""
    acc = [] if acc is None else acc
    if "prim" in s:
        acc.append(s["prim"])
        return acc
    acc.append(s["op"])
    for k in ("a", "b", "d"):
        if k in s:
            spec_ops(s[k], acc)
    return acc


def char_length(node, env, N=1):
    """L = max(1, bounding box diameter, max |coordinate|) over the supplied rows (estimated from the
    twin's box or, failing that, from leaf boxes)"""
    bb = node.bbox(env, N)
    if bb is None:
        bb = _hull_box(node, env, N)
    ext = (bb[:, 1::2] - bb[:, 0::2]).max()
    return float(max(1.0, ext, np.abs(bb).max()))


def _hull_box(node, env, N):
    """enclosing box from the leaves (always available, not tight)"""
    if isinstance(node, Bool):
        ba = _hull_box(node.a, env, N)
        if node.op != "union":
            return ba
        bb = _hull_box(node.b, env, N)
        out = ba.copy()
        out[:, 0::2] = np.minimum(ba[:, 0::2], bb[:, 0::2])
        out[:, 1::2] = np.maximum(ba[:, 1::2], bb[:, 1::2])
        return out
    if isinstance(node, Boundary):
        return _hull_box(node.d, env, N)
    if isinstance(node, Moved):
        if node.op == "translate":
            return _hull_box(node.d, env, N) + np.repeat(val_np(node.s["vec"], env, N), 2, axis=1)
        bb = _hull_box(node.d, env, N)
        dd = bb.shape[1] // 2
        # rotate all corners of the inner box
        import itertools
        cs = []
        for choice in itertools.product([0, 1], repeat=dd):
            cs.append(np.stack([bb[:, 2 * i + choice[i]] for i in range(dd)], 1))
        Q = np.stack([node.push(c, env) for c in cs], 1)       # (N, 2^d, d)
        out = np.zeros_like(bb)
        out[:, 0::2] = Q.min(1)
        out[:, 1::2] = Q.max(1)
        return out
    if isinstance(node, Product):
        bb_b = _hull_box(node.b, env, N)
        if node.dependent():
            # sample the b box to bound a (coarse but enclosing enough for a characteristic length)
            rng = np.random.default_rng(0)
            best = None
            for _ in range(16):
                u = rng.random((N, bb_b.shape[1] // 2))
                pb = bb_b[:, 0::2] + u * (bb_b[:, 1::2] - bb_b[:, 0::2])
                env2 = dict(env)
                off = 0
                for n, d in node.b.space():
                    env2[n] = pb[:, off:off + d]
                    off += d
                ba = _hull_box(node.a, env2, N)
                if best is None:
                    best = ba.copy()
                else:
                    best[:, 0::2] = np.minimum(best[:, 0::2], ba[:, 0::2])
                    best[:, 1::2] = np.maximum(best[:, 1::2], ba[:, 1::2])
            return np.concatenate([best, bb_b], 1)
        return np.concatenate([_hull_box(node.a, env, N), bb_b], 1)
    bb = node.bbox(env, N)
    return bb


# ---------------------------------------------------------------------------------------------
# build: spec -> torchphysics objects (public constructors only)
# ---------------------------------------------------------------------------------------------

def build(s):
    import torch
    import torchphysics as tp
    from torchphysics.problem.spaces import Space
    D = tp.domains
    if "prim" in s:
        p = s["prim"]
        if p == "interval":
            return D.Interval(Space({s["var"]: 1}), val_torch(s["lo"], True), val_torch(s["hi"], True))
        if p == "circle":
            return D.Circle(Space({s["var"]: 2}), val_torch(s["center"]), val_torch(s["radius"], True))
        if p == "sphere":
            return D.Sphere(Space({s["var"]: 3}), val_torch(s["center"]), val_torch(s["radius"], True))
        if p == "parallelogram":
            return D.Parallelogram(Space({s["var"]: 2}), val_torch(s["origin"]), val_torch(s["c1"]),
                                   val_torch(s["c2"]))
        if p == "triangle":
            return D.Triangle(Space({s["var"]: 2}), val_torch(s["origin"]), val_torch(s["c1"]), val_torch(s["c2"]))
        if p == "polygon":
            from torchphysics.problem.domains.domain2D.shapely_polygon import ShapelyPolygon
            if s.get("holes"):
                import shapely.geometry as sg
                return ShapelyPolygon(Space({s["var"]: 2}), shapely_polygon=sg.Polygon([list(map(float, v)) for v in s["vertices"]],
                                                                                     [[list(map(float, v)) for v in h] for h in s["holes"]]))
            return ShapelyPolygon(Space({s["var"]: 2}), vertices=[list(map(float, v)) for v in s["vertices"]])
        if p == "polyhedron":
            from torchphysics.problem.domains.domain3D.trimesh_polyhedron import TrimeshPolyhedron
            tolkw = {"tol": float(s["tol"])} if "tol" in s else {}      # the documented boundary tolerance of the mesh
            if s.get("via_file"):
                # written as an ASCII STL file (with the winding of the spec) and loaded through the file_name path
                import tempfile
                import os
                from . import VERIF_ROOT
                os.makedirs(os.path.join(VERIF_ROOT, ".tmp"), exist_ok=True)
                fd, path = tempfile.mkstemp(suffix=".stl", dir=os.path.join(VERIF_ROOT, ".tmp"))
                V, F = np.asarray(s["vertices"], float), np.asarray(s["faces"], int)
                with os.fdopen(fd, "w") as f:
                    f.write("solid tpmon\n")
                    for tri in F:
                        a, b, c = V[tri[0]], V[tri[1]], V[tri[2]]
                        nn = np.cross(b - a, c - a)
                        nn = nn / max(np.linalg.norm(nn), 1e-300)
                        f.write(" facet normal %.9g %.9g %.9g\n  outer loop\n" % tuple(nn))
                        for v in (a, b, c):
                            f.write("   vertex %.9g %.9g %.9g\n" % tuple(v))
                        f.write("  endloop\n endfacet\n")
                    f.write("endsolid tpmon\n")
                try:
                    return TrimeshPolyhedron(Space({s["var"]: 3}), file_name=path, file_type="stl", **tolkw)
                finally:
                    os.remove(path)
            if s.get("soup"):
                # triangle soup: every face has its own three vertices (coincident vertices duplicated, as in raw STL data),
                # every other face wound the other way round
                V, F = np.asarray(s["vertices"], float), np.asarray(s["faces"], int)
                F = np.array([f[::-1] if i % 2 else f for i, f in enumerate(F)])
                return TrimeshPolyhedron(Space({s["var"]: 3}), vertices=[list(map(float, v)) for v in V[F].reshape(-1, 3)],
                                         faces=[[3 * i, 3 * i + 1, 3 * i + 2] for i in range(len(F))], **tolkw)
            return TrimeshPolyhedron(Space({s["var"]: 3}), vertices=[list(map(float, v)) for v in s["vertices"]],
                                     faces=[list(map(int, f)) for f in s["faces"]], **tolkw)
        if p == "point":
            return D.Point(Space({s["var"]: s["dim"]}), val_torch(s["point"]))
        raise ValueError(p)
    op = s["op"]
    if op == "union":
        a, b = build(s["a"]), build(s["b"])
        if s.get("flag"):
            from torchphysics.problem.domains.domainoperations.union import UnionDomain
            return UnionDomain(a, b, disjoint=True)
        return a + b
    if op == "cut":
        a, b = build(s["a"]), build(s["b"])
        if s.get("flag"):
            from torchphysics.problem.domains.domainoperations.cut import CutDomain
            return CutDomain(a, b, contained=True)
        return a - b
    if op == "isect":
        return build(s["a"]) & build(s["b"])
    if op == "product":
        return build(s["a"]) * build(s["b"])
    if op == "translate":
        return D.Translate(build(s["d"]), val_torch(s["vec"]))
    if op == "rotate":
        d = build(s["d"])
        around = val_torch(s["around"]) if "around" in s else None
        if "angle" in s:
            ang = val_torch(s["angle"], True)
            return D.Rotate.from_angles(d, ang, rotate_around=around)
        M = s["matrix"]
        if is_const(M):
            dd = int(round(math.sqrt(len(np.asarray(M).reshape(-1)))))
            mat = torch.tensor(np.asarray(M, dtype=np.float32).reshape(dd, dd))
        else:
            f = val_torch(M)
            dd = int(round(math.sqrt(len(np.asarray(M["a"]).reshape(-1)))))
            names = sorted(val_vars(M))
            mat = eval("lambda %s: _f(%s).reshape(-1, %d, %d)" % (", ".join(names), ", ".join(names), dd, dd),
                       {"_f": f})
        return D.Rotate(d, mat, rotate_around=around)
    if op == "boundary":
        return build(s["d"]).boundary
    if op == "side":
        d = build(s["d"])
        return d.boundary_left if s["side"] == "left" else d.boundary_right
    raise ValueError(op)


def make_params(rows):
    """rows: {"t": [[..],[..]], ...} -> torchphysics Points (float32) and the float64 env"""
    import torch
    from torchphysics.problem.spaces import Points
    if not rows:
        return Points.empty(), {}
    env = {k: np.asarray(v, dtype=np.float64).reshape(len(v), -1) for k, v in rows.items()}
    coords = {k: torch.tensor(v.astype(np.float32)) for k, v in env.items()}
    P = Points.from_coordinates(coords)
    env32 = {k: coords[k].double().numpy() for k in coords}   # what the library actually sees
    return P, env32


# ---------------------------------------------------------------------------------------------
# start-up self validation of the reference model
# ---------------------------------------------------------------------------------------------

def self_validate():
    rng = np.random.default_rng(7)
    specs = [
        {"prim": "circle", "var": "x", "center": [0.3, -0.2], "radius": 1.3},
        {"prim": "parallelogram", "var": "x", "origin": [0, 0], "c1": [2, 0.5], "c2": [0.4, 1.5]},
        {"prim": "triangle", "var": "x", "origin": [0, 0], "c1": [0.4, 1.5], "c2": [2, 0.5]},
        {"prim": "polygon", "var": "x", "vertices": [[0, 0], [3, 0], [3, 2], [2, 2], [2, 1], [1, 1], [1, 2], [0, 2]]},
        {"prim": "polygon", "var": "x", "vertices": [[0, 0], [4, 0], [4, 3], [0, 3]], "holes": [[[1, 1], [2, 1], [2, 2]], [[2.5, 0.5], [3.5, 0.5], [3.5, 2.5], [2.5, 2.5]]]},
        {"prim": "sphere", "var": "x", "center": [0, 0, 1], "radius": 0.8},
        {"prim": "polyhedron", "var": "x", "vertices": [[0, 0, 0], [2, 0, 0], [2, 1, 0], [0, 1, 0], [0, 0, 1.5], [2, 0, 1.5], [2, 1, 1.5], [0, 1, 1.5]],
         "faces": [[0, 1, 2], [0, 2, 3], [4, 6, 5], [4, 7, 6], [0, 5, 1], [0, 4, 5], [1, 6, 2], [1, 5, 6], [2, 7, 3], [2, 6, 7], [3, 4, 0], [3, 7, 4]]},
        {"op": "rotate", "angle": 0.7, "around": [1.0, 0.5],
         "d": {"prim": "parallelogram", "var": "x", "origin": [0, 0], "c1": [2, 0], "c2": [0, 1]}},
    ]
    for s in specs:
        n = ref(s)
        bb = _hull_box(n, {}, 1)[0]
        d = len(bb) // 2
        M = 200000
        P = bb[0::2] + rng.random((M, d)) * (bb[1::2] - bb[0::2])
        frac = (n.phi(P, {}) <= 0).mean()
        est = frac * np.prod(bb[1::2] - bb[0::2])
        exact = n.measure({}, 1)[0]
        se = math.sqrt(frac * (1 - frac) / M) * np.prod(bb[1::2] - bb[0::2])
        if abs(est - exact) > 6 * se + 1e-9:
            raise AssertionError("reference self-check failed for %s: closed form %g vs hit count %g" % (s, exact, est))
    return True
