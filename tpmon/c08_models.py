"""Helper of check C08: JSON-able model specs (random generation), spec -> live torchphysics model,
and the bookkeeping the monitors need that is independent of the library (expected output space,
own coordinate dictionaries, extreme points of the normalisation domains).

A spec is a dict
    {"k": "FCN"|"Harmonic_FCN"|"Polynomial_FCN"|"QRES"|"DeepRitzNet"|"NormalizationLayer"|"Sequential"|"Parallel",
     "in":  [[name, dim], ...]   (the order in which the input space is handed to the constructor),
     "out": [[name, dim], ...],
     ... hyper-parameters ... , "sub": [spec, ...] for the two compositions}
"""
import itertools
import math

import numpy as np
import torch

LEAVES = ["FCN", "Harmonic_FCN", "Polynomial_FCN", "QRES", "DeepRitzNet", "NormalizationLayer"]
KINDS = LEAVES + ["Sequential", "Parallel"]
ACTS = ["tanh", "relu", "sigmoid", "sin", "gelu", "adaptive_tanh", "adaptive_sin", "relun2", "relun3", "softplus"]
IN_NAMES = ["x", "t", "y", "z", "a", "k", "p", "D", "mu", "r"]


class _Names:
    def __init__(self):
        self.i = 0
        self.raw_domains = {}     # top-level input variable -> domain factor its raw values are drawn from

    def new(self, prefix="u"):
        self.i += 1
        return "%s%d" % (prefix, self.i)


# ---------------------------------------------------------------------------------------------
# generation
# ---------------------------------------------------------------------------------------------

def _gen_in_space(rng, nvars, maxdim=3):
    names = [str(n) for n in rng.choice(IN_NAMES, size=nvars, replace=False)]
    return [[n, int(rng.integers(1, maxdim + 1))] for n in names]


def _gen_out_space(rng, names, maxvars=2):
    n = int(rng.integers(1, maxvars + 1))
    return [[names.new("u"), int(rng.integers(1, 4))] for _ in range(n)]


def _gen_hidden(rng, big, equal=False):
    depth = int(rng.integers(1, 6 if big else 4))
    wmax = 48 if big else 20
    if equal:
        w = int(rng.integers(1, wmax + 1))
        return [w] * depth
    return [int(rng.integers(1, wmax + 1)) for _ in range(depth)]


BOUNDED_ACTS = ["tanh", "sigmoid", "sin", "adaptive_tanh", "adaptive_sin"]
TAME_ACTS = BOUNDED_ACTS + ["relu", "gelu", "softplus"]


def _gen_acts(rng, n, pool=None):
    """Per-layer list or one shared module.  ReLU^n is used in at most one layer so that the generated
    networks stay well conditioned (the monitors compare float32 results of different BLAS calls)."""
    pool = pool or ACTS
    if rng.random() < 0.5:
        a = str(rng.choice(pool))
        if a.startswith("relun") and n > 1:
            a = [a] + [str(rng.choice(TAME_ACTS)) for _ in range(n - 1)]
            return [a[i] for i in rng.permutation(n)]
        return a
    out = [str(rng.choice(pool)) for _ in range(n)]
    seen = False
    for i, a in enumerate(out):
        if a.startswith("relun"):
            if seen:
                out[i] = str(rng.choice(TAME_ACTS))
            seen = True
    return out


def _gen_gains(rng, n):
    if rng.random() < 0.6:
        return float(rng.choice([5 / 3, 1.0, 0.7, 2.0]))
    return [float(rng.uniform(0.5, 2.0)) for _ in range(n)]


def _gen_domain(rng, space, names, raw):
    """One factor per variable (dims 1 and 2 only): interval / axis-aligned parallelogram / circle.
    A layer that receives the raw case input gets an arbitrary (narrow, shifted) domain and the case data of
    that variable are drawn from it; a layer fed by another network gets a wide centred domain, so that
    the random nets behind it stay in a well conditioned range."""
    fac = []
    for name, dim in space:
        if raw and name in names.raw_domains:
            fac.append(dict(names.raw_domains[name]))
            continue
        if not raw:
            if dim == 1:
                f = {"d": "interval", "var": name, "a": float(np.round(rng.uniform(-8, -2), 3)),
                     "b": float(np.round(rng.uniform(2, 8), 3))}
            elif rng.random() < 0.5:
                f = {"d": "rect", "var": name, "o": [float(np.round(rng.uniform(-8, -2), 3)) for _ in range(2)],
                     "w": float(np.round(rng.uniform(4, 16), 3)), "h": float(np.round(rng.uniform(4, 16), 3)),
                     "start": int(rng.integers(0, 4)), "swap": bool(rng.random() < 0.5)}
            else:
                f = {"d": "circle", "var": name, "c": [float(np.round(rng.uniform(-1, 1), 3)) for _ in range(2)],
                     "r": float(np.round(rng.uniform(3, 8), 3))}
            fac.append(f)
            continue
        if dim == 1:
            a = float(np.round(rng.uniform(-5, 5), 3))
            w = float(np.round(rng.choice([rng.uniform(0.05, 1), rng.uniform(1, 10)]), 3))
            fac.append({"d": "interval", "var": name, "a": a, "b": float(np.round(a + w, 3))})
        elif rng.random() < 0.5:
            o = [float(np.round(rng.uniform(-5, 5), 3)) for _ in range(2)]
            w = float(np.round(rng.uniform(0.1, 6), 3))
            h = float(np.round(rng.uniform(0.1, 6), 3))
            # four equivalent descriptions of the same rectangle (which corner is the origin)
            fac.append({"d": "rect", "var": name, "o": o, "w": w, "h": h, "start": int(rng.integers(0, 4)),
                        "swap": bool(rng.random() < 0.5)})
        else:
            fac.append({"d": "circle", "var": name, "c": [float(np.round(rng.uniform(-5, 5), 3)) for _ in range(2)],
                        "r": float(np.round(rng.uniform(0.1, 4), 3))})
        names.raw_domains[name] = dict(fac[-1])
    return fac


def gen_leaf(rng, kind, in_space, names, big=False, raw=False):
    s = {"k": kind, "in": [list(v) for v in in_space]}
    if kind == "NormalizationLayer":
        s["out"] = [list(v) for v in in_space]
        s["domain"] = _gen_domain(rng, in_space, names, raw)
        return s
    s["out"] = _gen_out_space(rng, names)
    if kind in ("FCN", "QRES"):
        s["hidden"] = _gen_hidden(rng, big)
        if kind == "QRES":
            s["hidden"] = s["hidden"][:3]
        s["act"] = _gen_acts(rng, len(s["hidden"]), TAME_ACTS if kind == "QRES" else None)
        s["gain"] = _gen_gains(rng, len(s["hidden"]))
    elif kind == "Harmonic_FCN":
        s["hidden"] = _gen_hidden(rng, big)
        s["act"] = _gen_acts(rng, len(s["hidden"]))
        s["gain"] = _gen_gains(rng, len(s["hidden"]))
        s["maxf"] = int(rng.integers(1, 5))
        s["minf"] = int(rng.integers(0, s["maxf"]))
    elif kind == "Polynomial_FCN":
        s["res"] = bool(rng.random() < 0.5)
        s["hidden"] = _gen_hidden(rng, False, equal=s["res"])
        if s["res"] and len(s["hidden"]) < 2:
            s["hidden"] = s["hidden"] * int(rng.integers(2, 4))
        s["hidden"] = [min(h, 16) for h in s["hidden"]]
        s["act"] = str(rng.choice(BOUNDED_ACTS))
        s["gain"] = _gen_gains(rng, len(s["hidden"]))
        s["deg"] = int(rng.integers(1, 4))
    elif kind == "DeepRitzNet":
        s["width"] = int(rng.integers(1, 33 if big else 21))
        s["depth"] = int(rng.integers(1, 5 if big else 4))
    return s


def _norm_ok(space):
    return all(d <= 2 for _, d in space)


def _perm(rng, space):
    space = [list(v) for v in space]
    if len(space) > 1 and rng.random() < 0.6:
        idx = rng.permutation(len(space))
        space = [space[i] for i in idx]
    return space


def gen_model(rng, kind, depth, in_space, names, big=False, raw=False):
    """Generates a spec of the given top kind for the given input space (list of [name, dim])."""
    if kind in LEAVES:
        return gen_leaf(rng, kind, in_space, names, big, raw)
    if kind == "Sequential":
        n = int(rng.integers(2, 5 if big else 4))
        subs = []
        cur = [list(v) for v in in_space]
        for i in range(n):
            opts = ["FCN", "Harmonic_FCN", "Polynomial_FCN", "QRES", "DeepRitzNet"]
            if _norm_ok(cur):
                opts += ["NormalizationLayer"] * (3 if i == 0 else 1)
            if depth > 1:
                opts += ["Parallel", "Sequential"]
            k = str(rng.choice(opts))
            # the next model may declare the same variables in another order
            sub = gen_model(rng, k, depth - 1, cur if i == 0 else _perm(rng, cur), names, big, raw and i == 0)
            subs.append(sub)
            cur = sub["out"]
        return {"k": "Sequential", "in": [list(v) for v in subs[0]["in"]], "out": [list(v) for v in cur], "sub": subs}
    if kind == "Parallel":
        n = int(rng.integers(2, 4))
        nv = len(in_space)
        # every input variable is used by at least one part; parts may share variables
        member = [[bool(rng.random() < 0.5) for _ in range(nv)] for _ in range(n)]
        for j in range(nv):
            if not any(member[i][j] for i in range(n)):
                member[int(rng.integers(0, n))][j] = True
        for i in range(n):
            if not any(member[i]):
                member[i][int(rng.integers(0, nv))] = True
        subs, out, used = [], [], set()
        for i in range(n):
            sub_in = _perm(rng, [in_space[j] for j in range(nv) if member[i][j]])
            opts = ["FCN", "Harmonic_FCN", "Polynomial_FCN", "QRES", "DeepRitzNet"]
            if _norm_ok(sub_in):
                opts += ["NormalizationLayer"]
            if depth > 1:
                opts += ["Sequential", "Sequential", "Parallel"]
            k = str(rng.choice(opts))
            sub = gen_model(rng, k, depth - 1, sub_in, names, big, raw)
            if any(nm in used for nm, _ in sub["out"]):
                # output names of the parts have to be disjoint (a part that passes its input names through,
                # e.g. a normalisation layer, may appear once): wrap so that the names are fresh
                inner = gen_leaf(rng, str(rng.choice(["FCN", "QRES"])), _perm(rng, sub["out"]), names, big)
                sub = {"k": "Sequential", "in": sub["in"], "out": inner["out"], "sub": [sub, inner]}
            subs.append(sub)
            out += [list(v) for v in sub["out"]]
            used.update(nm for nm, _ in sub["out"])
        # the declared input space of Parallel is the union in order of first appearance
        seen, decl = set(), []
        for sub in subs:
            for name, dim in sub["in"]:
                if name not in seen:
                    seen.add(name)
                    decl.append([name, dim])
        return {"k": "Parallel", "in": decl, "out": out, "sub": subs}
    raise ValueError(kind)


def gen_top(rng, kind, nvars, depth, big=False):
    names = _Names()
    maxdim = 2 if kind == "NormalizationLayer" else 3
    in_space = _gen_in_space(rng, nvars, maxdim)
    if kind in ("Sequential", "Parallel") and rng.random() < 0.5:
        in_space = [[n, min(d, 2)] for n, d in in_space]      # makes normalisation layers possible inside
    spec = gen_model(rng, kind, depth, in_space, names, big, raw=True)
    return spec, names.raw_domains


def sample_factor(f, rng, n):
    """n points of the closed domain factor, float64 (n, dim)."""
    return factor_points(f, rng, n)[1]


# ---------------------------------------------------------------------------------------------
# spec queries (independent of the library)
# ---------------------------------------------------------------------------------------------

def walk(spec):
    yield spec
    for s in spec.get("sub", []):
        yield from walk(s)


def kinds_in(spec):
    return sorted({s["k"] for s in walk(spec)})


def multi_axis_ok(spec):
    """Polynomial_FCN is written for one batch axis (expands its weights to len(points))."""
    return all(s["k"] != "Polynomial_FCN" for s in walk(spec))


def depth_of(spec):
    return 1 + max([depth_of(s) for s in spec.get("sub", [])], default=0)


# ---------------------------------------------------------------------------------------------
# building live objects
# ---------------------------------------------------------------------------------------------

def _act(name):
    from torchphysics.models.activation_fn import AdaptiveActivationFunction, ReLUn, Sinus
    if name == "tanh":
        return torch.nn.Tanh()
    if name == "relu":
        return torch.nn.ReLU()
    if name == "sigmoid":
        return torch.nn.Sigmoid()
    if name == "sin":
        return Sinus()
    if name == "gelu":
        return torch.nn.GELU()
    if name == "softplus":
        return torch.nn.Softplus()
    if name == "adaptive_tanh":
        return AdaptiveActivationFunction(torch.nn.Tanh(), inital_a=0.8, scaling=1.5)
    if name == "adaptive_sin":
        return AdaptiveActivationFunction(Sinus(), inital_a=1.2, scaling=0.5)
    if name == "relun2":
        return ReLUn(2)
    if name == "relun3":
        return ReLUn(3)
    raise ValueError(name)


def _acts(a):
    return [_act(x) for x in a] if isinstance(a, list) else _act(a)


def space_of(pairs):
    from torchphysics.problem.spaces import Space
    sp = Space({})
    for name, dim in pairs:
        sp = sp * Space({name: int(dim)})
    return sp


def build_domain(factors):
    import torchphysics as tp
    from torchphysics.problem.spaces import Space
    dom = None
    for f in factors:
        if f["d"] == "interval":
            d = tp.domains.Interval(Space({f["var"]: 1}), f["a"], f["b"])
        elif f["d"] == "rect":
            cs = rect_corners(f)
            o = cs[f["start"]]
            n1, n2 = cs[(f["start"] + 1) % 4], cs[(f["start"] + 3) % 4]
            if f["swap"]:
                n1, n2 = n2, n1
            d = tp.domains.Parallelogram(Space({f["var"]: 2}), o, n1, n2)
        else:
            d = tp.domains.Circle(Space({f["var"]: 2}), f["c"], f["r"])
        dom = d if dom is None else dom * d
    return dom


def build(spec):
    """spec -> live model (float32, constructor default initialisation under the caller's torch seed)."""
    from torchphysics.models import (FCN, Harmonic_FCN, QRES, DeepRitzNet, NormalizationLayer, Sequential,
                                     Parallel)
    from torchphysics.models.fcn import Polynomial_FCN
    k = spec["k"]
    if k == "Sequential":
        return Sequential(*[build(s) for s in spec["sub"]])
    if k == "Parallel":
        return Parallel(*[build(s) for s in spec["sub"]])
    if k == "NormalizationLayer":
        return NormalizationLayer(build_domain(spec["domain"]))
    I, O = space_of(spec["in"]), space_of(spec["out"])
    if k == "FCN":
        return FCN(I, O, hidden=tuple(spec["hidden"]), activations=_acts(spec["act"]), xavier_gains=spec["gain"])
    if k == "QRES":
        return QRES(I, O, hidden=tuple(spec["hidden"]), activations=_acts(spec["act"]), xavier_gains=spec["gain"])
    if k == "Harmonic_FCN":
        return Harmonic_FCN(I, O, max_frequenz=spec["maxf"], min_frequenz=spec["minf"], hidden=tuple(spec["hidden"]),
                            activations=_acts(spec["act"]), xavier_gains=spec["gain"])
    if k == "Polynomial_FCN":
        return Polynomial_FCN(I, O, polynomial_degree=spec["deg"], hidden=tuple(spec["hidden"]),
                              activation=_act(spec["act"]), xavier_gains=spec["gain"], res_connection=spec["res"])
    if k == "DeepRitzNet":
        return DeepRitzNet(I, O, width=spec["width"], depth=spec["depth"])
    raise ValueError(k)


def submodels(model):
    return list(model.models)


# ---------------------------------------------------------------------------------------------
# own points bookkeeping
# ---------------------------------------------------------------------------------------------

def mk_points(data, order):
    """data: {name: tensor (..., dim)}; order: list of names -> library Points with that variable order."""
    from torchphysics.problem.spaces import Points
    t = torch.cat([data[v] for v in order], dim=-1)
    return Points(t, space_of([[v, data[v].shape[-1]] for v in order]))


def to_dict(tensor, pairs):
    out, s = {}, 0
    for name, dim in pairs:
        out[name] = tensor[..., s:s + dim]
        s += dim
    return out


def space_pairs(space):
    return [[k, int(space[k])] for k in space.keys()]


# ---------------------------------------------------------------------------------------------
# extreme points of the normalisation domains (own geometry)
# ---------------------------------------------------------------------------------------------

def rect_corners(f):
    ox, oy = f["o"]
    return [[ox, oy], [ox + f["w"], oy], [ox + f["w"], oy + f["h"]], [ox, oy + f["h"]]]


def factor_points(f, rng, n_extra):
    """(extreme points, further points of the closed set) of one factor, float64 numpy arrays (m, dim)."""
    if f["d"] == "interval":
        ext = np.array([[f["a"]], [f["b"]]])
        inner = rng.uniform(f["a"], f["b"], size=(n_extra, 1))
    elif f["d"] == "rect":
        ext = np.array(rect_corners(f), dtype=float)
        inner = np.array(f["o"]) + rng.uniform(0, 1, size=(n_extra, 2)) * np.array([f["w"], f["h"]])
    else:
        ang = np.concatenate([np.arange(4) * math.pi / 2, rng.uniform(0, 2 * math.pi, size=8)])
        ext = np.array(f["c"]) + f["r"] * np.stack([np.cos(ang), np.sin(ang)], axis=1)
        rr = f["r"] * np.sqrt(rng.uniform(0, 1, size=n_extra))
        aa = rng.uniform(0, 2 * math.pi, size=n_extra)
        inner = np.array(f["c"]) + np.stack([rr * np.cos(aa), rr * np.sin(aa)], axis=1)
    return ext, inner


def domain_test_points(factors, rng, cap=400):
    """Rows over the product domain in the variable order of `factors`: products of extreme points
    (all if few, a random sample otherwise) followed by random points of the closed set."""
    exts, inners = [], []
    for f in factors:
        e, i = factor_points(f, rng, 16)
        exts.append(e)
        inners.append(i)
    sizes = [len(e) for e in exts]
    total = int(np.prod(sizes))
    if total <= cap:
        combos = list(itertools.product(*[range(s) for s in sizes]))
    else:
        combos = [tuple(int(rng.integers(0, s)) for s in sizes) for _ in range(cap)]
    ext_rows = np.array([np.concatenate([exts[j][c[j]] for j in range(len(exts))]) for c in combos])
    inner_rows = np.concatenate(inners, axis=1)
    return ext_rows, inner_rows
