"""C04/C14 helpers, part 3: seeded generators of condition cases (plain JSON)."""
import copy
import numpy as np

from . import c04_dsl as D

VAR_POOL = [("x", [1, 2, 3]), ("t", [1]), ("y", [1, 2]), ("k", [1]), ("s", [1]), ("z", [1, 2])]
OUT_NAMES = ["u", "v", "w"]
DATA_NAMES = ["f", "g", "h"]
PAR_NAMES = ["Dp", "Ep"]
CFG = {"calls_max": 5, "cap": 100, "terms_max": 3}


def configure(tier):
    """thorough tier: longer call histories, larger point sets, longer residual components"""
    if tier == "thorough":
        CFG.update(calls_max=8, cap=220, terms_max=4)
    else:
        CFG.update(calls_max=5, cap=100, terms_max=3)


def gen_vars(rng, nmin=1, nmax=3, maxdim=5, force=None):
    names = list(range(len(VAR_POOL)))
    rng.shuffle(names)
    n = int(rng.integers(nmin, nmax + 1))
    out, tot = [], 0
    chosen = [VAR_POOL[i] for i in names]
    if force:
        chosen = [p for p in VAR_POOL if p[0] in force] + [p for p in chosen if p[0] not in force]
    for name, dims in chosen:
        if len(out) >= n:
            break
        d = int(rng.choice(dims)) if not (force and name in force) else force[name]
        if tot + d > maxdim:
            d = 1
        lo = round(float(rng.uniform(-1.0, 0.5)), 2)
        hi = round(lo + float(rng.uniform(0.8, 2.0)), 2)
        out.append({"name": name, "dim": d, "dom": str(rng.choice(["rect", "circle"])), "lo": lo, "hi": hi})
        tot += d
    return out


def deterministic_ok(kinds):
    return "random" not in kinds


def gen_leaf(rng, vars_, names, n, allow_filter=True, kinds=("random", "grid")):
    byname = {v["name"]: v for v in vars_}
    kind = str(rng.choice(kinds))
    if len(names) > 1 and not deterministic_ok(kinds):
        kind = "random"           # grid sampling of a product domain is a documented rejection
    leaf = {"op": "leaf", "vars": list(names), "kind": kind, "n": int(n)}
    if allow_filter and rng.random() < 0.25:
        v = byname[names[0]]
        leaf["filter"] = {"var": v["name"], "comp": int(rng.integers(0, v["dim"])),
                          "thr": round(v["lo"] + 0.3 * (v["hi"] - v["lo"]), 3)}
    return leaf


def gen_sampler(rng, vars_, names, cap=100, static=None, allow_filter=True, allow_concat=True, deterministic=False):
    """random sampler tree over the variables `names` -> spec"""
    byname = {v["name"]: v for v in vars_}
    names = list(names)
    rng.shuffle(names)
    leaves = []
    i = 0
    while i < len(names):
        m = 2 if (i + 1 < len(names) and rng.random() < 0.3 and not deterministic) else 1
        leaves.append(names[i:i + m])
        i += m
    per = max(2, int(round(cap ** (1.0 / len(leaves)))))
    kinds = ("grid",) if deterministic else ("random", "grid")
    spec = None
    have = []
    for lv in leaves:
        n = int(rng.integers(2, per + 1))
        leaf = gen_leaf(rng, vars_, lv, n, allow_filter, kinds)
        if spec is None:
            if allow_concat and rng.random() < 0.15:
                other = gen_leaf(rng, vars_, lv, int(rng.integers(1, 4)), False, kinds)
                leaf = {"op": "concat", "a": leaf, "b": other}
            spec = leaf
        else:
            if rng.random() < 0.6:
                # new leaf is sampled for every row of what exists already: it may depend on those variables
                if byname[lv[0]]["dim"] == 1 and "filter" not in leaf and rng.random() < 0.4:
                    leaf["dep"] = {"on": str(rng.choice(have)), "c": round(float(rng.uniform(0.2, 0.8)), 2)}
                spec = {"op": "prod", "a": leaf, "b": spec}
            else:
                spec = {"op": "prod", "a": spec, "b": leaf}
        have.extend(lv)
    if static is None:
        static = rng.random() < 0.5
    if static:
        spec = {"op": "static", "a": spec, "interval": None if rng.random() < 0.55 else int(rng.integers(2, 4))}
    return spec


def planned_n(spec):
    if spec["op"] == "leaf":
        return spec["n"]
    if spec["op"] == "prod":
        return planned_n(spec["a"]) * planned_n(spec["b"])
    if spec["op"] == "concat":
        return planned_n(spec["a"]) + planned_n(spec["b"])
    if spec["op"] == "static":
        return planned_n(spec["a"])
    return 0


def gen_model(rng, vars_, closed_p=0.7, nout=None, deeponet=False, outs=None):
    in_order = [v["name"] for v in vars_]
    rng.shuffle(in_order)
    no = int(rng.integers(1, 3)) if nout is None else nout
    names = list(OUT_NAMES)
    rng.shuffle(names)
    if outs is None:
        outs = []
        for i in range(no):
            outs.append({"name": names[i], "dim": int(rng.choice([1, 1, 2, 3])) if i == 0 else int(rng.choice([1, 2]))})
    m = {"in_order": in_order, "outs": outs}
    if deeponet:
        m.update(type="deeponet", hidden=[int(rng.integers(3, 6))], seed=int(rng.integers(0, 2 ** 31)))
    elif rng.random() < closed_p:
        m.update(type="closed", coef=D.gen_closed_coef(rng, vars_, in_order, outs))
    else:
        m.update(type="fcn", hidden=[int(rng.integers(3, 7)) for _ in range(int(rng.integers(1, 3)))],
                 seed=int(rng.integers(0, 2 ** 31)))
    return m


def gen_data(rng, argpool, nmax=3, p_const=0.1, nmin=0):
    n = int(rng.integers(nmin, nmax + 1))
    out = []
    for i in range(n):
        if rng.random() < p_const:
            out.append({"name": DATA_NAMES[i], "dim": 1, "args": [], "argdims": [], "comps": [],
                        "const": round(float(rng.uniform(0.5, 2.0)), 3)})
            continue
        m = int(rng.integers(1, len(argpool) + 1))
        idx = list(rng.permutation(len(argpool))[:m])
        out.append(D.gen_data_fn(rng, DATA_NAMES[i], int(rng.choice([1, 1, 2, 3])), [argpool[j] for j in idx]))
    return out


def gen_params(rng, p=0.4):
    if rng.random() > p:
        return []
    n = int(rng.integers(1, 3))
    return [{"name": PAR_NAMES[i], "dim": int(rng.choice([1, 2])),
             "init": None} for i in range(n)]


def _fill_params(rng, ps):
    for q in ps:
        q["init"] = np.round(rng.uniform(0.4, 1.6, size=q["dim"]), 3).tolist()
    return ps


def gen_residual(rng, atoms, ncomp, must, deriv, integral=None):
    """atoms: dict kind -> list of factors; must: factors that have to occur somewhere; deriv: derivative factors;
    integral: list of integral-type factors (wrapped into one imean factor)"""
    res = []
    todo = list(must)
    rng.shuffle(todo)
    pool = atoms["out"] + atoms["coord"] + atoms["data"] + atoms["par"] + atoms["dflt"] + atoms.get("fs", [])
    for c in range(ncomp):
        comp = []
        for t in range(int(rng.integers(1, CFG["terms_max"] + 1))):
            fac = []
            if t == 0:
                fac.append(list(atoms["out"][int(rng.integers(0, len(atoms["out"])))]))
            elif deriv and rng.random() < 0.5:
                fac.append(list(deriv[int(rng.integers(0, len(deriv)))]))
            if todo:
                fac.append(list(todo.pop()))
            while len(fac) < int(rng.integers(1, 4)):
                f = list(pool[int(rng.integers(0, len(pool)))])
                if f[0] == "coord" and rng.random() < 0.5:
                    f = ["sin", f]
                fac.append(f)
            if integral and rng.random() < 0.6:
                k = int(rng.integers(1, 3))
                inner = [list(integral[int(rng.integers(0, len(integral)))]) for _ in range(k)]
                fac.append(["imean", inner])
            comp.append({"c": round(float(rng.uniform(0.5, 1.5) * rng.choice([-1, 1])), 3), "f": fac})
        res.append(comp)
    while todo:       # anything that still has to occur: extra terms on the last component
        res[-1].append({"c": 1.0, "f": [list(atoms["out"][0]), list(todo.pop())]})
    if integral and not any(f[0] == "imean" for comp in res for term in comp for f in term["f"]):
        res[0].append({"c": 1.0, "f": [["imean", [list(integral[0])]]]})
    return res


def make_sig(rng, res, extras=(), p_extra=0.3):
    used = sorted(D.residual_args(res))
    for e in extras:
        if tuple(e) not in used and rng.random() < p_extra:
            used.append(tuple(e))
    nd = [a for a in used if a[0] != "dflt"]
    dd = [a for a in used if a[0] == "dflt"]
    idx = rng.permutation(len(nd))
    nd = [nd[i] for i in idx]
    sigargs = [list(a) for a in nd + dd]
    return sigargs, [D.argname(a[1], a[2]) for a in sigargs]


def atoms_for(vars_, outs, data, params, defaults, out_sides=("",), coord_side=None, data_sides=("",)):
    """coord_side: dict var -> list of sides"""
    at = {"out": [], "coord": [], "data": [], "par": [], "dflt": []}
    for o in outs:
        for s in out_sides:
            for j in range(o["dim"]):
                at["out"].append(["out", o["name"], j, s])
    for v in vars_:
        for s in (coord_side or {}).get(v["name"], [""]):
            for j in range(v["dim"]):
                at["coord"].append(["coord", v["name"], j, s])
    for d in data:
        for s in data_sides:
            for j in range(d["dim"]):
                at["data"].append(["data", d["name"], j, s])
    for p in params:
        for j in range(p["dim"]):
            at["par"].append(["par", p["name"], j, ""])
    for k, v in defaults.items():
        for j in range(len(v)):
            at["dflt"].append(["dflt", k, j, ""])
    return at


def one_per_object(at_list):
    """one factor (random component kept by the caller) per distinct (kind, base, side)"""
    seen, out = set(), []
    for f in at_list:
        key = (f[0], f[1], f[3])
        if key not in seen:
            seen.add(key)
            out.append(f)
    return out


def _strip_finite(spec):
    if spec.get("op") == "static":
        spec["interval"] = None
    return spec


def gen_sampler_case(rng, kind, preset=None):
    """pinn | mean | deepritz | single | adaptive_w | periodic | integro.  preset (C14 groups): common "vars", "data",
    "params", "defaults", optionally "model"; group cases have no adaptive samplers, no joined parameters and no static
    sampler with a finite interval together with data functions (that combination is C04's known deviation D24)."""
    preset = preset or {}
    group = bool(preset)
    c = {"kind": kind, "seed": int(rng.integers(0, 2 ** 31)), "calls": int(rng.integers(2, CFG["calls_max"] + 1))}
    if "vars" in preset:
        vars_ = preset["vars"]
    elif kind == "periodic":
        vars_ = gen_vars(rng, 1, 3, force={"t": 1})
    elif kind == "integro":
        vars_ = gen_vars(rng, 2, 3, force={"s": 1})
    else:
        vars_ = gen_vars(rng, 1, 3)
    others = [v["name"] for v in vars_]
    if kind == "periodic":
        c["periodic_var"] = "t"
        for v in vars_:
            if v["name"] == "t":
                v["dom"] = "rect"
        others = [v["name"] for v in vars_ if v["name"] != "t"]
    c["vars"] = vars_
    c["model"] = preset.get("model") or gen_model(rng, vars_)
    outs = c["model"]["outs"]
    # samplers
    if kind == "adaptive_w":
        c["sampler"] = gen_sampler(rng, vars_, others, cap=60, static=True, allow_filter=False)
        c["sampler"]["interval"] = None
        c["aw"] = np.round(rng.uniform(0.2, 2.0, size=planned_n(c["sampler"])), 3).tolist()
    elif kind == "periodic":
        if others:
            c["sampler"] = gen_sampler(rng, vars_, others, cap=40, allow_concat=False,
                                       static=(rng.random() < 0.15) if group else None)
        else:
            # no further variables: the default (non-static) EmptySampler or the static PointSampler.empty()
            c["sampler"] = {"op": "empty"} if rng.random() < 0.5 else {"op": "empty_static"}
    elif kind == "integro":
        c["sampler"] = gen_sampler(rng, vars_, others, cap=30)
        c["int_sampler"] = gen_sampler(rng, vars_, ["s"], cap=6, allow_concat=False)
        if rng.random() < 0.25:
            # a single integral point (e.g. a non-local condition u(x, t) - u(x0, t)): every repeat factor is 1
            leaf = c["int_sampler"]["a"] if c["int_sampler"]["op"] == "static" else c["int_sampler"]
            if leaf["op"] == "leaf":
                leaf["n"] = 1
    else:
        if kind == "pinn" and rng.random() < 0.08 and not group:
            c["sampler"] = {"op": "leaf", "vars": others, "kind": str(rng.choice(["adaptive_thr", "adaptive_rand"])),
                            "n": int(rng.integers(4, 30))}
        else:
            c["sampler"] = gen_sampler(rng, vars_, others, cap=CFG["cap"])
    # data functions, parameters, defaults
    c["data"] = preset["data"] if "data" in preset else gen_data(rng, vars_)
    if kind == "integro" and c["data"] and c["sampler"]["op"] == "static" and rng.random() < (1.0 if group else 0.6):
        c["sampler"] = c["sampler"]["a"]        # keep the known static+data layout deviation of integro conditions rare
    if group and c["data"]:
        _strip_finite(c["sampler"])
        if "int_sampler" in c:
            _strip_finite(c["int_sampler"])
    c["params"] = preset["params"] if "params" in preset else _fill_params(rng, gen_params(rng))
    if len(c["params"]) > 1 and rng.random() < 0.12 and not group:
        c["param_mode"] = "joined"
    if c["params"] and not group and c.get("param_mode") != "joined":
        c["param_change"] = ["inplace", "rebind", "both", None][int(c["seed"]) % 4]
    if "defaults" in preset:
        c["defaults"] = preset["defaults"]
    else:
        c["defaults"] = {"cdef": np.round(rng.uniform(0.5, 1.5, size=int(rng.integers(1, 3))), 3).tolist()} \
            if rng.random() < 0.25 else {}
        if c["defaults"] and rng.random() < 0.5:
            # a second optional argument with a clearly different default value (the order of the defaults matters)
            c["defaults"]["ddef"] = np.round(rng.uniform(2.5, 4.0, size=len(c["defaults"]["cdef"])), 3).tolist()
    if rng.random() < 0.5:
        c["weight"] = round(float(rng.uniform(0.1, 5.0)), 3)
    # residual
    if kind == "periodic":
        at = atoms_for(vars_, outs, c["data"], c["params"], c["defaults"], out_sides=("left", "right"),
                       coord_side={"t": ["left", "right"]}, data_sides=("left", "right"))
    else:
        at = atoms_for(vars_, outs, c["data"], c["params"], c["defaults"])
    deriv = []
    for o in at["out"]:
        for x in at["coord"]:
            if kind == "periodic" and x[3] not in ("", o[3]):
                continue
            deriv.append(["d1", o[1], o[2], o[3], x[1], x[2], x[3]])
            deriv.append(["d2", o[1], o[2], o[3], x[1], x[2], x[3]])
    integral = None
    if kind == "integro":
        integral = [["out", o["name"], j, "integral"] for o in outs for j in range(o["dim"])]
        integral.append(["sin", ["coord", "s", 0, "integral"]])
        integral.append(["coord", "s", 0, "integral"])
    must = one_per_object(at["data"]) + one_per_object(at["par"]) + one_per_object(at["dflt"])
    if kind == "integro" and rng.random() < 0.6:
        # derivative of the integral output with respect to a coordinate that is NOT integrated over
        nonint = [v for v in vars_ if v["name"] != "s"]
        if nonint:
            v = nonint[int(rng.integers(0, len(nonint)))]
            o = outs[int(rng.integers(0, len(outs)))]
            must.append(["dint", o["name"], int(rng.integers(0, o["dim"])), v["name"], int(rng.integers(0, v["dim"]))])
    must.append(list(at["coord"][int(rng.integers(0, len(at["coord"])))]))
    if rng.random() < 0.7:
        must.append(list(deriv[int(rng.integers(0, len(deriv)))]))
    if kind in ("pinn", "mean", "single") and not group and c["sampler"]["op"] not in ("static", "empty", "empty_static") and rng.random() < 0.5:
        # the residual differentiates a data function with respect to a coordinate it depends on (e.g. div(a(x) grad u)):
        # only with a non-static sampler (static samplers pre-evaluate the data functions without a graph)
        cand = [d_ for d_ in c["data"] if d_.get("const") is None and d_.get("args")]
        if cand:
            d_ = cand[int(rng.integers(0, len(cand)))]
            ai = int(rng.integers(0, len(d_["args"])))
            must.append(["ddata", d_["name"], int(rng.integers(0, d_["dim"])), d_["args"][ai], int(rng.integers(0, d_["argdims"][ai]))])
    ncomp = int(rng.integers(1, 4))
    c["residual"] = gen_residual(rng, at, ncomp, must, deriv if rng.random() < 0.7 else [], integral)
    extras = one_per_object(at["coord"]) + one_per_object(at["out"])
    c["sigargs"], c["sig"] = make_sig(rng, c["residual"], [(e[0], e[1], e[3]) for e in extras])
    if kind in ("pinn", "mean", "single") and group and not any(f[0] in ("d1", "d2", "dint") for comp in c["residual"] for term in comp
                                                                  for f in term["f"]) and rng.random() < 0.6:
        c["track_gradients"] = False          # C14: a derivative-free condition evaluated without a graph
    if kind == "single" or (kind in ("periodic", "integro") and rng.random() < 0.4):
        c["error"] = str(rng.choice(D.ERRORS))
        c["reduce"] = str(rng.choice(D.REDUCES))
    if kind == "adaptive_w" and rng.random() < 0.5:
        c["error"] = str(rng.choice(D.ERRORS))
    return c


def gen_pideeponet_case(rng, preset=None):
    preset = preset or {}
    c = {"kind": "pideeponet", "seed": int(rng.integers(0, 2 ** 31)), "calls": int(rng.integers(2, 5))}
    vars_ = preset["vars"] if "vars" in preset else gen_vars(rng, 1, 2, maxdim=3)
    c["vars"] = vars_
    arch = preset.get("don_arch")          # C14: a second condition on the SAME DeepONet with its own function set
    c["model"] = copy.deepcopy(arch["model"]) if arch else gen_model(rng, vars_, deeponet=True)
    outs = c["model"]["outs"]
    nd = sum(o["dim"] for o in outs)
    names = [v["name"] for v in vars_]
    fv = list(arch["fvars"]) if arch else [names[int(rng.integers(0, len(names)))]]
    kvar = dict(arch["kvar"]) if arch else {"name": "kf", "dim": int(rng.choice([1, 2])), "dom": "rect", "lo": 0.5, "hi": 1.5}
    fout = dict(arch["fout"]) if arch else {"name": "a", "dim": int(rng.choice([1, 2]))}
    fs = D.gen_data_fn(rng, "a", fout["dim"], [kvar] + [v for v in vars_ if v["name"] in fv])
    c["don"] = {"fvars": fv, "kvar": kvar, "fout": fout, "fs": fs, "nf": int(rng.integers(2, 6)),
                "disc_n": arch["disc_n"] if arch else int(rng.integers(3, 7)),
                "neurons": arch["neurons"] if arch else nd * int(rng.integers(2, 5))}
    if arch:
        c["shares_net"] = True
    c["sampler"] = gen_sampler(rng, vars_, names, cap=30)
    c["data"] = preset["data"] if "data" in preset else gen_data(rng, vars_, nmax=2)
    if preset and c["data"]:
        _strip_finite(c["sampler"])
    c["params"] = preset["params"] if "params" in preset else _fill_params(rng, gen_params(rng, 0.3))
    c["defaults"] = {}
    at = atoms_for(vars_, outs, c["data"], c["params"], {})
    at["fs"] = [["fs", "a", j, ""] for j in range(fout["dim"])]
    deriv = []
    for o in at["out"]:
        for x in at["coord"]:
            deriv.append(["d1", o[1], o[2], o[3], x[1], x[2], x[3]])
    must = one_per_object(at["data"]) + one_per_object(at["par"])
    if rng.random() < 0.7:
        must.append(list(at["fs"][0]))
    must.append(list(at["coord"][int(rng.integers(0, len(at["coord"])))]))
    c["residual"] = gen_residual(rng, at, int(rng.integers(1, 4)), must, deriv if rng.random() < 0.6 else [])
    extras = one_per_object(at["coord"]) + one_per_object(at["out"])
    c["sigargs"], c["sig"] = make_sig(rng, c["residual"], [(e[0], e[1], e[3]) for e in extras])
    return c


def gen_data_case(rng):
    c = {"kind": "data", "seed": int(rng.integers(0, 2 ** 31)), "calls": int(rng.integers(2, CFG["calls_max"] + 1))}
    vars_ = gen_vars(rng, 1, 3)
    c["vars"] = vars_
    c["model"] = gen_model(rng, vars_)
    outs = c["model"]["outs"]
    x_order = [v["name"] for v in vars_]
    rng.shuffle(x_order)
    n = int(rng.integers(3, 40))
    c["dataset"] = {"n": n, "batch": int(rng.integers(1, n + 3)), "x_order": x_order,
                    "shuffle": bool(rng.random() < 0.3), "drop_last": bool(rng.random() < 0.2)}
    c["norm"] = [1, 2, 3, "inf"][int(rng.integers(0, 4))]
    c["root"] = [1.0, 2.0, 3.0][int(rng.integers(0, 3))]
    c["full"] = bool(rng.random() < 0.5)
    if rng.random() < 0.5:
        c["weight"] = round(float(rng.uniform(0.1, 5.0)), 3)
    if rng.random() < 0.4:
        at = atoms_for(vars_, outs, [], [], {})
        nd = sum(o["dim"] for o in outs)
        c["residual"] = gen_residual(rng, at, nd, [list(at["coord"][0])], [])
        c["sigargs"], c["sig"] = make_sig(rng, c["residual"])
    return c


def gen_deeponet_data_case(rng):
    c = {"kind": "deeponet_data", "seed": int(rng.integers(0, 2 ** 31)), "calls": int(rng.integers(2, 5))}
    vars_ = gen_vars(rng, 1, 2, maxdim=3)
    c["vars"] = vars_
    c["model"] = gen_model(rng, vars_, deeponet=True)
    nd = sum(o["dim"] for o in c["model"]["outs"])
    names = [v["name"] for v in vars_]
    kvar = {"name": "kf", "dim": 1, "dom": "rect", "lo": 0.5, "hi": 1.5}
    fout = {"name": "a", "dim": int(rng.choice([1, 2]))}
    fv = [names[0]]
    fs = D.gen_data_fn(rng, "a", fout["dim"], [kvar] + [v for v in vars_ if v["name"] in fv])
    c["don"] = {"fvars": fv, "kvar": kvar, "fout": fout, "fs": fs, "nf": 3, "disc_n": int(rng.integers(3, 6)),
                "neurons": nd * int(rng.integers(2, 4))}
    nf, nt = int(rng.integers(2, 7)), int(rng.integers(2, 12))
    c["dataset"] = {"nf": nf, "nt": nt, "bb": int(rng.integers(1, nf + 1)), "tb": int(rng.integers(1, nt + 1)),
                    "shuffle_branch": bool(rng.random() < 0.3), "shuffle_trunk": bool(rng.random() < 0.5)}
    c["norm"] = [1, 2, 3, "inf"][int(rng.integers(0, 4))]
    c["root"] = [1.0, 2.0][int(rng.integers(0, 2))]
    c["full"] = bool(rng.random() < 0.5)
    return c


def gen_param_case(rng):
    c = {"kind": "param", "seed": int(rng.integers(0, 2 ** 31)), "calls": 2}
    c["params"] = _fill_params(rng, gen_params(rng, 1.0))
    at = {"out": [], "coord": [], "data": [], "par": [], "dflt": []}
    for p in c["params"]:
        for j in range(p["dim"]):
            at["par"].append(["par", p["name"], j, ""])
    at["out"] = at["par"]
    c["residual"] = gen_residual(rng, at, int(rng.integers(1, 3)), one_per_object(at["par"]), [])
    c["sigargs"], c["sig"] = make_sig(rng, c["residual"])
    c["weight"] = round(float(rng.uniform(0.1, 5.0)), 3)
    return c


# ---------------------------------------------------------------------------------------------
# C14: groups of conditions that share user objects
# ---------------------------------------------------------------------------------------------

GROUP_KINDS = [("pinn", 0.36), ("single", 0.10), ("mean", 0.08), ("periodic", 0.20), ("integro", 0.10),
               ("pideeponet", 0.10), ("adaptive_w", 0.06)]


def _seed_samplers(rng, spec):
    """every top-level sampler object becomes a deterministic function of its call count"""
    if spec is None or spec["op"] in ("empty", "empty_static"):
        return
    spec["seeded"] = int(rng.integers(0, 2 ** 30))


def _all_grid(spec, dims):
    """deterministic irrespective of the random state: grids over one-dimensional variables without a filter"""
    if spec["op"] == "leaf":
        return spec["kind"] == "grid" and all(dims[v] == 1 for v in spec["vars"]) and not spec.get("filter")
    if spec["op"] in ("prod", "concat"):
        return _all_grid(spec["a"], dims) and _all_grid(spec["b"], dims)
    if spec["op"] == "static":
        return _all_grid(spec["a"], dims)
    return False


def gen_group_case(rng, force_kinds=None):
    n = int(rng.choice([2, 2, 3, 3, 4]))
    names = [k for k, _ in GROUP_KINDS]
    p = np.array([w for _, w in GROUP_KINDS])
    p = p / p.sum()
    kinds = [names[int(rng.choice(len(names), p=p))] for _ in range(n)]
    if force_kinds:
        kinds = (list(force_kinds) + kinds)[:max(n, len(force_kinds))]
        kinds = [kinds[int(j)] for j in rng.permutation(len(kinds))]
    force = {}
    if "periodic" in kinds:
        force["t"] = 1
    if "integro" in kinds:
        force["s"] = 1
    maxdim = 3 if "pideeponet" in kinds else 5
    nmin = max(1, len(force) + (1 if "integro" in kinds and len(force) == 1 else 0))
    only_t = "periodic" in kinds and nmin == 1 and rng.random() < 0.35      # periodic conditions without further variables
    vars_ = gen_vars(rng, nmin, 1 if only_t else 3, maxdim=maxdim, force=force or None)
    for v in vars_:
        if v["name"] == "t":
            v["dom"] = "rect"
    g = {"kind": "group", "seed": int(rng.integers(0, 2 ** 31)),
         "rounds": int(rng.integers(2, 5 if CFG["calls_max"] <= 5 else 7)), "vars": vars_}
    share = {"dict": bool(rng.random() < 0.8), "model": bool(rng.random() < 0.5), "param": bool(rng.random() < 0.5),
             "defaults": bool(rng.random() < 0.7)}
    data = gen_data(rng, vars_, nmax=3, nmin=0 if rng.random() < 0.15 else 1, p_const=0.05)
    params = _fill_params(rng, gen_params(rng, 0.4))
    defaults = {"cdef": np.round(rng.uniform(0.5, 1.5, size=int(rng.integers(1, 3))), 3).tolist()} \
        if rng.random() < 0.4 else {}
    model = gen_model(rng, vars_)
    conds = []
    for i, k in enumerate(kinds):
        preset = {"vars": vars_, "data": data, "params": params, "defaults": defaults}
        if share["model"] and k != "pideeponet":
            preset["model"] = model
        if k == "pideeponet":
            first = next((q for q in conds if q["kind"] == "pideeponet"), None)
            if first is not None:
                preset["don_arch"] = dict(first["don"], model=first["model"])
            c = gen_pideeponet_case(rng, preset)
        else:
            c = gen_sampler_case(rng, k, preset)
        c["name"] = "cond%d_%s" % (i, k)
        _seed_samplers(rng, c["sampler"] if c["sampler"]["op"] != "static" else c["sampler"]["a"])
        if "int_sampler" in c:
            _seed_samplers(rng, c["int_sampler"] if c["int_sampler"]["op"] != "static" else c["int_sampler"]["a"])
        conds.append(c)
    dims = {v["name"]: v["dim"] for v in vars_}
    # shared sampler objects: a later condition re-uses the (static, never resampled or purely grid) sampler of an earlier one
    for j in range(1, len(conds)):
        if rng.random() < 0.35:
            cands = [i for i in range(j) if conds[i]["kind"] not in ("periodic", "adaptive_w")
                     and conds[j]["kind"] not in ("periodic", "adaptive_w")
                     and ((conds[i]["sampler"]["op"] == "static" and conds[i]["sampler"].get("interval") is None)
                          or _all_grid(conds[i]["sampler"], dims))
                     and not (conds[j]["kind"] == "integro" and data and conds[i]["sampler"]["op"] == "static")]
            if cands:
                i = cands[int(rng.integers(0, len(cands)))]
                conds[i]["sampler"]["share"] = "S%d" % i
                conds[j]["sampler"] = dict(conds[i]["sampler"])
    # same sampler structure (hence the same number of points) but an own object with an own seed
    import copy
    for j in range(1, len(conds)):
        if "share" not in conds[j]["sampler"] and rng.random() < 0.3:
            cands = [i for i in range(j) if conds[i]["kind"] not in ("periodic", "adaptive_w")
                     and conds[j]["kind"] not in ("periodic", "adaptive_w")
                     and not (conds[j]["kind"] == "integro" and data and conds[i]["sampler"]["op"] == "static")]
            if cands:
                i = cands[int(rng.integers(0, len(cands)))]
                sp = copy.deepcopy(conds[i]["sampler"])
                sp.pop("share", None)
                _seed_samplers(rng, sp if sp["op"] != "static" else sp["a"])
                conds[j]["sampler"] = sp
    g["conds"] = conds
    g["data"], g["params"], g["defaults"] = data, params, defaults
    g["share"] = share
    g["build_order"] = [int(i) for i in rng.permutation(n)]
    g["eval_orders"] = [[int(i) for i in rng.permutation(n)] for _ in range(g["rounds"])]
    return g


# ---------------------------------------------------------------------------------------------
# C14: conditions on ONE static sampler object with data functions under the same key but different bodies
# ---------------------------------------------------------------------------------------------

def gen_samekey_group(rng):
    n = int(rng.choice([2, 2, 3, 4]))
    kn = ["pinn", "single", "mean", "pideeponet"]
    kinds = [kn[int(rng.choice(4, p=[0.5, 0.2, 0.15, 0.15]))] for _ in range(n)]
    vars_ = gen_vars(rng, 1, 3, maxdim=3 if "pideeponet" in kinds else 5)
    names = [v["name"] for v in vars_]
    g = {"kind": "group", "mode": "samekey", "seed": int(rng.integers(0, 2 ** 31)),
         "rounds": int(rng.integers(2, 5 if CFG["calls_max"] <= 5 else 7)), "vars": vars_}
    sampler = gen_sampler(rng, vars_, names, cap=60, static=True)
    sampler["interval"] = None          # never resampled: the number of uses by other conditions does not matter
    sampler["share"] = "S0"
    _seed_samplers(rng, sampler["a"])
    nd = int(rng.integers(1, 3))
    params = _fill_params(rng, gen_params(rng, 0.3))
    defaults = {"cdef": np.round(rng.uniform(0.5, 1.5, size=int(rng.integers(1, 3))), 3).tolist()} \
        if rng.random() < 0.3 else {}
    model = gen_model(rng, vars_)
    first = None
    conds = []
    for i, k in enumerate(kinds):
        data = []
        for j in range(nd):
            if first is not None and rng.random() < 0.2:
                data.append(first[j])                       # the very same function under the same key
            else:
                m = int(rng.integers(1, len(vars_) + 1))
                idx = list(rng.permutation(len(vars_))[:m])
                data.append(D.gen_data_fn(rng, DATA_NAMES[j], int(rng.choice([1, 1, 2, 3])), [vars_[q] for q in idx]))
        if first is None:
            first = data
        preset = {"vars": vars_, "data": data, "params": params, "defaults": defaults}
        if k != "pideeponet" and rng.random() < 0.5:
            preset["model"] = model
        c = gen_pideeponet_case(rng, preset) if k == "pideeponet" else gen_sampler_case(rng, k, preset)
        c["name"] = "cond%d_%s" % (i, k)
        c["sampler"] = dict(sampler)
        conds.append(c)
    g["conds"] = conds
    g["data"], g["params"], g["defaults"] = [], params, defaults
    g["share"] = {"dict": False, "model": bool(rng.random() < 0.5), "param": bool(rng.random() < 0.5),
                  "defaults": bool(rng.random() < 0.7), "functions": True}
    g["build_order"] = [int(i) for i in rng.permutation(n)]
    g["eval_orders"] = [[int(i) for i in rng.permutation(n)] for _ in range(g["rounds"])]
    return g


# ---------------------------------------------------------------------------------------------
# C14: user-supplied (already wrapped) function objects with declared defaults, shared by conditions whose samplers
# provide different variable sets
# ---------------------------------------------------------------------------------------------

def _swap_kind(fac, var):
    """the same residual body on a sampler that does not provide `var`: its factors read the declared default"""
    if fac[0] == "coord" and fac[1] == var:
        return ["dflt", fac[1], fac[2], fac[3]]
    if fac[0] == "sin":
        return ["sin", _swap_kind(fac[1], var)]
    return list(fac)


def gen_varsets_group(rng):
    n = int(rng.choice([2, 2, 3, 4]))
    bname = str(rng.choice(["x", "y", "z"]))
    ename = str(rng.choice(["t", "k"]))

    def mkvar(name, dim):
        lo = round(float(rng.uniform(-1.0, 0.5)), 2)
        return {"name": name, "dim": dim, "dom": str(rng.choice(["rect", "circle"])), "lo": lo,
                "hi": round(lo + float(rng.uniform(0.8, 2.0)), 2)}
    base = mkvar(bname, int(rng.choice([1, 1, 2])))
    extra = mkvar(ename, 1)
    vfull, vbase = [base, extra], [base]
    if rng.random() < 0.5:
        vfull = [extra, base]
    full = [bool(rng.random() < 0.5) for _ in range(n)]
    full[int(rng.integers(0, n))] = True
    if all(full):
        full[int(rng.integers(0, n))] = False
    tdef = [round(float(rng.uniform(extra["lo"], extra["hi"])), 3)]
    g = {"kind": "group", "mode": "varsets", "seed": int(rng.integers(0, 2 ** 31)),
         "rounds": int(rng.integers(2, 5 if CFG["calls_max"] <= 5 else 7)), "vars": vfull}
    mfull = gen_model(rng, vfull)
    mbase = gen_model(rng, vbase, outs=mfull["outs"])
    outs = mfull["outs"]
    # data functions: f(base, extra=default) and sometimes g(base); handed over as UserFunction objects most of the time
    data = [D.gen_data_fn(rng, "f", int(rng.choice([1, 1, 2])), [base, extra], defaults={ename: tdef},
                          wrapped=bool(rng.random() < 0.8))]
    if rng.random() < 0.5:
        data.append(D.gen_data_fn(rng, "g", int(rng.choice([1, 2])), [base], wrapped=bool(rng.random() < 0.5)))
    params = _fill_params(rng, gen_params(rng, 0.3))
    defaults = {ename: tdef}
    if rng.random() < 0.3:
        defaults["cdef"] = np.round(rng.uniform(0.5, 1.5, size=int(rng.integers(1, 3))), 3).tolist()
    # one residual body for all conditions (same parameter names); no derivative w.r.t. the defaulted variable
    at = atoms_for(vfull, outs, data, params, {k: v for k, v in defaults.items() if k != ename})
    deriv = []
    for o in at["out"]:
        for x in at["coord"]:
            if x[1] == ename:
                continue
            deriv.append(["d1", o[1], o[2], o[3], x[1], x[2], x[3]])
            deriv.append(["d2", o[1], o[2], o[3], x[1], x[2], x[3]])
    must = one_per_object(at["data"]) + one_per_object(at["par"]) + one_per_object(at["dflt"])
    must.append(["coord", bname, 0, ""])
    uses_extra = bool(rng.random() < 0.75)
    if uses_extra:
        must.append(["coord", ename, 0, ""])
    else:
        at["coord"] = [a for a in at["coord"] if a[1] != ename]
    res_full = gen_residual(rng, at, int(rng.integers(1, 4)), must, deriv if rng.random() < 0.6 else [])
    used = sorted(D.residual_args(res_full))
    nd_ = [a for a in used if a[0] != "dflt" and not (a[0] == "coord" and a[1] == ename)]
    idx = rng.permutation(len(nd_))
    tail = [a for a in used if a[0] == "coord" and a[1] == ename] + [a for a in used if a[0] == "dflt"]
    sig_full = [list(nd_[i]) for i in idx] + [list(a) for a in tail]
    res_base = [[{"c": t["c"], "f": [_swap_kind(f, ename) for f in t["f"]]} for t in comp] for comp in res_full]
    sig_base = [["dflt", a[1], a[2]] if (a[0] == "coord" and a[1] == ename) else list(a) for a in sig_full]
    res_wrapped = bool(rng.random() < 0.7)
    # an optional filter function flt(base, extra=default) on the leaves of the base variable
    flt = None
    if rng.random() < 0.4:
        span = base["hi"] - base["lo"]
        flt = {"var": bname, "comp": int(rng.integers(0, base["dim"])), "thr": round(base["lo"] + 0.15 * span, 3),
               "dep": {"var": ename, "c": round(0.3 * span / max(abs(extra["lo"]), abs(extra["hi"]), 0.1), 3),
                       "default": tdef},
               "wrapped": bool(rng.random() < 0.8), "share": "F0"}
    conds = []
    n_common = int(rng.integers(3, 9))      # equal point counts: stale tensors of another condition broadcast silently
    for i in range(n):
        kind = str(rng.choice(["pinn", "single", "mean"], p=[0.6, 0.25, 0.15]))
        c = {"kind": kind, "seed": int(rng.integers(0, 2 ** 31)), "calls": g["rounds"], "name": "cond%d_%s" % (i, kind),
             "vars": vfull if full[i] else vbase, "model": mfull if full[i] else mbase,
             "data": data, "params": params, "defaults": defaults,
             "residual": res_full if full[i] else res_base,
             "sigargs": sig_full if full[i] else sig_base,
             "sig": [D.argname(a[1], a[2]) for a in sig_full], "res_wrapped": res_wrapped, "full": full[i]}
        nb = n_common if rng.random() < 0.5 else int(rng.integers(3, 9))
        lb = {"op": "leaf", "vars": [bname], "kind": str(rng.choice(["random", "grid"])), "n": nb}
        if flt is not None and rng.random() < 0.8:
            lb["filter"] = flt
        if full[i]:
            le = {"op": "leaf", "vars": [ename], "kind": str(rng.choice(["random", "grid"])), "n": int(rng.integers(2, 6))}
            st = rng.random()
            if st < 0.45:
                sp = {"op": "prod", "a": lb, "b": le}
            elif st < 0.75:
                sp = {"op": "prod", "a": le, "b": lb}
            else:
                sp = {"op": "leaf", "vars": [bname, ename], "kind": "random",
                      "n": n_common if rng.random() < 0.6 else int(rng.integers(4, 30))}
                if "filter" in lb:
                    sp["filter"] = flt
        else:
            sp = lb
        _seed_samplers(rng, sp)
        if rng.random() < 0.4:
            sp = {"op": "static", "a": sp, "interval": None}
        c["sampler"] = sp
        if kind == "single":
            c["error"] = str(rng.choice(D.ERRORS))
            c["reduce"] = str(rng.choice(D.REDUCES))
        if rng.random() < 0.5:
            c["weight"] = round(float(rng.uniform(0.1, 5.0)), 3)
        conds.append(c)
    g["conds"] = conds
    g["data"], g["params"], g["defaults"] = data, params, defaults
    g["share"] = {"dict": bool(rng.random() < 0.6), "model": bool(rng.random() < 0.5), "param": bool(rng.random() < 0.5),
                  "defaults": bool(rng.random() < 0.6), "functions": True, "residual": bool(rng.random() < 0.6)}
    g["build_order"] = [int(i) for i in rng.permutation(n)]
    g["eval_orders"] = [[int(i) for i in rng.permutation(n)] for _ in range(g["rounds"])]
    return g


# ---------------------------------------------------------------------------------------------
# C14: one random base sampler object made static separately for several conditions
# ---------------------------------------------------------------------------------------------

def gen_staticof_group(rng):
    """base.make_static() for some conditions, base.make_static(resample_interval=k) for others, in random order.  The
    base sampler is random and stateless; the harness seeds torch before every construction / evaluation (seed_ops), so
    the points of each condition are the same alone and in company.  Conditions with a finite interval get no data
    functions (C04's known deviation D24)."""
    n = int(rng.choice([2, 2, 3, 4]))
    vars_ = gen_vars(rng, 1, 3)
    names = [v["name"] for v in vars_]
    g = {"kind": "group", "mode": "staticof", "seed": int(rng.integers(0, 2 ** 31)), "seed_ops": True,
         "rounds": int(rng.integers(4, 7)), "vars": vars_}
    base = gen_sampler(rng, vars_, names, cap=40, static=False, allow_filter=False, allow_concat=False)

    def randomize(sp):
        if sp["op"] == "leaf":
            sp["kind"] = "random"
        else:
            randomize(sp["a"])
            randomize(sp["b"])
    randomize(base)
    base["share"] = "B0"
    intervals = [None if rng.random() < 0.5 else int(rng.integers(2, 4)) for _ in range(n)]
    intervals[int(rng.integers(0, n))] = None
    if all(x is None for x in intervals):
        intervals[int(rng.integers(0, n))] = int(rng.integers(2, 4))
    data = gen_data(rng, vars_, nmax=2, nmin=0, p_const=0.0)
    params = _fill_params(rng, gen_params(rng, 0.3))
    defaults = {}
    model = gen_model(rng, vars_)
    conds = []
    for i in range(n):
        kind = str(rng.choice(["pinn", "single", "mean"], p=[0.6, 0.25, 0.15]))
        preset = {"vars": vars_, "data": data if intervals[i] is None else [], "params": params, "defaults": defaults}
        if rng.random() < 0.5:
            preset["model"] = model
        c = gen_sampler_case(rng, kind, preset)
        c["name"] = "cond%d_%s" % (i, kind)
        c["sampler"] = {"op": "static", "a": dict(base), "interval": intervals[i]}
        conds.append(c)
    g["conds"] = conds
    g["data"], g["params"], g["defaults"] = [], params, defaults
    g["share"] = {"dict": False, "model": bool(rng.random() < 0.5), "param": bool(rng.random() < 0.5),
                  "defaults": False, "functions": True}
    g["build_order"] = [int(i) for i in rng.permutation(n)]
    g["eval_orders"] = [[int(i) for i in rng.permutation(n)] for _ in range(g["rounds"])]
    return g
