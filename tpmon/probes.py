"""Probes installed from the harness at run time on the public boundary of the library.

* event counters per (class, method) for the domain / sampler API,
* logical progress budget (DESIGN.md 4 C01): an outer sampling call that needs more than BUDGET_CALLS inner
  proposals or BUDGET_ROWS proposal rows is aborted with BudgetExceeded raised from inside the inner call --
  a logical (not wall-clock) verdict "no bounded progress".
"""
import collections
import functools

from .core import BudgetExceeded

BUDGET_CALLS = 20000
BUDGET_ROWS = 5e7

events = collections.Counter()
_state = {"active": False, "calls": 0, "rows": 0, "depth": 0, "budget_rows": None}
_installed = False


def all_subclasses(cls):
    out, todo = [], [cls]
    while todo:
        c = todo.pop()
        for s in c.__subclasses__():
            if s not in out:
                out.append(s)
                todo.append(s)
    return out


def begin_call():
    _state.update(active=True, calls=0, rows=0, budget_rows=None)


def end_call():
    _state["active"] = False
    return _state["calls"], _state["rows"]


def _wrap_sampling(cls, name):
    orig = cls.__dict__[name]

    @functools.wraps(orig)
    def wrapper(self, *a, **kw):
        events["%s.%s" % (cls.__name__, name)] += 1
        if _state["active"]:
            _state["calls"] += 1
            n = kw.get("n", a[0] if a else None)
            try:
                _state["rows"] += int(n) if n is not None else 0
            except Exception:
                pass
            if _state["budget_rows"] is None:
                # the outermost call fixes the row budget: nested rejection with the generated acceptance rates (>= 12 %
                # per level, three levels) needs up to ~600 proposals per requested point and parameter row
                try:
                    kk = max(1, len(kw.get("params"))) if kw.get("params") is not None else 1
                    _state["budget_rows"] = max(BUDGET_ROWS, 3000.0 * (int(n) if n is not None else 0) * kk)
                except Exception:
                    _state["budget_rows"] = BUDGET_ROWS
            if _state["calls"] > BUDGET_CALLS or _state["rows"] > _state["budget_rows"]:
                _state["active"] = False
                raise BudgetExceeded("outer sampling call needed more than %d inner proposals / %g proposal rows "
                                     "(stopped inside %s.%s after %d inner calls, %d rows)"
                                     % (BUDGET_CALLS, _state["budget_rows"], cls.__name__, name, _state["calls"], _state["rows"]))
        return orig(self, *a, **kw)

    wrapper._tpmon = True
    setattr(cls, name, wrapper)


def _wrap_count(cls, name):
    orig = cls.__dict__[name]

    @functools.wraps(orig)
    def wrapper(self, *a, **kw):
        events["%s.%s" % (cls.__name__, name)] += 1
        return orig(self, *a, **kw)

    wrapper._tpmon = True
    setattr(cls, name, wrapper)


def install():
    """idempotent; wraps every concrete Domain subclass found by walking __subclasses__()"""
    global _installed
    if _installed:
        return
    import importlib
    import torchphysics  # noqa: F401
    from torchphysics.problem.domains.domain import Domain
    # the operation classes are imported lazily by the library: load them so that they are wrapped too
    for m in ("domainoperations.union", "domainoperations.cut", "domainoperations.intersection",
              "domainoperations.product", "domainoperations.translate", "domainoperations.rotate",
              "domain2D.shapely_polygon", "domain3D.trimesh_polyhedron"):
        try:
            importlib.import_module("torchphysics.problem.domains." + m)
        except Exception:
            pass
    from torchphysics.problem.samplers.sampler_base import PointSampler
    for cls in [Domain] + all_subclasses(Domain):
        for name in ("sample_random_uniform", "sample_grid"):
            f = cls.__dict__.get(name)
            if f is not None and callable(f) and not getattr(f, "_tpmon", False):
                _wrap_sampling(cls, name)
        for name in ("_contains", "volume", "_get_volume", "bounding_box", "normal", "__call__"):
            f = cls.__dict__.get(name)
            if f is not None and callable(f) and not getattr(f, "_tpmon", False):
                _wrap_count(cls, name)
    for cls in [PointSampler] + all_subclasses(PointSampler):
        for name in ("sample_points", "_apply_filter", "_check_inside_domain", "__len__"):
            f = cls.__dict__.get(name)
            if f is not None and callable(f) and not getattr(f, "_tpmon", False):
                _wrap_count(cls, name)
    _installed = True


def snapshot():
    return dict(events)
