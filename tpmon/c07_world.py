"""Shared helper of checks C07 / C19: JSON "world" specs -> live torchphysics training problems.

A world is a small training problem over the input space (x: R1) x (t: R1) with output u: R1, built only
through the public constructors of the library:

  models      FCN | QRES | DeepRitzNet | Sequential(NormalizationLayer, FCN) | DeepONet(FCTrunk, FCBranch)
  parameters  0-2 inverse-problem `Parameter`s (D: R1, k: R2)
  conditions  PINNCondition | DataCondition | ParameterCondition | AdaptiveWeightsCondition | PeriodicCondition |
              PIDeepONetCondition | RecordingCondition (a user-defined Condition subclass living in this file)
  samplers    products of GridSamplers (static or not) -- deterministic, so two fresh worlds see the same points

`build(spec)` called twice gives two identical, completely separate worlds (same seed => same initial weights).
`reach_learnables(conditions)` is the harness' own attribute walk that finds every learnable tensor reachable
from a list of conditions (it does not use Module.parameters() of the Solver).
"""
import functools
import types

import numpy as np
import torch

# ---------------------------------------------------------------------------------------------
# user functions of the worlds (residuals, data functions, penalties)
# ---------------------------------------------------------------------------------------------


def _residuals():
    import torchphysics as tp
    lap, grad = tp.utils.laplacian, tp.utils.grad

    def r_dirichlet(u):
        return u - 0.3

    def r_source(u, x, t):
        return u - torch.sin(2.0 * x) * (0.5 + t)

    def r_datafn(u, f):
        return u - f

    def r_lap(u, x):
        return lap(u, x) + 1.0

    def r_heat(u, x, t):
        return grad(u, t) - 0.3 * lap(u, x)

    def r_lap_D(u, x, D):
        return lap(u, x) * D - 1.0

    def r_heat_D(u, x, t, D):
        return grad(u, t) - D * lap(u, x)

    def r_adv_k(u, x, t, k):
        return k[:, :1] * grad(u, x) + grad(u, t) - k[:, 1:] * u

    def r_scale_D(u, D):
        return D * u - 0.5

    def p_left_right(u_left, u_right):
        return u_left - u_right

    def p_left_right_D(u_left, u_right, D):
        return D * (u_left - u_right) + 0.1 * (D - 1.0)

    def o_fit(u, f):
        return u - f

    def o_fit_x(u, x, f):
        return grad(u, x) - f

    return {k: v for k, v in locals().items() if callable(v) and k[:2] in ("r_", "p_", "o_")}


RES_PARAM = {"r_lap_D": "D", "r_heat_D": "D", "r_scale_D": "D", "r_adv_k": "k", "p_left_right_D": "D"}
RES_PLAIN = ["r_dirichlet", "r_source", "r_datafn", "r_lap", "r_heat"]
RES_DERIV = {"r_lap", "r_heat", "r_lap_D", "r_heat_D", "r_adv_k", "o_fit_x"}


def _data_f(x, t):
    return torch.cos(1.5 * x) * t + 0.2


def _target(x, t):
    return torch.sin(1.3 * x + 0.4) * torch.exp(-t) + 0.1


# ---------------------------------------------------------------------------------------------
# RecordingCondition: a user-defined condition that logs what the Solver hands to it
# ---------------------------------------------------------------------------------------------

def recording_condition_class():
    import torchphysics as tp

    class RecordingCondition(tp.conditions.Condition):
        """loss = 0.1 * mean(u(P)^2) + sum((own - 1)^2) / (1 + iteration); logs (iteration, device, grad mode)."""

        def __init__(self, module, sampler, name, weight=1.0, track_gradients=True, uses_iteration=True):
            super().__init__(name=name, weight=weight, track_gradients=track_gradients)
            self.module = module
            self.sampler = sampler
            self.own = torch.nn.Parameter(torch.tensor([0.3, -0.2]))
            self.uses_iteration = uses_iteration
            self.log_calls = []

        def forward(self, device="cpu", iteration=None):
            self.log_calls.append((iteration, str(device), bool(torch.is_grad_enabled())))
            it = iteration if (isinstance(iteration, int) and self.uses_iteration) else 0
            u = self.module(self.sampler.sample_points(device=device)).as_tensor
            return 0.1 * torch.mean(u ** 2) + torch.sum((self.own - 1.0) ** 2) / (1.0 + it)

    return RecordingCondition


# ---------------------------------------------------------------------------------------------
# spec -> world
# ---------------------------------------------------------------------------------------------

class World:
    pass


def _sampler(tp, dom, s):
    """s = {"where": inner|xbound|t0, "n": [n1, n2], "static": bool}"""
    Ix, It = dom
    n1, n2 = s["n"]
    if s.get("random"):
        # draws from the GLOBAL torch RNG at every call (non-static) or at its first call (static); both runs reseed
        # the global RNG identically at the start of every training step (spec "reseed")
        smp = tp.samplers.RandomUniformSampler(Ix * It, n_points=n1 * n2)
        if s.get("static", False):
            smp = smp.make_static()
        return smp
    if s["where"] == "inner":
        a, b = tp.samplers.GridSampler(Ix, n1), tp.samplers.GridSampler(It, n2)
    elif s["where"] == "xbound":
        a, b = tp.samplers.GridSampler(Ix.boundary, 2), tp.samplers.GridSampler(It, n2)
    else:
        a, b = tp.samplers.GridSampler(Ix, n1), tp.samplers.GridSampler(It.boundary_left, 1)
    smp = a * b
    if s.get("static", True):
        smp = smp.make_static()
    return smp


def _model(tp, w, m):
    from torchphysics.problem.spaces import Space, FunctionSpace
    XT, U = w.XT, w.U
    kind = m["kind"]
    if kind == "FCN":
        return tp.models.FCN(XT, U, hidden=tuple(m["hidden"]))
    if kind == "QRES":
        return tp.models.QRES(XT, U, hidden=tuple(m["hidden"]))
    if kind == "DeepRitz":
        return tp.models.DeepRitzNet(XT, U, width=m["width"], depth=m["depth"])
    if kind == "SeqNorm":
        return tp.models.Sequential(tp.models.NormalizationLayer(w.Ix * w.It),
                                    tp.models.FCN(XT, U, hidden=tuple(m["hidden"])))
    if kind == "DeepONet":
        fspace = FunctionSpace(w.It, Space({"f": 1}))
        disc = tp.samplers.GridSampler(w.It, m["n_disc"]).make_static()
        trunk = tp.models.FCTrunkNet(XT, hidden=tuple(m["trunk_hidden"]))
        branch = tp.models.FCBranchNet(fspace, disc, hidden=tuple(m["branch_hidden"]))
        net = tp.models.DeepONet(trunk, branch, U, output_neurons=m["K"])
        Kdom = tp.domains.Interval(Space({"a": 1}), 0.5, 2.0)
        psmp = tp.samplers.GridSampler(Kdom, m["n_fn"])
        if m.get("fn_static", True):
            psmp = psmp.make_static()

        def fam(a, t):
            return a * torch.sin(2.0 * t) + 0.3 * a * a

        net._c07_fset = tp.domains.CustomFunctionSet(fspace, psmp, fam)
        return net
    raise ValueError(kind)


def _condition(tp, w, c, name):
    kind = c["kind"]
    res = _residuals()
    model = w.models[c["model"]] if c.get("model") is not None else None
    par = {}
    if c.get("param") is not None:
        par = {"parameter": w.params[c["param"]]}
    wt = c.get("weight", 1.0)
    if kind == "pinn":
        kw = dict(par)
        if c["res"] == "r_datafn":
            kw["data_functions"] = {"f": _data_f}
        if c.get("sampler_of") is not None:
            smp = w.train[c["sampler_of"]].sampler          # the very sampler object of a training condition
        else:
            smp = _sampler(tp, (w.Ix, w.It), c["sampler"])
        return tp.conditions.PINNCondition(model, smp, res[c["res"]], name=name, weight=wt, **kw)
    if kind == "adaptive":
        kw = dict(par)
        if c["res"] == "r_datafn":
            kw["data_functions"] = {"f": _data_f}
        return tp.conditions.AdaptiveWeightsCondition(model, _sampler(tp, (w.Ix, w.It), c["sampler"]), res[c["res"]],
                                                      name=name, weight=wt, **kw)
    if kind == "periodic":
        nps = tp.samplers.GridSampler(w.It, c["sampler"]["n"][1])
        if c["sampler"].get("static", True):
            nps = nps.make_static()
        return tp.conditions.PeriodicCondition(model, w.Ix, res[c["res"]], non_periodic_sampler=nps,
                                               name=name, weight=wt, **par)
    if kind == "data":
        from torchphysics.problem.spaces import Points
        n = c["n_data"]
        g = torch.Generator().manual_seed(c["data_seed"])
        xt = torch.rand((n, 2), generator=g)
        inp = Points(xt, w.XT)
        tgt_ = _target(xt[:, :1], xt[:, 1:])
        if c.get("inf_row") is not None:
            tgt_ = tgt_.clone()
            tgt_[int(c["inf_row"]) % n] = float("inf")      # a corrupted datum: that mini-batch has a non-finite gradient
        out = Points(tgt_, w.U)
        dl = tp.utils.PointsDataLoader((inp, out), batch_size=c["batch"], shuffle=False)
        return tp.conditions.DataCondition(model, dl, norm=c["norm"], root=c.get("root", 1.0),
                                           use_full_dataset=c.get("full", False), name=name, weight=wt)
    if kind == "hpcm":
        # hybrid condition: |state(x) - y - correction(state(x), x)| on data; the correction network is reached through the
        # user's correction function (and the condition's module_corr argument)
        from torchphysics.problem.spaces import Points
        corr = w.models[c["corr_model"]]
        n = c["n_data"]
        g = torch.Generator().manual_seed(c["data_seed"])
        xt = torch.rand((n, 2), generator=g)
        inp = Points(xt, w.XT)
        out = Points(_target(xt[:, :1], xt[:, 1:]), w.U)
        dl = tp.utils.PointsDataLoader((inp, out), batch_size=c["batch"], shuffle=False)

        def correction_fn(u, x, t):
            return corr(Points(torch.cat([x, t], dim=-1), w.XT))
        return tp.conditions.HPCMCondition(model, corr, dl, correction_fn, norm=c["norm"], root=c.get("root", 1.0),
                                           use_full_dataset=c.get("full", False), name=name, weight=wt)
    if kind == "param":
        p = w.params[c["param"]]
        pname = w.spec["params"][c["param"]]["name"]
        tgt = c.get("target", 1.0)
        if pname == "D":
            def pen(D):
                return torch.sum((D - tgt) ** 2)
        else:
            def pen(k):
                return torch.sum((k - tgt) ** 2)
        return tp.conditions.ParameterCondition(p, pen, weight=wt, name=name)
    if kind == "pideeponet":
        return tp.conditions.PIDeepONetCondition(model, model._c07_fset, _sampler(tp, (w.Ix, w.It), c["sampler"]),
                                                 res[c["res"]], name=name, weight=wt,
                                                 track_gradients=c.get("track_gradients", True))
    if kind == "recording":
        RC = recording_condition_class()
        return RC(model, _sampler(tp, (w.Ix, w.It), c["sampler"]), name, weight=wt,
                  uses_iteration=c.get("uses_iteration", True))
    raise ValueError(kind)


def build_base(spec):
    """spaces, domains, models and inverse-problem Parameters of a world (no conditions yet)"""
    import torchphysics as tp
    from torchphysics.problem.spaces import Space
    w = World()
    w.spec = spec
    torch.manual_seed(spec["seed"])
    w.X, w.T, w.U = Space({"x": 1}), Space({"t": 1}), Space({"u": 1})
    w.XT = w.X * w.T
    w.Ix = tp.domains.Interval(w.X, 0.0, 1.0)
    w.It = tp.domains.Interval(w.T, 0.0, 0.8)
    w.models = [_model(tp, w, m) for m in spec["models"]]
    w.params = []
    for p in spec.get("params", []):
        sp = Space({p["name"]: len(p["init"])})
        w.params.append(tp.models.Parameter(init=p["init"], space=sp))
    w.train, w.val = [], []
    return w


def build_conditions(w, cond_specs, prefix):
    """live condition objects for the given specs, sharing the models / Parameters of the world `w`"""
    import torchphysics as tp
    if w.spec.get("dup_names"):
        # several conditions share one name (e.g. all left at their default name): only the log keys coincide
        return [_condition(tp, w, c, "%s_%s" % (prefix, "cond" if w.spec["dup_names"] == "all" else c["kind"]))
                for i, c in enumerate(cond_specs)]
    return [_condition(tp, w, c, "%s%d_%s" % (prefix, i, c["kind"])) for i, c in enumerate(cond_specs)]


def build(spec):
    """spec -> World with .train (conditions), .val, .models, .params; deterministic in spec["seed"]."""
    w = build_base(spec)
    w.train = build_conditions(w, spec["conds"], "c")
    w.val = build_conditions(w, spec.get("vals", []), "v")
    return w


def reseed_base(spec, stage):
    """seed of the global torch RNG at the start of step 0 of a stage (None: the world does not reseed)"""
    if not spec.get("reseed"):
        return None
    return (int(spec["seed"]) + 7919 * (stage + 1)) % (2**31 - 1)


def world_learnables(w):
    """every learnable tensor of the shared objects of a world (models and Parameters), by the harness' own walk"""
    return reach_learnables(list(w.models) + list(w.params))


# ---------------------------------------------------------------------------------------------
# optimizer / scheduler from the spec (plain torch classes; used by the reference loop and to fill the
# library's OptimizerSetting)
# ---------------------------------------------------------------------------------------------

def opt_class(name):
    return getattr(torch.optim, name)


def opt_args(ospec):
    """JSON lists (betas) -> tuples"""
    return {k: (tuple(v) if isinstance(v, list) else v) for k, v in ospec.get("args", {}).items()}


def sched_class(name):
    return getattr(torch.optim.lr_scheduler, name)


# ---------------------------------------------------------------------------------------------
# the harness' own reachability walk
# ---------------------------------------------------------------------------------------------

_MODULE_INTERNAL = None
_ATOMS = (str, bytes, int, float, bool, complex, type(None), type, types.ModuleType, np.ndarray, np.generic,
          torch.dtype, torch.device, torch.Generator)


def reach_learnables(roots, max_nodes=200000):
    """Ordered list [(path, nn.Parameter)] of every tensor with requires_grad that is an nn.Parameter and can be
    reached from `roots` by following attributes, containers, closures and bound methods.  For an nn.Module the
    registered parameters and sub-modules are followed first (registration order), then every other attribute --
    so unregistered learnable tensors are found as well."""
    global _MODULE_INTERNAL
    if _MODULE_INTERNAL is None:
        _MODULE_INTERNAL = set(vars(torch.nn.Module()).keys()) - {"_parameters", "_modules"}
    seen, out = set(), []
    count = [0]

    def visit(o, path):
        if isinstance(o, _ATOMS):
            return
        if id(o) in seen:
            return
        seen.add(id(o))
        count[0] += 1
        if count[0] > max_nodes:
            raise RuntimeError("reachability walk exceeded %d nodes" % max_nodes)
        if isinstance(o, torch.Tensor):
            if isinstance(o, torch.nn.Parameter) and o.requires_grad and o.numel() > 0:
                out.append((path, o))
            return
        if isinstance(o, dict):
            for k, v in o.items():
                visit(v, "%s[%r]" % (path, k))
            return
        if isinstance(o, (list, tuple, set, frozenset)):
            for i, v in enumerate(o):
                visit(v, "%s[%d]" % (path, i))
            return
        if isinstance(o, types.MethodType):
            visit(o.__self__, path + ".__self__")
            visit(o.__func__, path + ".__func__")
            return
        if isinstance(o, functools.partial):
            visit(o.func, path + ".func")
            visit(o.args, path + ".args")
            visit(o.keywords, path + ".keywords")
            return
        if isinstance(o, types.FunctionType):
            for i, cell in enumerate(o.__closure__ or ()):
                try:
                    visit(cell.cell_contents, "%s.<closure %s>" % (path, o.__code__.co_freevars[i]))
                except ValueError:
                    pass
            visit(o.__defaults__, path + ".__defaults__")
            visit(o.__kwdefaults__, path + ".__kwdefaults__")
            return
        if isinstance(o, (types.BuiltinFunctionType, types.GeneratorType)):
            return
        d = getattr(o, "__dict__", None)
        if not isinstance(d, dict):
            return
        if isinstance(o, torch.nn.Module):
            for k, v in d.get("_parameters", {}).items():
                visit(v, "%s.%s" % (path, k))
            for k, v in d.get("_modules", {}).items():
                visit(v, "%s.%s" % (path, k))
            for k, v in d.items():
                if k in _MODULE_INTERNAL or k in ("_parameters", "_modules", "log_calls"):
                    continue
                visit(v, "%s.%s" % (path, k))
            return
        if isinstance(o, torch.utils.data.DataLoader):
            visit(getattr(o, "dataset", None), path + ".dataset")
            return
        for k, v in d.items():
            visit(v, "%s.%s" % (path, k))

    for i, r in enumerate(roots):
        visit(r, "cond%d" % i)
    return out


def clone_state(params):
    return [p.detach().clone() for p in params]


def canon_opt_state(opt, params):
    """optimizer state per reachable parameter (in walk order): list of {key: tensor|float}; plus group lrs."""
    st = []
    for p in params:
        e = opt.state.get(p, {})
        d = {}
        for k, v in e.items():
            if isinstance(v, torch.Tensor):
                d[k] = v.detach().clone()
            elif isinstance(v, (int, float)):
                d[k] = float(v)
            elif v is None:
                d[k] = None
        st.append(d)
    lrs = [float(g["lr"]) for g in opt.param_groups]
    return st, lrs


def lbfgs_state(opt):
    """LBFGS keeps one state entry for the first parameter: summarise the numeric / tensor items."""
    out = {}
    for p, e in opt.state.items():
        for k, v in e.items():
            if isinstance(v, torch.Tensor):
                out[k] = v.detach().clone()
            elif isinstance(v, (int, float)):
                out[k] = float(v)
    return out
