"""Reference model for C12: a table with named column groups.

Independent of the library: an ordered list of (name, dim) plus a float64 numpy array whose last
axis holds the columns; every leading axis is a batch axis.  Row selection works on an array of
flat row numbers with `np.take` / `reshape` one axis at a time ("orthogonal" semantics: every index
component acts on its own batch axis; an int drops the axis, a slice keeps it, an index array
replaces it by the array's axes, a boolean mask replaces the axes it covers by one axis that lists
the True positions in row-major order).  Column selection is done separately from the running sum
of the dims, so rows and columns can never interact.

Index expressions are described by JSON-able specs (see `describe` in checks/C12.py):
  comp   {"k":"int","i":i} | {"k":"slice","a":a,"b":b,"s":s} | {"k":"list","idx":[..]} |
         {"k":"tensor","idx":nested,"lib":"torch"|"numpy"} | {"k":"mask","m":nested,"lib":..} |
         {"k":"ellipsis"}
  colsel {"k":"name","n":name} | {"k":"names","ns":[..],"as":"list"|"tuple"} |
         {"k":"nslice","a":name|None,"b":name|None,"s":step|None} | {"k":"all"}
"""
import numpy as np


class Rejected(Exception):
    """The reference says this expression has no meaning on this table (API must reject it)."""


class RefSpace:
    def __init__(self, items):
        self.items = [(str(n), int(d)) for n, d in items]
        assert len({n for n, _ in self.items}) == len(self.items)

    @property
    def names(self):
        return [n for n, _ in self.items]

    @property
    def dim(self):
        return sum(d for _, d in self.items)

    def dim_of(self, name):
        for n, d in self.items:
            if n == name:
                return d
        raise KeyError(name)

    def has(self, name):
        return any(n == name for n, _ in self.items)

    def product(self, other):
        """ordered product; equal names are merged (dims add) at the position of the first."""
        out = [[n, d] for n, d in self.items]
        pos = {n: i for i, (n, _) in enumerate(out)}
        for n, d in other.items:
            if n in pos:
                out[pos[n]][1] += d
            else:
                pos[n] = len(out)
                out.append([n, d])
        return RefSpace(out)

    def contains(self, other):
        """multiset inclusion (consistent with merging equal names in products); order-free."""
        mine = dict(self.items)
        return all(n in mine and d <= mine[n] for n, d in other.items)

    def select(self, names):
        if len(set(names)) != len(names):
            raise Rejected("duplicate names")
        for n in names:
            if not self.has(n):
                raise Rejected("unknown name %r" % (n,))
        return RefSpace([(n, self.dim_of(n)) for n in names])

    def name_slice(self, a, b, s):
        names = self.names
        for n in (a, b):
            if n is not None and n not in names:
                raise Rejected("unknown name %r" % (n,))
        ia = names.index(a) if a is not None else None
        ib = names.index(b) if b is not None else None
        if s == 0:
            raise Rejected("zero step")
        return self.select(names[slice(ia, ib, s)])

    def same(self, other):
        """order-sensitive equality"""
        return self.items == other.items

    def offsets(self):
        out, start = {}, 0
        for n, d in self.items:
            out[n] = (start, start + d)
            start += d
        return out

    def colsel(self, sel):
        """-> (list of column numbers, RefSpace) for a column selector spec."""
        if sel is None or sel["k"] == "all":
            sub = RefSpace(self.items)
        elif sel["k"] == "name":
            sub = self.select([sel["n"]])
        elif sel["k"] == "names":
            sub = self.select(list(sel["ns"]))
        elif sel["k"] == "nslice":
            sub = self.name_slice(sel.get("a"), sel.get("b"), sel.get("s"))
        else:
            raise Rejected("not a column selector: %r" % (sel,))
        off = self.offsets()
        cols = []
        for n in sub.names:
            a, b = off[n]
            cols.extend(range(a, b))
        return cols, sub

    def json(self):
        return [[n, d] for n, d in self.items]


def mask_of(comp):
    m = np.asarray(comp["m"], dtype=bool)
    return m.reshape(tuple(comp["shape"])) if "shape" in comp else m


def _consumes(comp):
    k = comp["k"]
    if k == "mask":
        return mask_of(comp).ndim
    if k == "ellipsis":
        return 0
    return 1


def select_rows(batch_shape, comps):
    """-> integer array of flat row numbers laid out as the batch axes of the result."""
    nb = len(batch_shape)
    A = np.arange(int(np.prod(batch_shape, dtype=np.int64)), dtype=np.int64).reshape(tuple(batch_shape))
    n_ell = sum(1 for c in comps if c["k"] == "ellipsis")
    if n_ell > 1:
        raise Rejected("two ellipses")
    used = sum(_consumes(c) for c in comps)
    if used > nb:
        raise Rejected("too many indices")
    ax = 0
    for c in comps:
        k = c["k"]
        if k == "ellipsis":
            ax += nb - used
        elif k == "int":
            n = A.shape[ax]
            i = int(c["i"])
            if not -n <= i < n:
                raise Rejected("index out of range")
            A = np.take(A, i % n, axis=ax)
        elif k == "slice":
            s = c.get("s")
            if s is not None and s <= 0:
                raise Rejected("non-positive step")
            A = A[(slice(None),) * ax + (slice(c.get("a"), c.get("b"), s),)]
            ax += 1
        elif k in ("list", "tensor"):
            idx = np.asarray(c["idx"], dtype=np.int64)
            if k == "list" and idx.ndim != 1:
                raise Rejected("nested list")
            n = A.shape[ax]
            if idx.size and (idx.min() < -n or idx.max() >= n):
                raise Rejected("index out of range")
            if idx.size == 0:
                idx = idx.reshape(idx.shape if idx.ndim else (0,))
            A = np.take(A, idx % max(n, 1) if idx.size else idx, axis=ax)
            ax += idx.ndim
        elif k == "mask":
            m = mask_of(c)
            r = m.ndim
            if tuple(A.shape[ax:ax + r]) != tuple(m.shape):
                raise Rejected("mask shape")
            A = A.reshape(A.shape[:ax] + (int(np.prod(m.shape, dtype=np.int64)),) + A.shape[ax + r:])
            A = np.take(A, np.nonzero(m.reshape(-1))[0], axis=ax)
            ax += 1
        else:
            raise Rejected("unknown component %r" % (k,))
    return A


class RefTable:
    def __init__(self, space, arr):
        self.space = space if isinstance(space, RefSpace) else RefSpace(space)
        self.arr = np.array(arr, dtype=np.float64)
        assert self.arr.ndim >= 2 and self.arr.shape[-1] == self.space.dim, (self.arr.shape, self.space.items)

    # ---- observers -------------------------------------------------------------------------
    @property
    def batch(self):
        return tuple(self.arr.shape[:-1])

    @property
    def nb(self):
        return self.arr.ndim - 1

    @property
    def length(self):
        return int(np.prod(self.batch, dtype=np.int64))

    @property
    def isempty(self):
        return self.length == 0 and self.space.dim == 0

    def coordinates(self):
        off = self.space.offsets()
        return [(n, self.arr[..., off[n][0]:off[n][1]]) for n in self.space.names]

    def copy(self):
        return RefTable(RefSpace(self.space.items), self.arr.copy())

    # ---- constructors ------------------------------------------------------------------------
    @classmethod
    def from_coordinates(cls, pairs):
        if not pairs:
            return cls(RefSpace([]), np.zeros((0, 0)))
        arrs = [np.asarray(a, dtype=np.float64) for _, a in pairs]
        return cls(RefSpace([(n, a.shape[-1]) for (n, _), a in zip(pairs, arrs)]), np.concatenate(arrs, axis=-1))

    # ---- selection -----------------------------------------------------------------------------
    def getitem(self, comps, colsel):
        cols, sub = self.space.colsel(colsel)
        R = select_rows(self.batch, comps)
        flat = self.arr.reshape(self.length, self.space.dim)
        out = flat[R.reshape(-1)][:, cols].reshape(R.shape + (len(cols),)) if cols else np.zeros(R.shape + (0,))
        if out.ndim == 1:                      # a single row is still a table with one row
            out = out[None]
        return RefTable(sub, out)

    def setitem(self, comps, colsel, value):
        cols, sub = self.space.colsel(colsel)
        if not sub.same(value.space):
            raise Rejected("space of the value differs")
        R = select_rows(self.batch, comps)
        shape = R.shape + (len(cols),)
        if len(shape) == 1:
            shape = (1,) + shape
        if tuple(value.arr.shape) != tuple(shape):
            raise Rejected("value shape")
        r = R.reshape(-1)
        if len(set(r.tolist())) != r.size:
            raise Rejected("duplicate rows in assignment")
        flat = self.arr.reshape(self.length, self.space.dim).copy()
        v = value.arr.reshape(r.size, len(cols))
        for j, c in enumerate(cols):
            flat[r, c] = v[:, j]
        self.arr = flat.reshape(self.arr.shape)

    # ---- combination ---------------------------------------------------------------------------
    def join(self, other):
        if self.isempty:
            return other.copy()
        if other.isempty:
            return self.copy()
        if set(self.space.names) & set(other.space.names):
            raise Rejected("names not disjoint")
        if self.batch != other.batch:
            raise Rejected("batch shapes differ")
        return RefTable(self.space.product(other.space), np.concatenate([self.arr, other.arr], axis=-1))

    def rowcat(self, other):
        if self.isempty:
            return other.copy()
        if other.isempty:
            return self.copy()
        if not self.space.same(other.space):
            raise Rejected("spaces differ")
        if self.batch[1:] != other.batch[1:]:
            raise Rejected("trailing batch axes differ")
        return RefTable(self.space, np.concatenate([self.arr, other.arr], axis=0))

    def repeat(self, reps):
        reps = [int(r) for r in reps]
        if len(reps) > self.nb or any(r < 0 for r in reps):
            raise Rejected("repeat pattern")
        full = tuple(reps) + (1,) * (self.arr.ndim - len(reps))
        return RefTable(self.space, np.tile(self.arr, full))

    def unsqueeze(self, dim):
        nb = self.nb
        if not -(nb + 1) <= dim <= nb:
            raise Rejected("axis out of range")
        if dim < 0:
            dim += nb + 1
        return RefTable(self.space, self.arr.reshape(self.batch[:dim] + (1,) + self.batch[dim:] + (self.space.dim,)))

    def arith(self, op, other, f32):
        if not self.space.same(other.space):
            raise Rejected("spaces differ")
        if self.arr.shape != other.arr.shape:
            raise Rejected("shapes differ")
        a, b = self.arr, other.arr
        with np.errstate(all="ignore"):
            out = {"add": np.add, "sub": np.subtract, "mul": np.multiply, "div": np.divide,
                   "pow": np.power}[op](a, b)
        if f32:
            out = out.astype(np.float32).astype(np.float64)
        return RefTable(self.space, out)

    def equals(self, other):
        return self.space.same(other.space) and self.arr.shape == other.arr.shape and bool(
            np.array_equal(self.arr, other.arr))


def self_validate():
    """Small hand-computed facts; a failure means the reference cannot be trusted."""
    S = RefSpace([("x", 1), ("y", 2), ("t", 1)])
    T = RefTable(S, np.arange(24.0).reshape(2, 3, 4))
    g = T.getitem([{"k": "int", "i": 0}, {"k": "int", "i": 1}], None)
    assert g.arr.tolist() == [[4.0, 5.0, 6.0, 7.0]]
    g = T.getitem([{"k": "ellipsis"}], {"k": "names", "ns": ["t", "x"]})
    assert g.space.items == [("t", 1), ("x", 1)] and g.arr[1, 2].tolist() == [23.0, 20.0]
    g = T.getitem([{"k": "slice", "a": None, "b": None, "s": None}, {"k": "list", "idx": [2, 0]}],
                  {"k": "nslice", "a": "y", "b": None, "s": None})
    assert g.arr.shape == (2, 2, 3) and g.arr[1, 0].tolist() == [21.0, 22.0, 23.0]
    g = T.getitem([{"k": "mask", "m": [[True, False, True], [False, False, True]]}], {"k": "name", "n": "y"})
    assert g.arr.tolist() == [[1.0, 2.0], [9.0, 10.0], [21.0, 22.0]]
    g = T.getitem([{"k": "int", "i": 0}, {"k": "ellipsis"}], None)
    assert g.arr.shape == (3, 4)
    P = RefSpace([("x", 1), ("y", 2)]).product(RefSpace([("y", 1), ("z", 3)]))
    assert P.items == [("x", 1), ("y", 3), ("z", 3)] and P.dim == 7
    assert RefSpace([("x", 2)]).contains(RefSpace([("x", 1)])) and not RefSpace([("x", 1)]).contains(RefSpace([("x", 2)]))
    assert not RefSpace([("x", 1), ("y", 1)]).same(RefSpace([("y", 1), ("x", 1)]))
    assert T.repeat([2]).arr.shape == (4, 3, 4) and T.repeat([2]).arr[2, 0].tolist() == [0.0, 1.0, 2.0, 3.0]
    assert T.unsqueeze(-1).arr.shape == (2, 3, 1, 4) and T.unsqueeze(0).arr.shape == (1, 2, 3, 4)
    U = T.copy()
    U.setitem([{"k": "int", "i": 1}, {"k": "int", "i": 0}], {"k": "name", "n": "t"}, RefTable([("t", 1)], [[-1.0]]))
    assert U.arr[1, 0].tolist() == [12.0, 13.0, 14.0, -1.0] and U.arr.sum() == T.arr.sum() - 16.0
    return True
