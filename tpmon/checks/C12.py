"""C12 -- Points and Space behave as a table with named column groups.

Lock-step model-based monitor: a seeded history of public operations is executed on the real
`Points` / `Space` objects and on the independent reference table of `tpmon/c12_reftable.py`
(ordered (name, dim) list + float64 array).  After every operation the result and every live
object are compared: as_tensor (shape, values), coordinates (order, shapes, values), space (ordered
names and dims), len / shape / isempty / dim / variables.  Index expressions the API rejects must
raise and leave every object unchanged.
"""
import numpy as np
import torch

from ..core import viol, exc_site, Inconclusive
from ..c12_reftable import RefSpace, RefTable, Rejected, self_validate, mask_of

LEVEL = "exploration"
RULE = ("seeded operation histories (quick 14-30, thorough 20-60 operations) over a pool of live Points/Space objects: "
        "random spaces of 1-5 variables with dims 1-3 in random order, 1-3 batch axes of length 1-5, float32/float64; "
        "operations: constructors (tensor / ndarray / nested list / from_coordinates), __getitem__ (bare int, slice, "
        "list, index tensor/ndarray, boolean mask over 1..nb axes, Ellipsis; short tuples; full tuples ending in a name, "
        "list/tuple of names, name slice or ':'; tuples with Ellipsis), __setitem__ with the same keys, two-step vs "
        "one-step selection, coordinates/from_coordinates round trip, join/joined (2-3 operands, empty operands), |, "
        "repeat, unsqueeze, + - * / **, ==, iteration, rejected forms, Space product / in / [] / dim / == / !=. "
        "A case is non-trivial when at least 8 operations were judged against the reference including one name "
        "selection; distinct = (batch axes, variables, largest dim, dtype, bucket of index-form classes seen)")
REQUIRED_REACH = ["Points._variable_slices", "Points._compute_slice", "Points.__getitem__", "Points.__setitem__",
                  "Points.coordinates", "Points.from_coordinates", "Points.join", "Points.joined", "Points.__or__",
                  "Points.repeat", "Points.unsqueeze", "Points.__eq__", "Points.__add__", "Points.__truediv__",
                  "Space.__mul__", "Space.__contains__", "Space.__getitem__", "Space.__eq__", "Space.dim"]
MIN_NONTRIVIAL = 20
ASSUMPTIONS = [
    "numpy boolean masks cover one axis only (torch itself mis-counts axes for multi-axis ndarray masks next to an Ellipsis)",
    "at most one list / index-tensor / mask component per index expression (several would need torch's broadcasting "
    "rules as part of the specification); slices have positive steps; index lists are non-empty",
    "a selection of a single row is a table with one row (the library's documented unsqueeze)",
    "sub-space test = multiset inclusion of (name, dim), independent of order (follows from merging equal names)",
    "values are dyadic rationals exactly representable in float32; + - * / are compared bit-exactly, ** within 1e-6 "
    "(float32) / 1e-12 (float64) relative",
    "__setitem__ is exercised on a fresh copy built with the public constructor, so aliasing between a slice view and "
    "its parent (torch view semantics, not part of the statement) is never judged",
    "a bare list index whose length equals the tensor rank and a trailing Ellipsis in a tuple of that length are "
    "rejected by the pinned API (TypeError); the monitor accepts either rejection-without-change or the correct "
    "result for them (STRICT_RANK_COINCIDENCE=False)",
]
CASE_TIMEOUT = 120
STRICT_RANK_COINCIDENCE = False

NAMES = ["x", "y", "t", "u", "v", "w", "k", "D", "p0", "alpha", "z", "r"]
MAX_VIOL_PER_CASE = 6


def REF_EMPTY():
    return RefTable(RefSpace([]), np.zeros((0, 0)))


def gen_cases(seed, tier):
    rng = np.random.default_rng([seed, 12])
    n = 300 if tier == "quick" else 20000
    cases = []
    for i in range(n):
        nv = int(rng.choice([1, 2, 3, 4, 5], p=[0.1, 0.25, 0.3, 0.2, 0.15]))
        names = [str(x) for x in rng.choice(NAMES, size=nv, replace=False)]
        dims = [int(rng.choice([1, 2, 3], p=[0.45, 0.35, 0.2])) for _ in range(nv)]
        nb = int(rng.choice([1, 2, 3], p=[0.45, 0.35, 0.2]))
        batch = [int(rng.integers(1, 6 if nb < 3 else 4)) for _ in range(nb)]
        if rng.random() < 0.5:
            batch[0] = int(rng.integers(2, 6))
        lo, hi = (14, 30) if tier == "quick" else (20, 60)
        cases.append({"space": [[a, b] for a, b in zip(names, dims)], "batch": batch,
                      "dtype": "float32" if rng.random() < 0.5 else "float64",
                      "n_ops": int(rng.integers(lo, hi + 1)), "seed": int(rng.integers(0, 2**31))})
    return cases


# ---------------------------------------------------------------------------------------------
# index expressions: spec -> python key, classification
# ---------------------------------------------------------------------------------------------

def _comp_obj(c):
    k = c["k"]
    if k == "int":
        return int(c["i"])
    if k == "slice":
        return slice(c.get("a"), c.get("b"), c.get("s"))
    if k == "list":
        return [int(i) for i in c["idx"]]
    if k == "tensor":
        a = np.asarray(c["idx"], dtype=np.int64)
        return torch.as_tensor(a) if c["lib"] == "torch" else a
    if k == "mask":
        a = mask_of(c)
        return torch.as_tensor(a) if c["lib"] == "torch" else a
    if k == "ellipsis":
        return Ellipsis
    if k == "raw":                                 # only used by rejected forms
        return c["v"]
    raise ValueError(k)


def _col_obj(s):
    k = s["k"]
    if k == "name":
        return s["n"]
    if k == "names":
        return list(s["ns"]) if s["as"] == "list" else tuple(s["ns"])
    if k == "nslice":
        return slice(s.get("a"), s.get("b"), s.get("s"))
    if k == "all":
        return slice(None)
    if k == "raw":
        return s["v"]
    raise ValueError(k)


def build_key(spec):
    if not spec["tuple"]:
        return _comp_obj(spec["comps"][0])
    items = [_comp_obj(c) for c in spec["comps"]]
    if spec.get("cols") is not None:
        items.append(_col_obj(spec["cols"]))
    return tuple(items)


def _kind(c):
    if c["k"] in ("tensor", "mask") and c.get("lib") == "numpy":
        return "np" + c["k"]
    if c["k"] == "mask":
        return "mask%d" % mask_of(c).ndim
    if c["k"] == "tensor":
        return "tensor%d" % np.asarray(c["idx"]).ndim
    return c["k"]


def classify(spec, nb):
    """-> (form, deviation_class | None, tolerated_rejection: bool)"""
    comps, cols = spec["comps"], spec.get("cols")
    kinds = [_kind(c) for c in comps]
    adv = any(c["k"] in ("list", "tensor", "mask") for c in comps)
    if not spec["tuple"]:
        form = "bare:" + kinds[0]
        tol = comps[0]["k"] == "list" and len(comps[0]["idx"]) == nb + 1
        return form, None, tol
    form = "tuple:" + ",".join(kinds) + ("|" + cols["k"] if cols is not None else "")
    dev = None
    tol = False
    if cols is None:
        if all(c["k"] == "int" for c in comps) and nb >= 2:
            dev = "short_int_tuple"
        if comps and comps[-1]["k"] == "ellipsis" and len(comps) == nb + 1:
            tol = True
    elif adv and cols["k"] in ("names", "nslice", "all"):
        dev = "adv_rows_multi_cols"
    return form, dev, tol


def _rand_int_comp(rng, n):
    return {"k": "int", "i": int(rng.integers(-n, n))}


def _rand_slice(rng, n):
    def end():
        return None if rng.random() < 0.35 else int(rng.integers(-n - 1, n + 2))
    return {"k": "slice", "a": end(), "b": end(), "s": [None, None, 1, 2, 3][int(rng.integers(0, 5))]}


def _rand_idx(rng, n, dup, two_d=False):
    if dup:
        L = int(rng.integers(1, 5))
        idx = [int(i) for i in rng.integers(-n, n, size=L)]
    else:
        L = int(rng.integers(1, n + 1))
        idx = [int(i) for i in rng.permutation(n)[:L]]
        idx = [i - n if rng.random() < 0.3 else i for i in idx]
    if two_d and len(idx) >= 2 and len(idx) % 2 == 0:
        idx = [idx[:len(idx) // 2], idx[len(idx) // 2:]]
    return idx


def _rand_comp(rng, shape, ax, kind, dup, max_mask_axes=1):
    """a component acting on batch axis `ax` of a table with batch `shape`; returns (comp, axes consumed)"""
    n = shape[ax]
    if n == 0 and kind in ("int", "list", "tensor"):
        kind = "slice"
    if kind == "int":
        return _rand_int_comp(rng, n), 1
    if kind == "slice":
        return _rand_slice(rng, n), 1
    if kind == "list":
        return {"k": "list", "idx": _rand_idx(rng, n, dup)}, 1
    if kind == "tensor":
        return {"k": "tensor", "idx": _rand_idx(rng, n, dup, two_d=dup and rng.random() < 0.15),
                "lib": "torch" if rng.random() < 0.7 else "numpy"}, 1
    if kind == "mask":
        r = int(rng.integers(1, max(1, min(max_mask_axes, len(shape) - ax)) + 1))
        m = rng.random(tuple(shape[ax:ax + r])) < 0.55
        # numpy masks over several axes next to an Ellipsis trip over a torch conversion quirk (not the library)
        return {"k": "mask", "m": m.tolist(), "shape": list(m.shape), "lib": "torch" if (r > 1 or rng.random() < 0.7) else "numpy"}, r
    raise ValueError(kind)


def _rand_cols(rng, space, allow_all=True):
    names = space.names
    u = rng.random()
    if u < 0.3 or len(names) == 0:
        if len(names) == 0:
            return {"k": "all"}
        return {"k": "name", "n": str(rng.choice(names))}
    if u < 0.65:
        L = int(rng.integers(1, len(names) + 1))
        ns = [str(x) for x in rng.permutation(names)[:L]]
        return {"k": "names", "ns": ns, "as": "list" if rng.random() < 0.6 else "tuple"}
    if u < 0.88 or not allow_all:
        a = None if rng.random() < 0.4 else str(rng.choice(names))
        b = None if rng.random() < 0.4 else str(rng.choice(names))
        s = [None, None, None, 1, 2, -1][int(rng.integers(0, 6))]
        return {"k": "nslice", "a": a, "b": b, "s": s}
    return {"k": "all"}


def _cols_for(rng, space, adv):
    """list/mask/tensor rows combined with several column groups is a class of its own (the pinned tree deviates
    there, see deviation_class adv_rows_multi_cols); it is kept at a low rate so histories stay informative"""
    if adv and space.names and rng.random() < 0.8:
        return {"k": "name", "n": str(rng.choice(space.names))}
    return _rand_cols(rng, space)


_BATCH_KINDS = ["int", "slice", "list", "tensor", "mask"]


def gen_key(rng, ref, dup=True, force_cols=False):
    shape, nb = ref.batch, ref.nb
    style = str(rng.choice(["bare", "short", "full", "ell"], p=[0.25, 0.2, 0.35, 0.2]))
    if force_cols and style in ("bare", "short"):
        style = "full" if rng.random() < 0.6 else "ell"
    have_adv = [False]

    def pick_kind(p_adv=0.4):
        if not have_adv[0] and rng.random() < p_adv:
            have_adv[0] = True
            return str(rng.choice(["list", "tensor", "mask"]))
        return "int" if rng.random() < 0.5 else "slice"

    if style == "bare":
        kind = str(rng.choice(["int", "slice", "list", "tensor", "mask", "ellipsis"], p=[0.2, 0.2, 0.2, 0.15, 0.2, 0.05]))
        if kind == "ellipsis":
            return {"tuple": False, "comps": [{"k": "ellipsis"}], "cols": None}
        c, _ = _rand_comp(rng, shape, 0, kind, dup, max_mask_axes=nb)
        return {"tuple": False, "comps": [c], "cols": None}
    if style == "short":
        comps, ax = [], 0
        L = int(rng.integers(1, nb + 1))
        while ax < nb and len(comps) < L:
            c, r = _rand_comp(rng, shape, ax, pick_kind(), dup, max_mask_axes=2)
            comps.append(c)
            ax += r
        if rng.random() < 0.12:
            comps.append({"k": "ellipsis"})
        return {"tuple": True, "comps": comps, "cols": None}
    if style == "full":
        comps = []
        for ax in range(nb):
            c, _ = _rand_comp(rng, shape, ax, pick_kind(0.3), dup, max_mask_axes=1)
            comps.append(c)
        return {"tuple": True, "comps": comps, "cols": _cols_for(rng, ref.space, have_adv[0])}
    # tuple with an Ellipsis that is not last; ends in a column selector
    n_before = int(rng.integers(0, nb + 1))
    comps, ax = [], 0
    while ax < n_before:
        c, r = _rand_comp(rng, shape, ax, pick_kind(0.3), dup, max_mask_axes=2)
        if ax + r > nb:
            break
        comps.append(c)
        ax += r
    comps.append({"k": "ellipsis"})
    n_after = int(rng.integers(0, nb - ax + 1))
    ax2 = nb - n_after
    while ax2 < nb:
        c, r = _rand_comp(rng, shape, ax2, pick_kind(0.3), dup, max_mask_axes=1)
        comps.append(c)
        ax2 += r
    return {"tuple": True, "comps": comps, "cols": _cols_for(rng, ref.space, have_adv[0])}


# ---------------------------------------------------------------------------------------------
# the lock-step world
# ---------------------------------------------------------------------------------------------

class World:
    def __init__(self, case):
        from torchphysics.problem.spaces import Points, Space, R1, R2, R3, Rn
        self.Points, self.Space = Points, Space
        self.R = (R1, R2, R3, Rn)
        self.case = case
        self.rng = np.random.default_rng(case["seed"])
        self.f32 = case["dtype"] == "float32"
        self.tdt = torch.float32 if self.f32 else torch.float64
        self.ndt = np.float32 if self.f32 else np.float64
        self.pool = []          # [lib Points, RefTable]
        self.spaces = []        # [lib Space, RefSpace]
        self.viol = []
        self.counters = {}
        self.judged = 0
        self.forms = set()
        self.name_sel = 0
        self.trace = []
        self._nviol = {}

    # ---- bookkeeping ------------------------------------------------------------------------
    def count(self, k, n=1):
        self.counters[k] = self.counters.get(k, 0) + n

    def flag(self, kind, msg, **mech):
        self.count("violations_" + kind)
        # known deviation classes must not use up the budget of everything else
        bucket = mech.get("deviation_class") or "other"
        self._nviol[bucket] = self._nviol.get(bucket, 0) + 1
        if self._nviol[bucket] <= (2 if bucket != "other" else MAX_VIOL_PER_CASE):
            mech.setdefault("dtype", self.case["dtype"])
            self.viol.append(viol(kind, msg, **mech))

    def note(self, op, **kw):
        if len(self.trace) < 10:
            d = {"op": op}
            d.update(kw)
            self.trace.append(d)

    # ---- building objects ------------------------------------------------------------------------
    def values(self, shape):
        size = int(np.prod(shape, dtype=np.int64))
        k = self.rng.choice(np.arange(1, 4001), size=size, replace=False) if size <= 4000 else np.arange(1, size + 1)
        sign = np.where(self.rng.random(size) < 0.3, -1.0, 1.0)
        return (k * sign / 8.0).reshape(shape).astype(np.float64)

    def make_space(self, items):
        """the library Space for ordered (name, dim) items, by one of the public routes"""
        R1, R2, R3, Rn = self.R
        route = int(self.rng.integers(0, 3)) if items else 0
        if route == 0:
            return self.Space({n: d for n, d in items})
        if route == 1:
            out = None
            for n, d in items:
                f = {1: R1, 2: R2, 3: R3}.get(d)
                s = f(n) if f is not None and self.rng.random() < 0.7 else Rn(n, d)
                out = s if out is None else out * s
            return out
        # product of single-dim factors with repeated names: R1('x')*R1('x') == R2('x') needs adjacency only
        out = None
        for n, d in items:
            for _ in range(d):
                out = R1(n) if out is None else out * R1(n)
        return out

    def fresh(self, items, batch, how=None):
        ref_space = RefSpace(items)
        arr = self.values(tuple(batch) + (ref_space.dim,))
        ref = RefTable(ref_space, arr)
        how = how or str(self.rng.choice(["tensor", "ndarray", "list", "coords"], p=[0.5, 0.15, 0.1, 0.25]))
        if ref_space.dim == 0 or int(np.prod(batch)) == 0:
            how = "tensor"
        if how == "tensor":
            lib = self.Points(torch.tensor(arr, dtype=self.tdt), self.make_space(items))
        elif how == "ndarray":
            lib = self.Points(arr.astype(self.ndt), self.make_space(items))
        elif how == "list":
            lib = self.Points(arr.tolist(), self.make_space(items), dtype=self.tdt)
        else:
            coords = {}
            for n, a in ref.coordinates():
                coords[n] = torch.tensor(a, dtype=self.tdt) if self.rng.random() < 0.7 else np.array(a, dtype=self.ndt)
            lib = self.Points.from_coordinates(coords)
        self.count("construct_" + how)
        return lib, ref

    def other_names(self, avoid, k):
        free = [n for n in NAMES if n not in avoid]
        out = [str(x) for x in self.rng.permutation(free)[:k]] if free else []
        i = 0
        while len(out) < k:               # the pool is exhausted (long chains of joins / products): synthetic names
            i += 1
            if "n%d" % i not in avoid and "n%d" % i not in out:
                out.append("n%d" % i)
        return out

    # ---- comparison ------------------------------------------------------------------------------
    def diff(self, lib, ref, tol=0.0):
        """list of discrepancies between a library Points and the reference table"""
        out = []
        try:
            items = [(str(k), int(v)) for k, v in lib.space.items()]
            if items != ref.space.items:
                out.append("space %s, expected %s" % (items, ref.space.items))
            if int(lib.space.dim) != ref.space.dim or int(lib.dim) != ref.space.dim:
                out.append("dim %s/%s, expected %d" % (lib.space.dim, lib.dim, ref.space.dim))
            if set(lib.variables) != set(ref.space.names):
                out.append("variables %s" % (lib.variables,))
            t = lib.as_tensor
            if tuple(t.shape) != tuple(ref.arr.shape):
                out.append("as_tensor shape %s, expected %s" % (tuple(t.shape), tuple(ref.arr.shape)))
                return out
            a = t.detach().cpu().numpy().astype(np.float64)
            if not self._same(a, ref.arr, tol):
                bad = np.argwhere(~self._close(a, ref.arr, tol))
                i = tuple(bad[0]) if len(bad) else ()
                out.append("as_tensor differs at %d of %d entries, first at %s: %r, expected %r"
                           % (len(bad), a.size, i, a[i] if len(bad) else None, ref.arr[i] if len(bad) else None))
            if tuple(lib.shape) != ref.batch:
                out.append("shape %s, expected %s" % (tuple(lib.shape), ref.batch))
            if int(len(lib)) != ref.length:
                out.append("len %s, expected %d" % (len(lib), ref.length))
            if bool(lib.isempty) != ref.isempty:
                out.append("isempty %s, expected %s" % (lib.isempty, ref.isempty))
            co = lib.coordinates
            rc = ref.coordinates()
            if list(co.keys()) != [n for n, _ in rc]:
                out.append("coordinates keys %s, expected %s" % (list(co.keys()), [n for n, _ in rc]))
            else:
                for n, ra in rc:
                    ca = co[n].detach().cpu().numpy().astype(np.float64)
                    if ca.shape != ra.shape:
                        out.append("coordinates[%r] shape %s, expected %s" % (n, ca.shape, ra.shape))
                    elif not self._same(ca, ra, tol):
                        out.append("coordinates[%r] differ from columns %s of the table" % (n, ref.space.offsets()[n]))
        except Exception as e:
            out.append("observer raised %r at %s" % (e, exc_site(e)))
        return out

    @staticmethod
    def _close(a, b, tol):
        if tol == 0.0:
            return (a == b) | (np.isnan(a) & np.isnan(b))
        return np.abs(a - b) <= tol * np.maximum(1.0, np.abs(b))

    def _same(self, a, b, tol):
        return a.shape == b.shape and bool(np.all(self._close(a, b, tol)))

    def check_pool(self, op, form=None):
        """no operation may change an object it was not asked to change"""
        keep = []
        for lib, ref in self.pool:
            d = self.diff(lib, ref)
            if d:
                self.flag("operand_changed", "after %s (%s) a live object no longer matches its table: %s"
                          % (op, form, "; ".join(d[:3])), op=op, form=form)
            else:
                keep.append([lib, ref])
        self.pool = keep
        for lib, ref in self.spaces:
            if [(str(k), int(v)) for k, v in lib.items()] != ref.items:
                self.flag("operand_changed", "after %s a live Space changed: %s, expected %s"
                          % (op, list(lib.items()), ref.items), op=op, form="space")

    def admit(self, lib, ref):
        if ref.nb <= 4 and ref.arr.size <= 3000:
            self.pool.append([lib, ref])
            if len(self.pool) > 5:
                self.pool.pop(int(self.rng.integers(1, len(self.pool) - 1)))

    def pick(self, pred=None):
        cands = [p for p in self.pool if pred is None or pred(p[1])]
        if not cands:
            return [None, None]
        return cands[int(self.rng.integers(0, len(cands)))]

    @staticmethod
    def witness(ref, spec):
        return " [table batch %s space %s; key %s]" % (ref.batch, ref.space.items, repr(build_key(spec)).replace("\n", " ")[:300])

    # ---- generic judged call ------------------------------------------------------------------------
    def judged_call(self, op, form, f_lib, f_ref, dev=None, tolerated=False, tol=0.0, admit=True, nb=None, wit=""):
        """run f_lib / f_ref; compare; returns (lib result | None, ref result | None)"""
        self.count("op_" + op)
        mech = {"op": op, "form": form, "nb": nb}
        if dev:
            mech["deviation_class"] = dev
        try:
            exp = f_ref()
        except Rejected as e:
            raise Inconclusive("generator produced an expression the reference rejects (%s %s): %s" % (op, form, e))
        try:
            got = f_lib()
        except Exception as e:
            if tolerated and not STRICT_RANK_COINCIDENCE:
                self.count("tolerated_rejection_rank_coincidence")
                self.check_pool(op, form)
                return None, None
            self.judged += 1
            self.flag("exception", "%s with %s raised %s: %s (at %s); the reference table gives batch %s, space %s%s"
                      % (op, form, type(e).__name__, str(e)[:120], exc_site(e), exp.batch, exp.space.items, wit),
                      exc=type(e).__name__, site=exc_site(e), **mech)
            self.check_pool(op, form)
            return None, None
        self.judged += 1
        if not isinstance(got, self.Points):
            self.flag("mismatch", "%s with %s returned %s, not Points" % (op, form, type(got).__name__), **mech)
            return None, None
        d = self.diff(got, exp, tol)
        if d:
            self.flag("mismatch", "%s with %s: %s%s" % (op, form, "; ".join(d[:3]), wit), what=d[0].split(" ")[0], **mech)
            self.check_pool(op, form)
            return None, None
        self.check_pool(op, form)
        if tol:
            exp = RefTable(exp.space, got.as_tensor.detach().numpy().astype(np.float64))
        if admit:
            self.admit(got, exp)
        return got, exp

    def expect_reject(self, op, form, f_lib, nb=None, extra_check=None):
        self.count("op_reject")
        self.count("reject_" + form)
        try:
            got = f_lib()
        except Exception as e:
            self.judged += 1
            self.count("rejected_as_required")
            self.check_pool("rejected " + op, form)
            if extra_check:
                extra_check()
            return type(e).__name__
        self.judged += 1
        desc = ""
        if isinstance(got, self.Points):
            desc = " and returned Points of shape %s in %s" % (tuple(got.as_tensor.shape), list(got.space.items()))
        self.flag("accepted_rejected_form", "%s with the rejected form %s did not raise%s" % (op, form, desc),
                  op=op, form=form, nb=nb)
        self.check_pool("rejected " + op, form)
        if extra_check:
            extra_check()
        return None

    # ---- operations ------------------------------------------------------------------------------
    def op_getitem(self):
        lib, ref = self.pick()
        spec = gen_key(self.rng, ref, dup=True)
        form, dev, tolr = classify(spec, ref.nb)
        key = build_key(spec)
        self.forms.add(form.split("|")[0].split(":")[0] + ("|" + spec["cols"]["k"] if spec.get("cols") else ""))
        self.count("form_" + form.split(":")[0] + ("_cols_" + spec["cols"]["k"] if spec.get("cols") else ""))
        for c in spec["comps"]:
            self.count("comp_" + _kind(c))
        if spec.get("cols") is not None and spec["cols"]["k"] != "all":
            self.name_sel += 1
        self.note("getitem", form=form, batch=list(ref.batch))
        self.judged_call("getitem", form, lambda: lib[key], lambda: ref.getitem(spec["comps"], spec.get("cols")),
                         dev=dev, tolerated=tolr, nb=ref.nb, wit=self.witness(ref, spec))

    def op_two_step(self):
        """slicing commutes with selection: p[rows][..., names] == p[rows, ..., names]"""
        lib, ref = self.pick(lambda r: r.space.dim > 0)
        if lib is None:
            return
        rows = gen_key(self.rng, ref, dup=True)
        while rows.get("cols") is not None:
            rows = gen_key(self.rng, ref, dup=True)
        form, dev, tolr = classify(rows, ref.nb)
        if dev or tolr or (not rows["tuple"] and rows["comps"][0]["k"] == "ellipsis"):
            return self.op_getitem()
        cols = _rand_cols(self.rng, ref.space, allow_all=False)
        self.name_sel += 1
        one = {"tuple": True, "comps": list(rows["comps"]) + ([] if any(c["k"] == "ellipsis" for c in rows["comps"])
                                                              else [{"k": "ellipsis"}]), "cols": cols}
        form1, dev1, _ = classify(one, ref.nb)
        exp = lambda: ref.getitem(rows["comps"], cols)
        krows, kone, kcols = build_key(rows), build_key(one), (Ellipsis, _col_obj(cols))
        self.note("two_step", rows=form, cols=cols["k"])
        self.count("law_slicing_commutes_with_selection")
        self.judged_call("getitem_two_step", form + " then ...|" + cols["k"], lambda: lib[krows][kcols], exp,
                         nb=ref.nb, admit=False, wit=self.witness(ref, rows) + " then " + repr(kcols))
        self.judged_call("getitem", form1, lambda: lib[kone], exp, dev=dev1, nb=ref.nb, wit=self.witness(ref, one))

    def op_setitem(self):
        lib, ref = self.pick(lambda r: r.length > 0)
        if lib is None:
            return
        spec = gen_key(self.rng, ref, dup=False)
        form, dev, tolr = classify(spec, ref.nb)
        key = build_key(spec)
        sel = ref.getitem(spec["comps"], spec.get("cols"))
        vlib, vref = self.fresh(sel.space.items, sel.batch, how="tensor")
        target = self.Points(lib.as_tensor.clone(), self.make_space(ref.space.items))
        tref = ref.copy()
        self.note("setitem", form=form, batch=list(ref.batch))
        if spec.get("cols") is not None and spec["cols"]["k"] != "all":
            self.name_sel += 1

        def f_lib():
            target[key] = vlib
            return target

        def f_ref():
            tref.setitem(spec["comps"], spec.get("cols"), vref)
            return tref
        self.judged_call("setitem", form, f_lib, f_ref, dev=dev, tolerated=tolr, nb=ref.nb, wit=self.witness(ref, spec))
        d = self.diff(vlib, vref)
        if d:
            self.flag("operand_changed", "the assigned value changed during __setitem__ (%s): %s" % (form, d[0]),
                      op="setitem", form=form)

    def op_roundtrip(self):
        lib, ref = self.pick(lambda r: r.space.dim > 0)
        if lib is None:
            return
        self.note("roundtrip", batch=list(ref.batch))
        self.count("law_from_coordinates_roundtrip")
        got, _ = self.judged_call("from_coordinates(coordinates)", "same order",
                                  lambda: self.Points.from_coordinates(dict(lib.coordinates)), lambda: ref.copy(),
                                  nb=ref.nb, admit=False)
        if got is not None:
            self.judged += 1
            try:
                same = got == lib
            except Exception as e:
                self.flag("exception", "from_coordinates(p.coordinates) == p raised %r" % e, op="eq", form="roundtrip",
                          exc=type(e).__name__, site=exc_site(e))
                same = True
            if same is not True:
                self.flag("mismatch", "from_coordinates(p.coordinates) == p gave %r" % (same,), op="eq", form="roundtrip")
        pairs = ref.coordinates()
        perm = [int(i) for i in self.rng.permutation(len(pairs))]

        def f_lib():
            c = lib.coordinates
            names = list(c.keys())
            return self.Points.from_coordinates({names[i]: c[names[i]].clone() for i in perm})
        self.judged_call("from_coordinates", "permuted order", f_lib,
                         lambda: RefTable.from_coordinates([pairs[i] for i in perm]), nb=ref.nb)

    def op_join(self):
        lib, ref = self.pick()
        k = int(self.rng.integers(1, 3))
        news = self.other_names(ref.space.names, 2 * k)
        if not news:                      # every name of the pool is already a column group of this table
            return self.op_getitem()
        k = min(k, len(news))
        parts = []
        for j in range(k):
            nv = 1 if len(news) < 2 + (k - 1 - j) or self.rng.random() < 0.6 else 2
            items = [(news.pop(), int(self.rng.choice([1, 2, 3]))) for _ in range(nv)]
            if self.rng.random() < 0.35 and ref.space.dim > 0:          # same total dim as the left part
                items = [(items[0][0], ref.space.dim)] if ref.space.dim <= 3 else items
            parts.append(self.fresh(items, ref.batch))
        E = self.Points.empty
        variant = str(self.rng.choice(["join", "joined", "assoc", "empty"], p=[0.35, 0.3, 0.2, 0.15]))
        self.note("join", variant=variant, parts=len(parts) + 1)
        if ref.isempty and variant in ("joined", "empty"):
            variant = "join"
        if variant == "join" or (variant == "assoc" and k == 1):
            o, r = parts[0]
            if self.rng.random() < 0.5:
                self.judged_call("join", "p.join(q)", lambda: lib.join(o), lambda: ref.join(r), nb=ref.nb)
            else:
                self.judged_call("join", "q.join(p)", lambda: o.join(lib), lambda: r.join(ref), nb=ref.nb)
        elif variant == "joined":
            libs = [lib] + [p[0] for p in parts]
            refs = [ref] + [p[1] for p in parts]
            order = [int(i) for i in self.rng.permutation(len(libs))]

            def f_ref():
                out = refs[order[0]]
                for i in order[1:]:
                    out = out.join(refs[i])
                return out.copy()
            self.judged_call("joined", "joined(%d parts)" % len(libs),
                             lambda: self.Points.joined(*[libs[i] for i in order]), f_ref, nb=ref.nb)
        elif variant == "assoc":
            (a, ra), (b, rb) = parts
            self.count("law_join_associative")
            exp = lambda: ref.join(ra).join(rb)
            self.judged_call("join", "(p.join(q)).join(r)", lambda: lib.join(a).join(b), exp, nb=ref.nb, admit=False)
            self.judged_call("join", "p.join(q.join(r))", lambda: lib.join(a.join(b)), exp, nb=ref.nb, admit=False)
            self.judged_call("joined", "joined(p,q,r)", lambda: self.Points.joined(lib, a, b), exp, nb=ref.nb)
        else:
            o, r = parts[0]
            which = int(self.rng.integers(0, 4))
            if which == 0:
                self.judged_call("join", "p.join(empty)", lambda: lib.join(E()), lambda: ref.join(REF_EMPTY()), nb=ref.nb, admit=False)
            elif which == 1:
                self.judged_call("join", "empty.join(p)", lambda: E().join(lib), lambda: REF_EMPTY().join(ref), nb=ref.nb, admit=False)
            elif which == 2:
                self.judged_call("joined", "joined(p,empty,q)", lambda: self.Points.joined(lib, E(), o),
                                 lambda: ref.join(r), nb=ref.nb)
            else:
                self.judged_call("joined", "joined(p,q,empty)", lambda: self.Points.joined(lib, o, E()),
                                 lambda: ref.join(r), nb=ref.nb)

    def op_rowcat(self):
        lib, ref = self.pick()
        E = self.Points.empty
        u = self.rng.random()
        self.note("rowcat", batch=list(ref.batch))
        if u < 0.12:
            self.judged_call("or", "p|empty", lambda: lib | E(), lambda: ref.rowcat(REF_EMPTY()), nb=ref.nb, admit=False)
            return
        if u < 0.24:
            self.judged_call("or", "empty|p", lambda: E() | lib, lambda: REF_EMPTY().rowcat(ref), nb=ref.nb, admit=False)
            return
        if ref.isempty:
            return
        n0 = int(self.rng.integers(0 if self.rng.random() < 0.15 else 1, 4))
        o, r = self.fresh(ref.space.items, (n0,) + ref.batch[1:])
        if self.rng.random() < 0.5:
            self.judged_call("or", "p|q", lambda: lib | o, lambda: ref.rowcat(r), nb=ref.nb)
        else:
            self.judged_call("or", "q|p", lambda: o | lib, lambda: r.rowcat(ref), nb=ref.nb)

    def op_repeat(self):
        lib, ref = self.pick(lambda r: r.arr.size <= 600)
        if lib is None:
            return
        L = int(self.rng.integers(1, ref.nb + 1))
        reps = [int(self.rng.choice([0, 1, 2, 3], p=[0.05, 0.2, 0.45, 0.3])) for _ in range(L)]
        self.note("repeat", reps=reps, batch=list(ref.batch))
        self.judged_call("repeat", "repeat(%d counts)" % L, lambda: lib.repeat(*reps), lambda: ref.repeat(reps), nb=ref.nb)

    def op_unsqueeze(self):
        lib, ref = self.pick(lambda r: r.nb <= 3)
        if lib is None:
            return
        d = int(self.rng.integers(-(ref.nb + 1), ref.nb + 1))
        self.note("unsqueeze", dim=d, batch=list(ref.batch))
        self.judged_call("unsqueeze", "unsqueeze(%s)" % ("neg" if d < 0 else "pos"), lambda: lib.unsqueeze(d),
                         lambda: ref.unsqueeze(d), nb=ref.nb)

    def op_arith(self):
        lib, ref = self.pick(lambda r: r.space.dim > 0 and r.length > 0)
        if lib is None:
            return
        mag = float(np.abs(ref.arr).max()) if ref.arr.size else 0.0
        ops = ["add", "sub"]
        if mag <= 1e4:
            ops += ["mul", "div"]
        if mag <= 64:
            ops += ["pow"]
        if mag > 1e7:
            return
        op = str(self.rng.choice(ops))
        o, r = self.fresh(ref.space.items, ref.batch, how="tensor")
        if op == "pow":
            e = self.rng.integers(0, 4, size=ref.arr.shape).astype(np.float64)
            r = RefTable(ref.space, e)
            o = self.Points(torch.tensor(e, dtype=self.tdt), self.make_space(ref.space.items))
        f = {"add": lambda a, b: a + b, "sub": lambda a, b: a - b, "mul": lambda a, b: a * b,
             "div": lambda a, b: a / b, "pow": lambda a, b: a ** b}[op]
        tol = 0.0 if op != "pow" else (1e-6 if self.f32 else 1e-12)
        self.note("arith", kind=op)
        if self.rng.random() < 0.5 or op == "pow":
            self.judged_call("arith", op, lambda: f(lib, o), lambda: ref.arith(op, r, self.f32), tol=tol, nb=ref.nb)
        else:
            self.judged_call("arith", op + " (operands swapped)", lambda: f(o, lib), lambda: r.arith(op, ref, self.f32),
                             tol=tol, nb=ref.nb)

    def op_eq(self):
        lib, ref = self.pick()
        variant = str(self.rng.choice(["copy", "perm", "value", "shape", "pool", "rename"]))
        if variant == "perm" and len(ref.space.items) < 2:
            variant = "copy"
        if variant in ("value", "rename") and (ref.arr.size == 0):
            variant = "copy"
        if variant == "copy":
            o, r = self.Points(lib.as_tensor.clone(), self.make_space(ref.space.items)), ref.copy()
        elif variant == "perm":
            # same data, same set of variables, another order of variables (dims permuted with the names)
            perm = [int(i) for i in self.rng.permutation(len(ref.space.items))]
            if perm == sorted(perm):
                perm = perm[1:] + perm[:1]
            items = [ref.space.items[i] for i in perm]
            r = RefTable(items, ref.arr.copy())
            o = self.Points(lib.as_tensor.clone(), self.make_space(items))
        elif variant == "value":
            a = ref.arr.copy()
            i = tuple(int(self.rng.integers(0, s)) for s in a.shape)
            a[i] += 0.125
            r = RefTable(ref.space, a)
            o = self.Points(torch.tensor(a, dtype=self.tdt), self.make_space(ref.space.items))
        elif variant == "shape":
            o, r = self.fresh(ref.space.items, (ref.batch[0] + 1,) + ref.batch[1:], how="tensor")
        elif variant == "rename":
            nn = self.other_names(ref.space.names, 1)[0]
            items = [(nn, ref.space.items[0][1])] + ref.space.items[1:]
            r = RefTable(items, ref.arr.copy())
            o = self.Points(lib.as_tensor.clone(), self.make_space(items))
        else:
            o, r = self.pick()
        exp = ref.equals(r)
        self.count("op_eq")
        self.count("eq_expected_%s" % exp)
        self.note("eq", variant=variant, expected=exp)
        self.judged += 1
        try:
            got = (lib == o) if self.rng.random() < 0.5 else (o == lib)
        except Exception as e:
            self.flag("exception", "Points == Points (%s) raised %r" % (variant, e), op="eq", form=variant,
                      exc=type(e).__name__, site=exc_site(e))
            return
        if bool(got) != exp or not isinstance(got, (bool, np.bool_)):
            self.flag("mismatch", "Points == Points gave %r, expected %r (%s: spaces %s vs %s, shapes %s vs %s)"
                      % (got, exp, variant, ref.space.items, r.space.items, ref.arr.shape, r.arr.shape),
                      op="eq", form=variant, nb=ref.nb)
        self.check_pool("eq", variant)

    def op_iter(self):
        lib, ref = self.pick(lambda r: 0 < r.batch[0] <= 6)
        if lib is None:
            return
        self.count("op_iter")
        self.note("iter", batch=list(ref.batch))
        try:
            rows = list(lib)
        except Exception as e:
            self.judged += 1
            self.flag("exception", "iteration raised %r" % e, op="iter", form="iter", exc=type(e).__name__, site=exc_site(e))
            return
        self.judged += 1
        if len(rows) != ref.batch[0]:
            self.flag("mismatch", "iteration yields %d items for batch %s" % (len(rows), ref.batch), op="iter", form="iter")
            return
        for i, row in enumerate(rows):
            d = self.diff(row, ref.getitem([{"k": "int", "i": i}], None))
            if d:
                self.flag("mismatch", "item %d of the iteration: %s" % (i, d[0]), op="iter", form="iter", nb=ref.nb)
                break
        self.check_pool("iter")

    def op_reject(self):
        lib, ref = self.pick(lambda r: r.space.dim > 0 and r.length > 0)
        if lib is None:
            return
        nb, n0 = ref.nb, ref.batch[0]
        names = ref.space.names
        name = str(self.rng.choice(names))
        absent = self.other_names(names, 1)[0]
        full_rows = tuple([slice(None)] * nb)
        forms = ["bare_name", "full_rank_mask", "int_as_column", "int_slice_as_column", "unknown_name",
                 "unknown_name_in_list", "index_out_of_range", "too_many_indices", "negative_step",
                 "ellipsis_then_int", "set_other_space", "set_wrong_shape", "join_overlapping", "or_other_space",
                 "arith_other_space", "unsqueeze_out_of_range", "repeat_columns"]
        if nb >= 2:
            forms += ["short_tuple_with_name", "join_other_batch"]
        if len(names) >= 2:
            forms += ["or_permuted_space", "arith_permuted_space", "set_permuted_space"]
        form = str(self.rng.choice(forms))
        self.note("reject", form=form, batch=list(ref.batch))
        G = lambda key: (lambda: lib[key])
        if form == "bare_name":
            return self.expect_reject("getitem", form, G(name), nb)
        if form == "full_rank_mask":
            m = torch.tensor(self.rng.random(ref.arr.shape) < 0.5)
            return self.expect_reject("getitem", form, G(m if self.rng.random() < 0.5 else m.numpy()), nb)
        if form == "int_as_column":
            return self.expect_reject("getitem", form, G(full_rows + (0,)), nb)
        if form == "int_slice_as_column":
            return self.expect_reject("getitem", form, G(full_rows + (slice(0, 1),)), nb)
        if form == "unknown_name":
            return self.expect_reject("getitem", form, G(full_rows + (absent,)), nb)
        if form == "unknown_name_in_list":
            return self.expect_reject("getitem", form, G((Ellipsis, [name, absent])), nb)
        if form == "index_out_of_range":
            i = n0 + int(self.rng.integers(0, 3)) if self.rng.random() < 0.5 else -n0 - 1 - int(self.rng.integers(0, 3))
            key = i if self.rng.random() < 0.5 else (i,) + tuple([slice(None)] * (nb - 1)) + (name,)
            return self.expect_reject("getitem", form, G(key), nb)
        if form == "too_many_indices":
            return self.expect_reject("getitem", form, G(tuple([0] * (nb + 1)) + (name,)), nb)
        if form == "negative_step":
            key = slice(None, None, -1) if self.rng.random() < 0.5 else (slice(None, None, -1),) + full_rows[1:] + (name,)
            return self.expect_reject("getitem", form, G(key), nb)
        if form == "ellipsis_then_int":
            return self.expect_reject("getitem", form, G((Ellipsis, 0)), nb)
        if form == "short_tuple_with_name":
            return self.expect_reject("getitem", form, G((0, name)), nb)
        # forms that need a second operand / a target
        target = self.Points(lib.as_tensor.clone(), self.make_space(ref.space.items))
        tref = ref.copy()

        def target_unchanged():
            d = self.diff(target, tref)
            if d:
                self.flag("rejected_changed_object", "the rejected %s changed its target: %s" % (form, d[0]),
                          op="setitem", form=form)
        if form in ("set_other_space", "set_permuted_space", "set_wrong_shape"):
            sub_names = [names[0]] if form != "set_permuted_space" else names[:2]
            sel = ref.getitem([{"k": "ellipsis"}], {"k": "names", "ns": sub_names, "as": "list"})
            items, batch = list(sel.space.items), sel.batch
            if form == "set_other_space":
                items = [(absent, items[0][1])]
            elif form == "set_permuted_space":
                items = items[::-1]
            else:
                batch = (batch[0] + 2,) + batch[1:]
            v, _ = self.fresh(items, batch, how="tensor")
            key = (Ellipsis, sub_names if len(sub_names) > 1 else sub_names[0])

            def f():
                target[key] = v
            return self.expect_reject("setitem", form, f, nb, extra_check=target_unchanged)
        if form == "join_overlapping":
            v, _ = self.fresh([(name, 1), (absent, 2)], ref.batch, how="tensor")
            return self.expect_reject("join", form, (lambda: lib.join(v)) if self.rng.random() < 0.5
                                      else (lambda: self.Points.joined(lib, v)), nb)
        if form == "join_other_batch":
            v, _ = self.fresh([(absent, 2)], (ref.batch[0] + 1,) + ref.batch[1:], how="tensor")
            return self.expect_reject("join", form, (lambda: lib.join(v)) if self.rng.random() < 0.5
                                      else (lambda: self.Points.joined(lib, v)), nb)
        if form in ("or_other_space", "arith_other_space"):
            items = [(absent, ref.space.items[0][1])] + ref.space.items[1:]
        else:
            items = ref.space.items[1:] + ref.space.items[:1]
        if form.startswith("or_"):
            v, _ = self.fresh(items, ref.batch, how="tensor")
            return self.expect_reject("or", form, (lambda: lib | v) if self.rng.random() < 0.5 else (lambda: v | lib), nb)
        if form.startswith("arith_"):
            v, _ = self.fresh(items, ref.batch, how="tensor")
            f = [lambda: lib + v, lambda: lib - v, lambda: lib * v, lambda: lib / v, lambda: lib ** v,
                 lambda: v + lib][int(self.rng.integers(0, 6))]
            return self.expect_reject("arith", form, f, nb)
        if form == "unsqueeze_out_of_range":
            d = nb + 1 + int(self.rng.integers(0, 2)) if self.rng.random() < 0.5 else -(nb + 2) - int(self.rng.integers(0, 2))
            return self.expect_reject("unsqueeze", form, lambda: lib.unsqueeze(d), nb)
        if form == "repeat_columns":
            reps = [1] * nb + [2]
            return self.expect_reject("repeat", form, lambda: lib.repeat(*reps), nb)

    # ---- Space algebra ------------------------------------------------------------------------------
    def rand_items(self, lo=1, hi=4, names=None):
        nv = int(self.rng.integers(lo, hi + 1))
        ns = [str(x) for x in self.rng.permutation(names or NAMES)[:nv]]
        return [(n, int(self.rng.choice([1, 2, 3]))) for n in ns]

    def sflag(self, what, msg):
        self.flag("mismatch", msg, op="space", form=what)

    def op_space(self):
        self.count("op_space")
        if not self.spaces or self.rng.random() < 0.25:
            items = self.rand_items(1, 5)
            self.spaces.append([self.make_space(items), RefSpace(items)])
            if len(self.spaces) > 5:
                self.spaces.pop(0)
        S, R = self.spaces[int(self.rng.integers(0, len(self.spaces)))]
        what = str(self.rng.choice(["product", "product3", "in_name", "in_space", "getitem_name", "getitem_list",
                                    "getitem_slice", "eq", "dim"]))
        self.note("space", what=what, items=R.json())
        self.judged += 1
        try:
            self._space_op(what, S, R)
        except Rejected as e:
            raise Inconclusive("space generator produced a rejected expression: %s" % e)
        except Exception as e:
            self.flag("exception", "Space %s on %s raised %r" % (what, R.items, e), op="space", form=what,
                      exc=type(e).__name__, site=exc_site(e))
        self.check_pool("space " + what)

    def _items(self, S):
        return [(str(k), int(v)) for k, v in S.items()]

    def _space_op(self, what, S, R):
        rng = self.rng
        if what in ("product", "product3"):
            # second factor shares some names with the first (merging) and brings new ones
            pool = R.names + self.other_names(R.names, 3)
            items = self.rand_items(1, 3, names=pool)
            T, RT = self.make_space(items), RefSpace(items)
            if rng.random() < 0.5:
                P, RP, d = S * T, R.product(RT), "%s * %s" % (R.items, RT.items)
            else:
                P, RP, d = T * S, RT.product(R), "%s * %s" % (RT.items, R.items)
            if what == "product3":
                items2 = self.rand_items(1, 2, names=pool)
                U, RU = self.make_space(items2), RefSpace(items2)
                P2 = S * (T * U)
                P, RP, d = (S * T) * U, R.product(RT).product(RU), "(%s * %s) * %s" % (R.items, RT.items, RU.items)
                if self._items(P2) != RP.items:
                    self.sflag(what, "a*(b*c) = %s, expected %s for %s" % (self._items(P2), RP.items, d))
            if self._items(P) != RP.items or not isinstance(P, self.Space):
                self.sflag(what, "%s = %s, expected %s" % (d, self._items(P), RP.items))
            elif int(P.dim) != RP.dim:
                self.sflag(what, "dim of %s is %s, expected %d" % (RP.items, P.dim, RP.dim))
            else:
                for F, RF in ((S, R), (T, RT)):
                    if (F in P) is not True:
                        self.sflag("in_space", "factor %s not reported inside the product %s" % (RF.items, RP.items))
                self.count("law_factors_in_product")
                self.spaces.append([P, RP])
                if len(self.spaces) > 5:
                    self.spaces.pop(0)
        elif what == "in_name":
            n = str(rng.choice(R.names + self.other_names(R.names, 2)))
            got = n in S
            if got is not R.has(n):
                self.sflag(what, "%r in %s gave %r" % (n, R.items, got))
        elif what == "in_space":
            v = str(rng.choice(["sub", "perm", "smaller_dim", "bigger_dim", "foreign", "self", "super"]))
            items = list(R.items)
            if v == "sub":
                items = [items[i] for i in sorted(rng.permutation(len(items))[:int(rng.integers(1, len(items) + 1))])]
            elif v == "perm":
                items = [items[i] for i in rng.permutation(len(items))]
            elif v in ("smaller_dim", "bigger_dim"):
                i = int(rng.integers(0, len(items)))
                nd = items[i][1] + (1 if v == "bigger_dim" else -1)
                if nd < 1:
                    nd = items[i][1] + 1
                items[i] = (items[i][0], nd)
                if rng.random() < 0.5:
                    items = [items[i]]
            elif v == "foreign":
                items = items[:int(rng.integers(0, len(items) + 1))] + [(self.other_names(R.names, 1)[0], 1)]
            elif v == "super":
                items = items + [(self.other_names(R.names, 1)[0], 2)]
            T, RT = self.make_space(items), RefSpace(items)
            got, exp = (T in S), R.contains(RT)
            self.count("in_space_expected_%s" % exp)
            if got is not exp:
                self.sflag(what, "%s in %s gave %r, expected %r (%s)" % (RT.items, R.items, got, exp, v))
        elif what == "getitem_name":
            n = str(rng.choice(R.names))
            got = S[n]
            if int(got) != R.dim_of(n):
                self.sflag(what, "%s[%r] = %r, expected %d" % (R.items, n, got, R.dim_of(n)))
        elif what == "getitem_list":
            ns = [str(x) for x in rng.permutation(R.names)[:int(rng.integers(1, len(R.names) + 1))]]
            got = S[ns] if rng.random() < 0.5 else S[tuple(ns)]
            exp = R.select(ns)
            if self._items(got) != exp.items or not isinstance(got, self.Space):
                self.sflag(what, "%s[%s] = %s, expected %s" % (R.items, ns, self._items(got), exp.items))
        elif what == "getitem_slice":
            a = None if rng.random() < 0.4 else str(rng.choice(R.names))
            b = None if rng.random() < 0.4 else str(rng.choice(R.names))
            s = [None, None, None, 1, 2, -1][int(rng.integers(0, 6))]
            got, exp = S[slice(a, b, s)], R.name_slice(a, b, s)
            if self._items(got) != exp.items or not isinstance(got, self.Space):
                self.sflag(what, "%s[%r:%r:%r] = %s, expected %s" % (R.items, a, b, s, self._items(got), exp.items))
        elif what == "eq":
            v = str(rng.choice(["same", "perm", "dim", "name", "sub"]))
            items = list(R.items)
            if v == "perm" and len(items) >= 2:
                perm = [int(i) for i in rng.permutation(len(items))]
                if perm == sorted(perm):
                    perm = perm[1:] + perm[:1]
                items = [items[i] for i in perm]
            elif v == "dim":
                items[0] = (items[0][0], items[0][1] + 1)
            elif v == "name":
                items[-1] = (self.other_names(R.names, 1)[0], items[-1][1])
            elif v == "sub":
                items = items[:-1]
            T, RT = self.make_space(items), RefSpace(items)
            exp = R.same(RT)
            got, gne = (S == T), (S != T)
            self.count("space_eq_expected_%s" % exp)
            if got is not exp or gne is not (not exp):
                self.sflag(what, "%s == %s gave %r (!= gave %r), expected %r" % (R.items, RT.items, got, gne, exp))
        else:
            if int(S.dim) != R.dim or set(S.variables) != set(R.names) or list(S.keys()) != R.names:
                self.sflag(what, "dim/variables/keys of %s: %s %s %s" % (R.items, S.dim, S.variables, list(S.keys())))

    # ---- driver ------------------------------------------------------------------------------------
    OPS = [("getitem", 0.30), ("two_step", 0.07), ("setitem", 0.11), ("roundtrip", 0.05), ("join", 0.08),
           ("rowcat", 0.06), ("repeat", 0.04), ("unsqueeze", 0.04), ("arith", 0.07), ("eq", 0.05), ("iter", 0.02),
           ("reject", 0.06), ("space", 0.08)]

    def run(self):
        c = self.case
        lib, ref = self.fresh([tuple(x) for x in c["space"]], c["batch"])
        d = self.diff(lib, ref)
        self.judged += 1
        if d:
            self.flag("mismatch", "constructor: %s" % "; ".join(d[:3]), op="construct", form="construct", nb=ref.nb)
            return
        self.pool.append([lib, ref])
        self.spaces.append([self.make_space(ref.space.items), RefSpace(ref.space.items)])
        names = [o for o, _ in self.OPS]
        p = np.array([w for _, w in self.OPS])
        p = p / p.sum()
        for _ in range(c["n_ops"]):
            if not self.pool:
                l2, r2 = self.fresh([tuple(x) for x in c["space"]], c["batch"])
                self.pool.append([l2, r2])
            op = str(self.rng.choice(names, p=p))
            getattr(self, "op_" + op)()


_validated = []


def run_case(case):
    if not _validated:
        try:
            self_validate()
        except Exception as e:
            raise Inconclusive("reference table failed its self validation: %r" % e)
        _validated.append(True)
    torch.manual_seed(case["seed"])
    w = World(case)
    w.run()
    dims = [d for _, d in case["space"]]
    fam = sorted({f for f in w.forms})
    bucket = "%d%d%d" % (any("full" in f or "tuple|" in f for f in fam), any(f.startswith("bare") for f in fam),
                         w.counters.get("op_setitem", 0) > 0)
    cls = "nb%d/v%d/d%d/%s/%s" % (len(case["batch"]), len(dims), max(dims), case["dtype"], bucket)
    return {"cls": cls, "judged": w.judged, "nontrivial": w.judged >= 8 and w.name_sel >= 1, "viol": w.viol,
            "counters": w.counters, "trace": w.trace[:10]}


def sample_of(case, r):
    return {"case": case, "class": r.get("cls"), "operations_judged": r.get("judged"), "status": r.get("status"),
            "first_operations": r.get("trace", [])[:12]}
