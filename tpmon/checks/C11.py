"""C11 -- samplers follow their named laws: uniform, even grid, Gaussian, LHS.

Offline statistical checker over recorded samples of the real samplers:
  * primitives and their boundaries: chi-square goodness of fit on parametrisation-aware partitions with exact
    (equal) cell probabilities (rings x sectors, barycentric cells, shells x z-slabs x azimuth, arclength bins),
  * Boolean combinations, dependent products, translated / rotated domains, polygons: two-sample chi-square
    against a reference sample drawn by pure rejection from the twin (interior) resp. from the leaf boundaries
    filtered by the twin's boundary test (boundary), on a bounding-box grid partition,
  * per parameter row; sample sizes "big" (one call), "small" (n in {1,2,10} repeated) and by density,
  * Gaussian: two-sample test against normal proposals filtered by the twin,
  * LHS on boxes: deterministic -- each of the n slabs of every axis holds exactly one point,
  * grids: every coarse box cell receives its share of the points up to a discretisation bound.
Decision rule: per-test level 1e-9; a failing test is repeated on a fresh four times larger sample from an
independent stream and reported only if it fails again.
"""
import math
import numpy as np

from .. import geo, gen_geo, sampling, probes, stats
from ..core import viol, exc_site

LEVEL = "exploration"
RULE = ("generated primitives / boundaries (exact partitions) and compositions (two-sample against a twin rejection "
        "sampler) x sampling mode (one big call by n, many small calls n in {1,2,10}, by density) x parameter rows (k <= 3, "
        "tested row-wise), Gaussian, LHS and grid samplers; non-trivial = a statistical or structural test was evaluated on "
        ">= 2000 recorded points (LHS/grid: on a returned sample); distinct = (family, expression shape, target, mode, k class)")
RULE += '; products whose second factor has two variables while the first depends on one of them; a sixth of the prim / comp cases at other length scales; every violation carries the effect size w = sqrt((chi2 - dof) / N)'
REQUIRED_REACH = ["Circle.sample_random_uniform", "Sphere.sample_random_uniform", "Triangle._handle_sum_greater_1",
                  "ParallelogramBoundary.sample_random_uniform", "TriangleBoundary.sample_random_uniform",
                  "_random_points_inside", "_random_points_if_n_eq_1", "UnionDomain._sample_random_with_n",
                  "UnionDomain._sample_random_with_d", "ProductDomain._sample_uniform_b_points", "_compute_boundary_ratio",
                  "Circle._equidistant_points_in_circle", "LHSSampler._create_lhs_in_bounding_box",
                  "GaussianSampler._sample_points", "Rotate.sample_random_uniform", "Translate.sample_random_uniform"]
MIN_NONTRIVIAL = 30
ASSUMPTIONS = ["per-test level 1e-9 with replicate-on-fail (4x sample, independent stream): false alarm probability per run < 1e-6",
               "reference samples are exact uniform samples of the float64 twin (rejection); float32 rounding of the library is far below a cell",
               "grid evenness bound: |count - n*share| <= 3*(cell surface)/h^(d-1) + 3 + 4*sqrt(n*share) with h = (measure/n)^(1/d)"]
CASE_TIMEOUT = 400
SHARD_TIMEOUT = 3000


def gen_cases(seed, tier):
    rng = np.random.default_rng([seed, 11])
    quick = tier == "quick"
    cases = []

    def add(fam, dom, **kw):
        if fam in ("prim", "comp") and len(cases) % 6 == 1 and "product" not in geo.spec_ops(dom["spec"]) and "equiv" not in kw \
                and "ratio" not in dom["info"].get("relations", []):
            S = float(sampling.SCALES[(len(cases) // 6) % len(sampling.SCALES)])    # the same shape at another length scale
            dom = dict(dom, spec=geo.scale_spec(dom["spec"], S), info=dict(dom["info"], scale=S))
        c = {"fam": fam, "spec": dom["spec"], "rows": dom["rows"], "info": dom["info"], "k": dom["k"],
             "seed": int(rng.integers(0, 2 ** 31)), "N": 20000 if quick else 150000}
        c.update(kw)
        if "polygon" in geo.spec_ops(dom["spec"]) or fam == "comp":
            # shapely membership is a python loop per point; nested rejection samplers multiply the proposals
            c["N"] = min(c["N"], 40000)
        if "polyhedron" in geo.spec_ops(dom["spec"]):
            # trimesh membership tests cost ~1 ms per point: smaller samples, no single-point call series
            c["N"] = min(c["N"], 4000 if quick else 20000)
            if c.get("mode") == "small":
                c["nsmall"] = 10
                c["N"] = 2500
        cases.append(c)

    n_prim = 32 if quick else 400
    for i in range(n_prim):
        dom = gen_geo.gen_domain(rng, max_depth=0, allow=("prim",), k=int(rng.choice([0, 0, 1, 2, 3])))
        mode = str(rng.choice(["big", "big", "small", "dens"]))
        if dom["k"] > 1 and mode == "dens":
            mode = "big"
        add("prim", dom, target=str(rng.choice(["interior", "boundary"])), mode=mode, nsmall=int(rng.choice([1, 2, 10])))
    for i in range(2 if quick else 30):
        # (constant) polygon boundaries sampled for several parameter rows: every row's block covers the whole boundary
        ctx_ = gen_geo.Ctx(rng, False, 0, None, 2)
        sp_ = gen_geo.prim2d(ctx_, rng.uniform(-2, 2, 2), float(rng.uniform(0.5, 1.5)), kinds=("polygon",))
        kk_ = int(rng.choice([2, 3]))
        dom = {"spec": sp_, "rows": gen_geo.param_rows(rng, kk_), "k": kk_,
               "info": {"kind": "prim", "dim": 2, "dep": False, "relations": ["rows"], "desc": "G"}}
        add("prim", dom, target="boundary", mode="big", nsmall=10)
    for i in range(4 if quick else 60):
        # parallelograms / triangles whose side ratio differs between the parameter rows (only one corner moves):
        # the split of the boundary points over the sides is a per-row quantity
        o = rng.uniform(-2, 2, 2)
        w0, h0 = float(rng.uniform(0.3, 0.6)), float(rng.uniform(0.8, 1.5))
        ang = float(rng.choice([0.0, rng.uniform(0, 2 * math.pi)]))
        R = np.array([[math.cos(ang), -math.sin(ang)], [math.sin(ang), math.cos(ang)]])
        c1, g1 = o + R @ np.array([w0, 0.0]), R @ np.array([float(rng.uniform(1.5, 2.5)), 0.0])
        c2 = o + R @ np.array([0.0, h0])
        spec = {"prim": "parallelogram" if i % 3 else "triangle", "var": "x", "origin": [float(o[0]), float(o[1])],
                "c1": {"a": [float(c1[0]), float(c1[1])], "terms": [{"var": "t", "col": 0, "kind": "lin", "coef": [float(g1[0]), float(g1[1])]}]},
                "c2": [float(c2[0]), float(c2[1])]}
        tv = rng.permutation(np.array([0.0, 1.0, 2.0]))[:3] + rng.uniform(0, 0.05, 3)
        dom = {"spec": spec, "rows": {"t": [[float(np.float32(v))] for v in tv]}, "k": 3,
               "info": {"kind": "prim", "dim": 2, "dep": True, "relations": ["side_ratio"], "desc": geo.ref(spec).desc() + "~ratio"}}
        add("prim", dom, target="boundary", mode="big" if i % 2 == 0 else "small", nsmall=10)
    n_comp = 36 if quick else 400
    # (kind, target, mode, nsmall, required root operation) -- the first comp cases are forced so that every anchored
    # mechanism is reached for every seed
    forced = [("bool", "interior", "small", 1, ("cut", "isect")), ("bool", "interior", "small", 10, ("cut", "isect")),
              ("bool", "boundary", "dens", 1, None), ("product", "interior", "big", 1, None),
              ("bool", "interior", "dens", 1, ("union",)), ("bool", "boundary", "small", 1, None),
              ("rotate", "interior", "big", 1, None), ("translate", "interior", "big", 1, None),
              ("bool", "boundary", "big", 1, None), ("bool", "interior", "big", 1, ("union",))]
    for i in range(n_comp):
        allow = ("bool", "bool", "translate", "rotate", "product")
        if i < len(forced):
            allow = (forced[i][0],)
        for _try in range(40):
            kdom = int(rng.choice([0, 0, 1, 2]))
            if i < len(forced) and forced[i][2] == "dens":
                kdom = min(kdom, 1)
            dom = gen_geo.gen_domain(rng, max_depth=int(rng.integers(1, 3 if quick else 4)), k=kdom,
                                     allow=allow, dim=2 if (i < len(forced) and forced[i][0] in ("rotate", "translate", "product")) else None)
            if i < len(forced) and forced[i][2] == "small" and forced[i][3] == 1 and "polyhedron" in geo.spec_ops(dom["spec"]):
                continue            # add() turns single-point call series on polyhedra into n=10 calls
            if not (i < len(forced) and forced[i][4] and dom["spec"].get("op") not in forced[i][4]):
                break
        mode = str(rng.choice(["big", "big", "small", "dens"]))
        if dom["k"] > 1 and mode == "dens":
            mode = "big"
        target = str(rng.choice(["interior", "interior", "boundary"]))
        nsm = int(rng.choice([1, 2, 10]))
        if i < len(forced):
            _, target, mode, nsm, _ = forced[i]
            if dom["k"] > 1 and mode == "dens":
                mode = "big"
        if dom["info"]["kind"] == "product":
            target = "interior"
        add("comp", dom, target=target, mode=mode, nsmall=nsm)
    for i in range(4 if quick else 40):
        # dependent product whose second factor has two variables while the first factor depends on one of them only:
        # the joint law is uniform on the whole set, i.e. the second-factor values are weighted by the slice volume
        if i % 2 == 0:
            for _try in range(200):
                dom = gen_geo.gen_domain(rng, max_depth=1, k=int(rng.choice([0, 0, 1])), allow=("product",), dim=int(rng.choice([1, 2])))
                nd = geo.ref(dom["spec"])
                if dom["spec"]["b"].get("op") == "product" and nd.dependent():
                    break
        else:
            # strong dependence: the size of the first factor grows from 0.3 to 1.3 units over the range of s
            lo, hi = float(rng.uniform(-1, 0)), float(rng.uniform(0.5, 2))
            size = float(rng.uniform(0.5, 1.5))
            if i % 4 == 1:
                size *= 0.01          # the same product at a small length scale (slice volumes of order 1e-4), sampled with big n
            grow = {"a": [0.3 * size - size * lo / (hi - lo)], "terms": [{"var": "s", "col": 0, "kind": "lin", "coef": [size / (hi - lo)]}]}
            c = rng.uniform(-2, 2, 2)
            if rng.random() < 0.5 or i % 4 == 1:
                a = {"prim": "circle", "var": "x", "center": [float(c[0]), float(c[1])], "radius": grow}
            else:
                a = {"prim": "interval", "var": "x", "lo": float(c[0]),
                     "hi": {"a": [float(c[0]) + grow["a"][0]], "terms": grow["terms"]}}
            bs = {"prim": "interval", "var": "s", "lo": lo, "hi": hi}
            br = {"prim": "interval", "var": "r", "lo": float(rng.uniform(-1, 0)), "hi": float(rng.uniform(0.5, 2))}
            spec = {"op": "product", "a": a, "b": {"op": "product", "a": bs, "b": br} if rng.random() < 0.5 else {"op": "product", "a": br, "b": bs}}
            dom = {"spec": spec, "rows": {}, "k": 0,
                   "info": {"kind": "product", "dim": 2 if a["prim"] == "circle" else 1, "dep": False, "relations": [], "desc": geo.ref(spec).desc()}}
        dom["info"]["desc"] += "~two_var_factor"
        add("comp", dom, target="interior", mode="small" if i % 4 == 3 else "big", nsmall=10)
    for i in range(4 if quick else 60):
        # unions / cuts of rectangles with collinear edges: boundary sampling BY DENSITY is uniform on the true boundary
        # (pieces lying on both operand boundaries must not be counted twice)
        for _try in range(400):
            dom = gen_geo.gen_domain(rng, max_depth=1, k=0, dep=False, allow=("bool",), dim=2)
            if dom["info"]["relations"][-1:] == ["union:aligned"]:
                break
        # the union of the two rectangles IS a rectangle: its boundary law is judged against that rectangle exactly (the
        # twin cannot classify points on two coincident leaf boundaries)
        ra, rb = dom["spec"]["a"], dom["spec"]["b"]
        xs = [ra["origin"][0], ra["c1"][0], rb["origin"][0], rb["c1"][0]]
        y0_, y1_ = ra["origin"][1], ra["c2"][1]
        add("comp", dom, target="boundary", mode="dens" if i % 2 == 0 else "big", nsmall=1,
            equiv={"prim": "parallelogram", "var": "x", "origin": [min(xs), y0_], "c1": [max(xs), y0_], "c2": [min(xs), y1_]})
    for i in range(3 if quick else 40):
        # union / cut of two overlapping discs whose exact boundary length (two arcs) is set with set_volume() on the
        # boundary, as the library's warning recommends: random sampling by n stays uniform on the two arcs
        ra, rb = float(rng.uniform(0.7, 1.3)), float(rng.uniform(0.4, 0.9))
        dd = float(rng.uniform(max(ra, rb) * 1.05, (ra + rb) * 0.85))
        c = rng.uniform(-2, 2, 2)
        A = {"prim": "circle", "var": "x", "center": [float(c[0]), float(c[1])], "radius": ra}
        B = {"prim": "circle", "var": "x", "center": [float(c[0] + dd), float(c[1])], "radius": rb}
        al_a = math.acos((dd * dd + ra * ra - rb * rb) / (2 * dd * ra))
        al_b = math.acos((dd * dd + rb * rb - ra * ra) / (2 * dd * rb))
        if i % 2 == 0:
            spec, blen = {"op": "union", "a": A, "b": B}, ra * (2 * math.pi - 2 * al_a) + rb * (2 * math.pi - 2 * al_b)
        else:
            spec, blen = {"op": "cut", "a": A, "b": B}, ra * (2 * math.pi - 2 * al_a) + rb * (2 * al_b)
        dom = {"spec": spec, "rows": {}, "k": 0, "info": {"kind": "bool", "dim": 2, "dep": False, "relations": ["%s:overlap" % spec["op"]],
                                                         "desc": geo.ref(spec).desc() + "~setvol"}}
        add("comp", dom, target="boundary", mode="big", nsmall=1, set_bvol=blen)
    for i in range(6 if quick else 60):
        # disjoint union whose mixing ratio |A| / (|A| + |B|) differs strongly between the parameter rows
        c = rng.uniform(-2, 2, 2)
        ra, rb = float(rng.uniform(0.25, 0.4)), float(rng.uniform(0.6, 1.0))
        A = {"prim": "circle", "var": "x", "center": [float(c[0]), float(c[1])],
             "radius": {"a": [ra], "terms": [{"var": "t", "col": 0, "kind": "lin", "coef": [float(rng.uniform(0.5, 0.9))]}]}}
        if rng.random() < 0.4:
            A = {"prim": "parallelogram", "var": "x", "origin": [float(c[0]), float(c[1])],
                 "c1": {"a": [float(c[0] + ra), float(c[1])], "terms": [{"var": "t", "col": 0, "kind": "lin", "coef": [0.8, 0.0]}]},
                 "c2": [float(c[0]), float(c[1] + 1.0)]}
        B = {"prim": "circle", "var": "x", "center": [float(c[0] + 6.0), float(c[1])], "radius": rb}
        spec = {"op": "union", "a": A, "b": B, "flag": True} if rng.random() < 0.5 else {"op": "union", "a": B, "b": A, "flag": True}
        k = int(rng.choice([2, 3]))
        tv = rng.permutation(np.array([0.1, 1.0, 2.0]))[:k] + rng.uniform(0, 0.05, k)
        dom = {"spec": spec, "rows": {"t": [[float(np.float32(v))] for v in tv]}, "k": k,
               "info": {"kind": "bool", "dim": 2, "dep": True, "relations": ["union:disjoint!", "ratio"], "desc": geo.ref(spec).desc() + "~ratio"}}
        add("comp", dom, target="interior", mode=str(rng.choice(["big", "small"])), nsmall=10)
    for i in range(6 if quick else 60):
        # non-convex polygons with a slanted notch: Delaunay triangles of the vertex set straddle the boundary
        x0, y0 = rng.uniform(-2, 2, 2)
        w, h = rng.uniform(4, 7), rng.uniform(3, 5)
        a, b = rng.uniform(0.55, 0.75) * w, rng.uniform(0.1, 0.25) * w
        V = [[x0, y0], [x0 + w, y0], [x0 + w, y0 + h], [x0 + a + 0.15 * w, y0 + h], [x0 + b, y0 + rng.uniform(0.1, 0.25) * h],
             [x0 + a - 0.15 * w, y0 + h], [x0, y0 + h]]
        if rng.random() < 0.5:
            V = V[::-1]
        spec = {"prim": "polygon", "var": "x", "vertices": [[float(p), float(q)] for p, q in V]}
        kk_ = int(rng.choice([0, 0, 2]))
        dom = {"spec": spec, "rows": gen_geo.param_rows(rng, kk_), "k": kk_,
               "info": {"kind": "prim", "dim": 2, "dep": False, "relations": ["notch"], "desc": "G~notch"}}
        add("prim", dom, target="interior", mode="big", nsmall=10)
    for i in range(8 if quick else 80):
        dom = gen_geo.gen_domain(rng, max_depth=1, allow=("bool", "prim"), k=0, dep=False)
        add("gauss", dom, std_rel=float(rng.uniform(0.15, 0.8)), mean_outside=bool(i % 2 == 1))
    for i in range(8 if quick else 80):
        # LHS on boxes whose extent depends on the parameter, several rows: one point per slab of the row's own box
        d = int(rng.choice([1, 2]))
        c0 = rng.uniform(-2, 2, d)
        if d == 1:
            spec = {"prim": "interval", "var": "x", "lo": float(c0[0]),
                    "hi": {"a": [float(c0[0] + 0.2)], "terms": [{"var": "t", "col": 0, "kind": "lin", "coef": [1.0]}]}}
        else:
            spec = {"prim": "parallelogram", "var": "x", "origin": [float(c0[0]), float(c0[1])],
                    "c1": {"a": [float(c0[0] + 0.2), float(c0[1])], "terms": [{"var": "t", "col": 0, "kind": "lin", "coef": [1.0, 0.0]}]},
                    "c2": {"a": [float(c0[0]), float(c0[1] + 0.5)], "terms": [{"var": "t", "col": 0, "kind": "lin", "coef": [0.0, 2.0]}]}}
        k = int(rng.choice([2, 3]))
        tv = rng.permutation(np.array([0.5, 1.0, 4.0]))[:k] + rng.uniform(0, 0.05, k)
        dom = {"spec": spec, "rows": {"t": [[float(np.float32(v))] for v in tv]}, "k": k,
               "info": {"kind": "prim", "dim": d, "dep": True, "relations": [], "desc": "box%d~t" % d}}
        add("lhs", dom, n=int(rng.choice([4, 8, 17, 50])))
    for i in range(10 if quick else 100):
        # LHS on boxes: axis aligned parallelogram or interval (and translate of them)
        d = int(rng.choice([1, 2]))
        c0 = rng.uniform(-3, 3, d)
        w = rng.uniform(0.5, 3, d)
        if d == 1:
            spec = {"prim": "interval", "var": "x", "lo": float(c0[0]), "hi": float(c0[0] + w[0])}
        else:
            spec = {"prim": "parallelogram", "var": "x", "origin": [float(c0[0]), float(c0[1])],
                    "c1": [float(c0[0] + w[0]), float(c0[1])], "c2": [float(c0[0]), float(c0[1] + w[1])]}
        dom = {"spec": spec, "rows": {}, "k": 0, "info": {"kind": "prim", "dim": d, "dep": False, "relations": [], "desc": "box%d" % d}}
        add("lhs", dom, n=int(rng.choice([1, 2, 5, 17, 64, 301])))
    for i in range(24 if quick else 240):
        dom = gen_geo.gen_domain(rng, max_depth=1, allow=("prim", "prim", "bool"), k=0, dep=False)
        if i == 0:
            # every seed reaches the circle grid
            cc = rng.uniform(-2, 2, 2)
            sp_ = {"prim": "circle", "var": "x", "center": [float(cc[0]), float(cc[1])], "radius": float(rng.uniform(0.5, 1.5))}
            dom = {"spec": sp_, "rows": {}, "k": 0, "info": {"kind": "prim", "dim": 2, "dep": False, "relations": [], "desc": "C"}}
        add("grid", dom, n=int(rng.choice([60, 200, 900, 2500])))
    for i in range(8 if quick else 120):
        # boundary grids by n on operations whose two boundary parts have very different sizes and are complete
        # (a small hole in a big shape, a big and a small shape apart): each part gets its share of the points
        big, small = float(rng.uniform(1.5, 3.0)), float(rng.uniform(0.12, 0.3))
        c = rng.uniform(-2, 2, 2)

        def shape(kind, cc, sz):
            if kind == "circle":
                return {"prim": "circle", "var": "x", "center": [float(cc[0]), float(cc[1])], "radius": sz}
            return {"prim": "parallelogram", "var": "x", "origin": [float(cc[0] - sz), float(cc[1] - sz)], "c1": [float(cc[0] + sz), float(cc[1] - sz)],
                    "c2": [float(cc[0] - sz), float(cc[1] + sz)]}
        A = shape(str(rng.choice(["circle", "parallelogram"])), c, big)
        if i % 2 == 0:
            B = shape(str(rng.choice(["circle", "parallelogram"])), c + rng.uniform(-0.3, 0.3, 2) * big, small)
            spec = {"op": "cut", "a": A, "b": B}
        else:
            B = shape(str(rng.choice(["circle", "parallelogram"])), c + np.array([2.2 * big + small, 0.0]), small)
            spec = {"op": "union", "a": A, "b": B} if i % 4 == 1 else {"op": "union", "a": B, "b": A}
        dom = {"spec": spec, "rows": {}, "k": 0, "info": {"kind": "bool", "dim": 2, "dep": False, "relations": ["parts"], "desc": geo.ref(spec).desc() + "~parts"}}
        add("bgrid", dom, n=int(rng.choice([80, 200, 500])))
    return cases


# ---------------------------------------------------------------------------------------------
# drawing samples from the library
# ---------------------------------------------------------------------------------------------

def draw(D, node, target, mode, N, nsmall, Pp, env, k, seed, set_bvol=None):
    """-> list (one entry per parameter row) of float64 arrays of the domain coordinates"""
    import torch
    torch.manual_seed(seed)
    kk = max(k, 1)
    Dt = D if target == "interior" else D.boundary
    if set_bvol:
        Dt.set_volume(float(set_bvol))
    names = [n for n, _ in node.space()]
    out = [[] for _ in range(kk)]

    def take(pts, n):
        X = np.concatenate([pts.coordinates[nm].double().numpy().reshape(len(pts), -1) for nm in names], 1)
        if len(X) != n * kk:
            raise ValueError("sample has %d rows for n=%d and %d parameter rows" % (len(X), n, kk))
        for i in range(kk):
            out[i].append(X[i * n:(i + 1) * n])
    if mode == "big":
        probes.begin_call()
        take(Dt.sample_random_uniform(n=N, params=Pp), N)
        probes.end_call()
    elif mode == "small":
        total = min(N, (1600 if nsmall == 1 else (3200 if nsmall == 2 else 8000)) if N <= 20000 else (6000 if nsmall == 1 else 12000) * max(1, N // 150000))
        for _ in range(max(1, total // nsmall)):
            probes.begin_call()
            take(Dt.sample_random_uniform(n=nsmall, params=Pp), nsmall)
            probes.end_call()
    else:
        meas = _measure_est(node, env, target)
        d = N / meas
        probes.begin_call()
        pts = Dt.sample_random_uniform(d=d, params=Pp)
        probes.end_call()
        X = np.concatenate([pts.coordinates[nm].double().numpy().reshape(len(pts), -1) for nm in names], 1)
        out[0].append(X)
    return [np.concatenate(o, 0) if o else np.zeros((0, node.dim())) for o in out]


def _measure_est(node, env, target):
    env0 = {pn: v[:1] for pn, v in env.items()}
    if target == "interior":
        m = node.measure(env0, 1)
        if m is not None:
            return float(m[0])
        box = geo._hull_box(node, env0, 1)[0]
        rng = np.random.default_rng(1)
        P = box[0::2] + rng.random((100000, len(box) // 2)) * (box[1::2] - box[0::2])
        return float((node.phi(P, {pn: np.repeat(v, len(P), 0) for pn, v in env0.items()}) <= 0).mean() * np.prod(box[1::2] - box[0::2]))
    return sampling._boundary_measure_bound(node, env0)


# ---------------------------------------------------------------------------------------------
# reference samplers on the twin
# ---------------------------------------------------------------------------------------------

def ref_interior(node, env_row, N, rng):
    box = geo._hull_box(node, env_row, 1)[0]
    d = len(box) // 2
    got, have = [], 0
    for _ in range(400):
        M = 200000
        P = box[0::2] + rng.random((M, d)) * (box[1::2] - box[0::2])
        keep = node.phi(P, {pn: np.repeat(v, M, 0) for pn, v in env_row.items()}) <= 0
        got.append(P[keep])
        have += int(keep.sum())
        if have >= N:
            break
    return np.concatenate(got, 0)[:N], box


def _leaf_boundary_points(node, env_row, M, rng):
    """M points uniform (w.r.t. arclength / area) on the union of all leaf boundaries of the expression"""
    if isinstance(node, geo.Bool):
        ma = sampling._boundary_measure_bound(node.a, env_row)
        mb = sampling._boundary_measure_bound(node.b, env_row)
        na = rng.binomial(M, ma / (ma + mb))
        return np.concatenate([_leaf_boundary_points(node.a, env_row, na, rng), _leaf_boundary_points(node.b, env_row, M - na, rng)], 0)
    if isinstance(node, geo.Moved):
        Q = _leaf_boundary_points(node.d, env_row, M, rng)
        return node.push(Q, {pn: np.repeat(v, len(Q), 0) for pn, v in env_row.items()}) if len(Q) else Q
    if isinstance(node, geo.Interval):
        lo, hi = node.bounds(env_row, 1)
        return np.where(rng.random((M, 1)) < 0.5, lo[0], hi[0])
    if isinstance(node, geo.Ball):
        c, r = node.cr(env_row, 1)
        v = rng.normal(size=(M, node.d))
        v /= np.linalg.norm(v, axis=1, keepdims=True)
        return c[0] + r[0] * v
    if isinstance(node, geo.Polygonal):
        A, E = [], []
        for V in [node.verts(env_row, 1)[0]] + [H[0] for H in node.rings()]:
            A.append(V)
            E.append(np.roll(V, -1, 0) - V)
        A, E = np.concatenate(A, 0), np.concatenate(E, 0)
        ln = np.linalg.norm(E, axis=1)
        e = rng.choice(len(A), size=M, p=ln / ln.sum())
        return A[e] + rng.random((M, 1)) * E[e]
    if isinstance(node, geo.Polyhedron):
        f = rng.choice(len(node.F), size=M, p=node.area / node.area.sum())
        u, v = rng.random(M), rng.random(M)
        m = u + v > 1
        u[m], v[m] = 1 - u[m], 1 - v[m]
        a, b, c = node.V[node.F[f, 0]], node.V[node.F[f, 1]], node.V[node.F[f, 2]]
        return a + u[:, None] * (b - a) + v[:, None] * (c - a)
    raise ValueError("no boundary reference for %s" % type(node).__name__)


def ref_boundary(node, bnode, env_row, N, rng, L):
    got, have = [], 0
    for _ in range(60):
        M = 4 * N
        Q = _leaf_boundary_points(node, env_row, M, rng)
        Q = Q[rng.permutation(len(Q))]          # the candidates come leaf by leaf: shuffle before truncating
        e = {pn: np.repeat(v, len(Q), 0) for pn, v in env_row.items()}
        ok, amb = bnode.member(Q, e, 1e-9 * L + 1e-12, L)
        got.append(Q[ok & ~amb])
        have += int((ok & ~amb).sum())
        if have >= N:
            break
    return np.concatenate(got, 0)[:N]


# ---------------------------------------------------------------------------------------------
# exact uniform coordinates of primitives
# ---------------------------------------------------------------------------------------------

def unit_coords(node, target, X, env_row):
    """map samples of a primitive (or its boundary) to coordinates that are uniform on [0,1]^m under the law;
    returns (U, cells_per_axis) or None when no exact partition is implemented"""
    N = len(X)
    e = {pn: np.repeat(v, N, 0) for pn, v in env_row.items()}
    if isinstance(node, geo.Interval):
        lo, hi = node.bounds(e, N)
        if target == "interior":
            return ((X[:, 0] - lo) / (hi - lo)).reshape(-1, 1), [24]
        return (np.abs(X[:, 0] - lo) > np.abs(X[:, 0] - hi)).astype(float).reshape(-1, 1) * 0.5 + 0.25, [2]
    if isinstance(node, geo.Ball):
        c, r = node.cr(e, N)
        v = X - c
        rad = np.linalg.norm(v, axis=1)
        if node.d == 2:
            th = (np.arctan2(v[:, 1], v[:, 0]) / (2 * np.pi)) % 1.0
            if target == "interior":
                return np.stack([(rad / r) ** 2, th], 1), [5, 8]
            return th.reshape(-1, 1), [32]
        ph = (np.arctan2(v[:, 1], v[:, 0]) / (2 * np.pi)) % 1.0
        z = (v[:, 2] / np.maximum(rad, 1e-300) + 1) / 2
        if target == "interior":
            return np.stack([(rad / r) ** 3, z, ph], 1), [3, 4, 4]
        return np.stack([z, ph], 1), [6, 6]
    if isinstance(node, geo.Polygonal) and node.kind in ("parallelogram", "triangle"):
        V = node.verts(e, N)
        if V.shape[0] == 1:
            V = np.repeat(V, N, 0)
        if target == "boundary":
            E = np.roll(V, -1, 1) - V
            ln = np.linalg.norm(E, axis=2)
            P = X[:, None, :] - V
            t = np.clip((P * E).sum(2) / np.maximum(ln ** 2, 1e-300), 0, 1)
            dist = np.linalg.norm(P - t[:, :, None] * E, axis=2)
            j = dist.argmin(1)
            cum = np.concatenate([np.zeros((N, 1)), np.cumsum(ln, 1)], 1)
            s = cum[np.arange(N), j] + t[np.arange(N), j] * ln[np.arange(N), j]
            return (s / cum[:, -1]).reshape(-1, 1), [32]
        o = V[:, 0]
        if node.kind == "parallelogram":
            d1, d2 = V[:, 1] - o, V[:, 3] - o
        else:
            d1, d2 = V[:, 1] - o, V[:, 2] - o
        det = d1[:, 0] * d2[:, 1] - d1[:, 1] * d2[:, 0]
        p = X - o
        a = (p[:, 0] * d2[:, 1] - p[:, 1] * d2[:, 0]) / det
        b = (d1[:, 0] * p[:, 1] - d1[:, 1] * p[:, 0]) / det
        if node.kind == "parallelogram":
            return np.stack([a, b], 1), [6, 6]
        s = np.clip(a + b, 1e-300, None)
        return np.stack([s ** 2, a / s], 1), [5, 7]
    return None


def gof_cells(U, cells):
    U = np.clip(U, 0, 1 - 1e-12)
    flat = np.zeros(len(U), int)
    tot = 1
    for j, g in enumerate(cells):
        flat = flat * g + (U[:, j] * g).astype(int)
        tot *= g
    cnt = np.bincount(flat, minlength=tot)
    return cnt, np.full(tot, 1.0 / tot)


# ---------------------------------------------------------------------------------------------
# descriptors for known-finding matching
# ---------------------------------------------------------------------------------------------

def spec_traits(spec, node, env0, rng):
    ops = geo.spec_ops(spec)
    tr = {"has_union": "union" in ops, "has_cut": "cut" in ops, "has_isect": "isect" in ops, "has_polygon": "polygon" in ops,
          "has_product": "product" in ops, "overlapping_union": False,
          "has_bool": bool({"union", "cut", "isect"} & set(ops)), "union_weights_inexact": False,
          "boundary_weights_inexact": False}

    def mc(n, pred):
        box = geo._hull_box(n, env0, 1)[0]
        P = box[0::2] + rng.random((20000, len(box) // 2)) * (box[1::2] - box[0::2])
        e = {pn: np.repeat(v, len(P), 0) for pn, v in env0.items()}
        return pred(n.a.phi(P, e) <= 0, n.b.phi(P, e) <= 0).mean()

    def exact_b(n):
        """the library's boundary volume of n (sum of the operands' boundary volumes) is the true boundary measure"""
        if isinstance(n, geo.Moved):
            return exact_b(n.d)
        if isinstance(n, geo.Bool):
            if n.op == "union":
                rel = mc(n, lambda ia, ib: ia & ib) <= 0
            elif n.op == "cut":
                u = geo.Bool.__new__(geo.Bool)
                u.op, u.a, u.b, u.flag = "union", n.a, n.b, False
                rel = mc(u, lambda ia, ib: ib & ~ia) <= 0
            else:
                rel = False
            return bool(rel) and exact_b(n.a) and exact_b(n.b)
        if isinstance(n, (geo.Product, geo.Boundary)):
            return False
        return True

    def walk(n):
        if isinstance(n, geo.Bool):
            if n.op == "union" and (n.a.measure(env0, 1) is None or n.b.measure(env0, 1) is None):
                tr["union_weights_inexact"] = True      # the library mixes with estimated operand volumes
            if n.op == "union":
                box = geo._hull_box(n, env0, 1)[0]
                P = box[0::2] + rng.random((20000, len(box) // 2)) * (box[1::2] - box[0::2])
                e = {pn: np.repeat(v, len(P), 0) for pn, v in env0.items()}
                if ((n.a.phi(P, e) <= 0) & (n.b.phi(P, e) <= 0)).mean() > 1e-4:
                    tr["overlapping_union"] = True
                    tr["union_weights_inexact"] = True
            if not (exact_b(n.a) and exact_b(n.b)):
                tr["boundary_weights_inexact"] = True   # proposals are split by estimated operand boundary measures
            walk(n.a)
            walk(n.b)
        elif isinstance(n, (geo.Moved, geo.Boundary)):
            walk(n.d)
        elif isinstance(n, geo.Product):
            pass
    walk(node)
    return tr


# ---------------------------------------------------------------------------------------------
# the tests
# ---------------------------------------------------------------------------------------------

def _uniform_test(case, D, node, Pp, env, k, N, seed, rng):
    """-> list of (row, p, description) for the rows tested"""
    target, mode = case["target"], case["mode"]
    Xs = draw(D, node, target, mode, N, case.get("nsmall", 1), Pp, env, k, seed, set_bvol=case.get("set_bvol"))
    bnode = geo.ref({"op": "boundary", "d": case["spec"]})
    out = []
    for i, X in enumerate(Xs[:3]):
        env_row = {pn: v[i:i + 1] for pn, v in env.items()}
        if len(X) < 1500:
            continue
        prim = "prim" in case["spec"] or bool(case.get("equiv"))
        uc = unit_coords(geo.ref(case["equiv"]) if case.get("equiv") else node, target, X, env_row) if prim else None
        if uc is not None:
            cnt, pr = gof_cells(*uc)
            stat, dof, p = stats.chi2_gof(cnt, pr)
            out.append((i, p, "gof chi2=%.1f dof=%d N=%d cells=%s" % (stat, dof, len(X), uc[1]), len(X),
                        math.sqrt(max(0.0, stat - dof) / len(X))))
        else:
            L = max(1.0, float(np.abs(X).max()))
            if target == "interior":
                R, box = ref_interior(node, env_row, max(len(X), 20000), rng)
            else:
                R = ref_boundary(node, bnode, env_row, max(len(X), 20000), rng, L)
                box = geo._hull_box(node, env_row, 1)[0]
            d = X.shape[1]
            # widen the partition box a little: float32 samples on the hull must not fall out of it
            w = 0.01 * np.maximum(box[1::2] - box[0::2], 1e-9)
            box = np.stack([box[0::2] - w, box[1::2] + w], 1).reshape(-1)
            g = {1: 24, 2: 8, 3: 4, 4: 3, 5: 2}[d] if target == "interior" else {1: 24, 2: 10, 3: 5, 4: 3, 5: 2}[d]
            c1, c2 = stats.box_cells(X, box, g), stats.box_cells(R, box, g)
            stat, dof, p = stats.chi2_two_sample(c1, c2)
            out.append((i, p, "two-sample chi2=%.1f dof=%d N=%d ref=%d grid=%d^%d" % (stat, dof, len(X), len(R), g, d), len(X),
                        math.sqrt(max(0.0, stat - dof) * (len(X) + len(R)) / (len(X) * len(R)))))
    return out


def run_uniform(case, res):
    info = case["info"]
    D, node, Pp, env = sampling.build_case(case)
    rng = np.random.default_rng(case["seed"])
    k = case["k"]
    env0 = {pn: v[:1] for pn, v in env.items()}
    traits = spec_traits(case["spec"], node, env0, rng)
    mech = {"fam": case["fam"], "root": info["kind"], "target": case["target"], "mode": case["mode"],
            "nsmall": case.get("nsmall") if case["mode"] == "small" else None, "dep": bool(info["dep"]),
            "dep_product": bool(isinstance(node, geo.Product) and node.dependent()), "scale": info.get("scale", 1.0),
            "abut": any("abut" in r for r in info.get("relations", [])),
            "aligned": any("aligned" in r for r in info.get("relations", [])), **traits}
    if mech["aligned"] and case["target"] == "boundary" and not case.get("equiv"):
        # pieces lying on two coincident leaf boundaries cannot be classified by the twin: no reference law, not judged
        res["counters"]["collinear_boundaries_without_exact_reference"] = res["counters"].get("collinear_boundaries_without_exact_reference", 0) + 1
        return
    try:
        first = _uniform_test(case, D, node, Pp, env, k, case["N"], case["seed"], rng)
    except Exception as e:
        res["viol"].append(viol("exception", "sampling %s of %s (mode %s) raised %s in %s: %s" % (case["target"], info["desc"], case["mode"],
                                type(e).__name__, exc_site(e), str(e)[:300]), exc=type(e).__name__, site=exc_site(e), **mech))
        return
    res["counters"]["tests"] = res["counters"].get("tests", 0) + len(first)
    for (i, p, desc, n, eff) in first:
        res["judged"] += n
    fails = [t for t in first if t[1] < stats.ALPHA]
    if fails:
        res["counters"]["replications"] = res["counters"].get("replications", 0) + 1
        c2 = dict(case)
        if case["mode"] == "small":
            c2["N"] = case["N"] * 4
        second = _uniform_test(c2, D, node, Pp, env, k, case["N"] * 4, case["seed"] + 7919, np.random.default_rng(case["seed"] + 7919))
        bad2 = {i: (p, desc, eff) for (i, p, desc, n, eff) in second if p < stats.ALPHA}
        for (i, p, desc, n, eff) in fails:
            if i in bad2:
                # effect size w = sqrt((chi2 - dof) / N) of the replication: distinguishes a small residual bias from a
                # missing weighting
                mech["effect"] = round(bad2[i][2], 3)
                res["viol"].append(viol("not_uniform", "%s of %s (mode %s%s, parameter row %d): distribution differs from the uniform law: %s "
                                        "p=%.2g; replication on a 4x sample: %s p=%.2g" % (case["target"], info["desc"], case["mode"],
                                                                                         " n=%d" % case["nsmall"] if case["mode"] == "small" else "",
                                                                                         i, desc, p, bad2[i][1], bad2[i][0]), **mech))
    if first:
        res["counters"]["min_log10_p"] = min(res["counters"].get("min_log10_p", 0), int(math.floor(math.log10(max(min(t[1] for t in first), 1e-300)))))


def run_gauss(case, res):
    import torch
    import torchphysics as tp
    info = case["info"]
    D, node, Pp, env = sampling.build_case(case)
    rng = np.random.default_rng(case["seed"])
    mech = {"fam": "gauss", "root": info["kind"]}
    R0, box = ref_interior(node, {}, 2000, rng)
    mean = R0[int(rng.integers(0, len(R0)))]
    std = case["std_rel"] * float((box[1::2] - box[0::2]).max()) * 0.5
    if case.get("mean_outside"):
        # a mean outside the bounding box is legal (only its dimension is checked): the law is still the normal law with
        # this mean conditioned on the domain
        ax = int(rng.integers(0, node.dim()))
        side = int(rng.choice([0, 1]))
        mean = mean.copy()
        mean[ax] = box[2 * ax + side] + (1 if side else -1) * rng.uniform(0.3, 0.9) * std
        mech["mean_outside"] = True
    d = node.dim()

    def one(N, seed):
        torch.manual_seed(seed)
        s = tp.samplers.GaussianSampler(D, N, mean=[float(x) for x in mean], std=float(std))
        probes.begin_call()
        X = s.sample_points().as_tensor.double().numpy()
        probes.end_call()
        r = np.random.default_rng(seed + 1)
        got = []
        have = 0
        while have < N:
            P = mean + std * r.normal(size=(4 * N, d))
            keep = node.phi(P, {}) <= 0
            got.append(P[keep])
            have += int(keep.sum())
        Rr = np.concatenate(got, 0)[:N]
        # cells: box around the mean +- 3 std intersected with the hull box
        lo = np.maximum(box[0::2], mean - 3.5 * std)
        hi = np.minimum(box[1::2], mean + 3.5 * std)
        hi = np.maximum(hi, lo + 1e-6)
        bx = np.stack([lo, hi], 1).reshape(-1)
        g = {1: 24, 2: 8, 3: 4}[d]
        stat, dof, p = stats.chi2_two_sample(stats.box_cells(X, bx, g), stats.box_cells(Rr, bx, g))
        return p, "two-sample chi2=%.1f dof=%d N=%d" % (stat, dof, N), len(X)
    try:
        p, desc, n = one(case["N"], case["seed"])
        res["judged"] += n
        res["counters"]["tests"] = res["counters"].get("tests", 0) + 1
        if n != case["N"]:
            res["viol"].append(viol("count", "GaussianSampler returned %d rows for n=%d" % (n, case["N"]), **mech))
        if p < stats.ALPHA:
            res["counters"]["replications"] = res["counters"].get("replications", 0) + 1
            p2, desc2, _ = one(case["N"] * 4, case["seed"] + 7919)
            if p2 < stats.ALPHA:
                res["viol"].append(viol("not_gaussian", "GaussianSampler on %s (mean %s std %.3g): sample differs from the normal law conditioned on "
                                        "the domain: %s p=%.2g; replication %s p=%.2g" % (info["desc"], np.round(mean, 3).tolist(), std, desc, p, desc2, p2), **mech))
    except Exception as e:
        res["viol"].append(viol("exception", "GaussianSampler on %s raised %s in %s: %s" % (info["desc"], type(e).__name__, exc_site(e), str(e)[:300]),
                                exc=type(e).__name__, site=exc_site(e), **mech))


def run_lhs(case, res):
    import torch
    import torchphysics as tp
    D, node, Pp, env = sampling.build_case(case)
    n = case["n"]
    k = case["k"]
    kk = max(k, 1)
    mech = {"fam": "lhs", "dim": node.dim(), "k": "k0" if k == 0 else "k+"}
    names = [nm for nm, _ in node.space()]
    fracs = []
    nreps = max(5 * kk, int(math.ceil(4000.0 / (n * node.dim()))) if n <= 64 else 5 * kk)
    for rep in range(nreps):
        row = rep % kk
        box = node.bbox({pn: v[row:row + 1] for pn, v in env.items()}, 1)[0]
        try:
            probes.begin_call()
            pts = tp.samplers.LHSSampler(D, n).sample_points(Pp) if k else tp.samplers.LHSSampler(D, n).sample_points()
            probes.end_call()
            Xall = np.concatenate([pts.coordinates[nm].double().numpy().reshape(len(pts), -1) for nm in names], 1)
            if len(Xall) != n * kk:
                res["viol"].append(viol("count", "LHSSampler returned %d rows for n=%d and %d parameter rows" % (len(Xall), n, k), **mech))
                return
            X = Xall[row * n:(row + 1) * n]
        except Exception as e:
            res["viol"].append(viol("exception", "LHSSampler(n=%d) on a box raised %s in %s: %s" % (n, type(e).__name__, exc_site(e), str(e)[:300]),
                                    exc=type(e).__name__, site=exc_site(e), **mech))
            return
        res["judged"] += 1
        res["counters"]["lhs_samples"] = res["counters"].get("lhs_samples", 0) + 1
        if len(X) != n:
            res["viol"].append(viol("count", "LHSSampler returned %d rows for n=%d" % (len(X), n), **mech))
            return
        for a in range(node.dim()):
            lo, hi = box[2 * a], box[2 * a + 1]
            u = (X[:, a] - lo) / (hi - lo) * n
            # exactly one point per slab <=> the i-th smallest point lies in slab i (float32 rounding at the borders allowed)
            fracs.append(np.clip(u - np.floor(np.clip(u, 0, n - 1e-9)), 0.0, 1.0))
            us = np.sort(u)
            i = np.arange(n)
            if ((us < i - 1e-3) | (us > i + 1 + 1e-3)).any():
                cnt = np.bincount(np.clip(np.floor(u).astype(int), 0, n - 1), minlength=n)
                res["viol"].append(viol("lhs_not_one_per_slab", "LHSSampler(n=%d), axis %d: slab counts %s (every slab must hold exactly one point)"
                                        % (n, a, cnt.tolist()[:20]), **mech))
                return
        if node.dim() == 2 and n >= 17:
            # the axes must be permuted independently: points on the diagonal have rank correlation 1
            r0 = np.argsort(np.argsort(X[:, 0]))
            r1 = np.argsort(np.argsort(X[:, 1]))
            rho = np.corrcoef(r0, r1)[0, 1]
            if abs(rho) > 6.5 / math.sqrt(n - 1) and abs(rho) > 0.9:
                res["viol"].append(viol("lhs_axes_dependent", "LHSSampler(n=%d): rank correlation of the two axes is %.3f" % (n, rho), **mech))
                return
    _lhs_within_slab(fracs, n, res, mech)


def _lhs_within_slab(fracs, n, res, mech):
    """the position of the points inside their slabs is uniform (the whole box is proposed, not a part of every cell)"""
    f = np.concatenate(fracs) if fracs else np.zeros(0)
    if len(f) < 2000:
        return
    cnt = np.bincount(np.clip((f * 20).astype(int), 0, 19), minlength=20)
    stat, dof, p = stats.chi2_gof(cnt, np.full(20, 0.05))
    res["judged"] += 1
    res["counters"]["lhs_within_slab_tests"] = res["counters"].get("lhs_within_slab_tests", 0) + 1
    if p < stats.ALPHA:
        res["viol"].append(viol("lhs_not_uniform_in_slab", "LHSSampler(n=%d): positions inside the slabs are not uniform (20 bins: %s of %d points, "
                                "chi2=%.1f p=%.2g)" % (n, cnt.tolist(), len(f), stat, p), **mech))


def run_grid(case, res):
    import torch
    info = case["info"]
    D, node, Pp, env = sampling.build_case(case)
    rng = np.random.default_rng(case["seed"])
    n = case["n"]
    traits = spec_traits(case["spec"], node, {}, rng)
    mech = {"fam": "grid", "root": info["kind"], **traits}
    try:
        probes.begin_call()
        X = D.sample_grid(n=n).as_tensor.double().numpy()
        probes.end_call()
    except Exception as e:
        res["viol"].append(viol("exception", "sample_grid(n=%d) on %s raised %s in %s: %s" % (n, info["desc"], type(e).__name__, exc_site(e), str(e)[:300]),
                                exc=type(e).__name__, site=exc_site(e), **mech))
        return
    R, box = ref_interior(node, {}, 200000, rng)
    d = node.dim()
    g = {1: 4, 2: 3, 3: 2}[d]
    cg, cr = stats.box_cells(X, box, g)[:-1], stats.box_cells(R, box, g)[:-1]
    share = cr / cr.sum()
    meas = _measure_est(node, {}, "interior")
    h = (meas / n) ** (1.0 / d)
    cell = (box[1::2] - box[0::2]) / g
    if d == 1:
        surf = 2.0
    elif d == 2:
        surf = 2 * (cell[0] + cell[1]) / h
    else:
        surf = 2 * (cell[0] * cell[1] + cell[1] * cell[2] + cell[0] * cell[2]) / h ** 2
    tol = 3 * surf + 3 + 4 * np.sqrt(n * share)
    dev = np.abs(cg - n * share)
    res["judged"] += 1
    res["counters"]["grid_samples"] = res["counters"].get("grid_samples", 0) + 1
    res["counters"]["grid_cells_checked"] = res["counters"].get("grid_cells_checked", 0) + int(len(cg))
    if len(X) != n:
        res["viol"].append(viol("count", "sample_grid(n=%d) on %s returned %d points" % (n, info["desc"], len(X)), **mech))
        return
    if (dev > tol).any():
        j = int(np.argmax(dev - tol))
        res["viol"].append(viol("grid_not_even", "sample_grid(n=%d) on %s: coarse cell %d of the %d^%d partition holds %d points, its share of the "
                                "measure is %.4f (expected %.1f +- %.1f)" % (n, info["desc"], j, g, d, cg[j], share[j], n * share[j], tol[j]), **mech))


def run_bgrid(case, res):
    """boundary.sample_grid(n) of an operation with two complete boundary parts: each part holds its share of the points"""
    info = case["info"]
    D, node, Pp, env = sampling.build_case(case)
    n = case["n"]
    mech = {"fam": "bgrid", "root": info["kind"], "op": case["spec"]["op"]}
    try:
        probes.begin_call()
        X = D.boundary.sample_grid(n=n).as_tensor.double().numpy()
        probes.end_call()
    except Exception as e:
        res["viol"].append(viol("exception", "boundary.sample_grid(n=%d) on %s raised %s in %s: %s" % (n, info["desc"], type(e).__name__, exc_site(e),
                                str(e)[:300]), exc=type(e).__name__, site=exc_site(e), **mech))
        return
    res["judged"] += 1
    res["counters"]["boundary_grid_samples"] = res["counters"].get("boundary_grid_samples", 0) + 1
    if len(X) != n:
        res["viol"].append(viol("count", "boundary.sample_grid(n=%d) on %s returned %d points" % (n, info["desc"], len(X)), **mech))
        return
    fa, fb = np.abs(node.a.phi(X, {})), np.abs(node.b.phi(X, {}))
    on_b = fb < fa
    la, lb = float(node.a.bmeasure({}, 1)[0]), float(node.b.bmeasure({}, 1)[0])
    want = n * lb / (la + lb)
    got = int(on_b.sum())
    tol = 4 + 0.25 * want                    # rounding of the two grid sizes plus the end points of the part grids
    if abs(got - want) > tol:
        res["viol"].append(viol("grid_not_even", "boundary.sample_grid(n=%d) on %s: %d points on the boundary of the second operand (length %.3g "
                                "of %.3g in total), expected %.1f +- %.1f" % (n, info["desc"], got, lb, la + lb, want, tol), **mech))


def run_case(case):
    res = {"cls": "", "judged": 0, "nontrivial": False, "viol": [], "counters": {}}
    info = case["info"]
    shape = "".join(c for c in info["desc"] if not c.isdigit())
    fam = case["fam"]
    kc = "k0" if case["k"] == 0 else ("k1" if case["k"] == 1 else "k+")
    res["cls"] = "%s|%s|%s|%s|%s" % (fam, shape, case.get("target", "-"), case.get("mode", "-") + (str(case.get("nsmall")) if case.get("mode") == "small" else ""), kc)
    if fam in ("prim", "comp"):
        run_uniform(case, res)
        res["nontrivial"] = res["judged"] >= 2000
    elif fam == "gauss":
        run_gauss(case, res)
        res["nontrivial"] = res["judged"] >= 2000
    elif fam == "bgrid":
        run_bgrid(case, res)
        res["nontrivial"] = res["judged"] >= 1
    elif fam == "lhs":
        run_lhs(case, res)
        res["nontrivial"] = res["judged"] >= 1
    else:
        run_grid(case, res)
        res["nontrivial"] = res["judged"] >= 1
    return res


def warmup():
    import scipy.stats  # noqa: F401


def sample_of(case, r):
    return {"family": case.get("fam"), "spec": case.get("spec"), "rows": case.get("rows"), "target": case.get("target"),
            "mode": case.get("mode"), "n": case.get("n", case.get("nsmall")), "class": r.get("cls"), "points": r.get("judged"),
            "status": r.get("status")}
