"""C08 -- models are row-wise functions of named variables.

Metamorphic monitors around the real `forward` of FCN, Harmonic_FCN, Polynomial_FCN, QRES, DeepRitzNet,
NormalizationLayer, Sequential and Parallel (eval mode, fixed random weights):

  perm      the same data presented with the variables of the Points in another order gives the identical
            output tensor and the expected output space;
  reject    an input lacking a required variable (dropped, or replaced by a differently named variable of the
            same dimension) raises;
  rows      a row's output does not change when the other rows are replaced / permuted / dropped or when the
            row is embedded in another batch; (B1,B2,d) == (B1*B2,d) == (B2,B1,d) arrangements;
  compose   Sequential(m1,..,mk)(P) == mk(..m1(P)), Parallel(m1,..)(P) == join of mi evaluated on its own
            variables -- at every composition node of the model tree, each part being presented its input in
            its own declared order from a coordinate dictionary kept by the monitor;
  norm      NormalizationLayer(domain) maps extreme points (and random points) of the domain into [-1,1]^d.

Nothing here uses the library to judge: the oracles are equalities between outputs of the real code on
related inputs, and the monitor's own bookkeeping of variable names / domain geometry.
"""
import itertools

import numpy as np
import torch

from ..core import viol, exc_site, Inconclusive
from .. import c08_models as M

LEVEL = "exploration"
RULE = ("seeded generator over top-level kind (8 model classes) x 1-4 input variables of dims 1-3 (names in "
        "non-alphabetical orders) x random hyper-parameters (depth/width/activations incl. adaptive, ReLU^n, sinus; "
        "frequencies; polynomial degree and residual connections; Deep-Ritz width/depth; interval/rectangle/circle "
        "product domains) x nested Sequential/Parallel trees of depth <= 3 (parts sharing variables, declaring them "
        "in other orders) x batch 1-64 in 1 or 2 batch axes x float32/float64.  A case is non-trivial when at least "
        "one deciding comparison was made on >= 2 variables or >= 2 rows; distinct = (top kind, #variables, #batch "
        "axes, dtype, batch class, tree depth).")
RULE += '; a fifth of the cases evaluate one batch of 1000-65537 rows with or without autograd and re-evaluate picked rows and the tail as their own batch'
REQUIRED_REACH = ["Model._fix_points_order", "Parallel.forward", "Sequential.forward", "Points.joined",
                  "FCN.forward", "Harmonic_FCN.forward", "Polynomial_FCN.forward", "QRES.forward", "Quadratic.forward",
                  "DeepRitzNet.forward", "NormalizationLayer.forward", "NormalizationLayer.__init__",
                  "AdaptiveActivationFunction.forward", "ReLUn.forward", "relu_n.forward", "Sinus.forward"]
MIN_NONTRIVIAL = 40
ASSUMPTIONS = [
    "eval mode, torch.no_grad, weights as initialised by the constructors under a per-case torch seed",
    "equalities that involve the same kernels on the same rows (variable order, replaced rows, compositions) are "
    "judged with 1e-6 (float32) / 1e-12 (float64) relative to max(1,|out|); observed bitwise equal on the pinned tree",
    "equalities across different batch sizes / row positions allow BLAS blocking effects: 2e-5 (float32, observed "
    "<= 5e-7) / 1e-10 (float64) relative to max(1,|out|)",
    "Polynomial_FCN (and compositions containing it) is only exercised with one batch axis: its forward expands the "
    "weights to len(points) and is written for (batch, dim) inputs",
    "NormalizationLayer is judged on domains whose extreme points the monitor computes itself (intervals, "
    "axis-aligned parallelograms, circles and their products); only 'into [-1,1]^d' is judged, with a rounding "
    "allowance 1e-6 + 16*eps32*2*max|bound|/width per coordinate (the layer's box is float32)",
    "an input with an additional, unused variable is not judged (the property speaks of lacking variables)",
]
CASE_TIMEOUT = 120


# ---------------------------------------------------------------------------------------------
# workload
# ---------------------------------------------------------------------------------------------

BIG_N = [1000, 1025, 2500, 4097, 16385, 20000, 40001, 65537]


def gen_cases(seed, tier):
    rng = np.random.default_rng([seed, 8])
    n = 720 if tier == "quick" else 30000
    big = tier != "quick"
    cases = []
    for i in range(n):
        kind = M.KINDS[i % len(M.KINDS)] if rng.random() < 0.8 else str(rng.choice(["Sequential", "Parallel", "QRES"]))
        nvars = int(rng.choice([1, 2, 3, 4], p=[0.12, 0.38, 0.3, 0.2]))
        depth = int(rng.choice([1, 2, 3], p=[0.55, 0.35, 0.10])) if kind in ("Sequential", "Parallel") else 1
        spec, raw_domains = M.gen_top(rng, kind, nvars, depth, big=big and rng.random() < 0.3)
        two = M.multi_axis_ok(spec) and rng.random() < 0.45
        if two:
            batch = [int(rng.integers(1, 9)), int(rng.integers(1, 9))]
            if rng.random() < 0.3:
                batch[1] = batch[0]                     # square arrangements hide fewer transposition bugs
        else:
            batch = [int(rng.choice([1, 2, 3, int(rng.integers(4, 17)), int(rng.integers(17, 65))]))]
        cases.append({"spec": spec, "raw_domains": raw_domains, "batch": batch, "dtype": "float64" if rng.random() < 0.4 else "float32",
                      "seed": int(rng.integers(0, 2 ** 31)), "perm_budget": 6 if tier == "quick" else 24})
        if i % 5 == 3:
            # one large batch (plot / evaluation sized), with and without autograd; sizes around typical chunk sizes
            # (5 is coprime to the number of kinds; the size index moves on with every round through the kinds)
            m = i // 5
            cases[-1]["bign"] = int(BIG_N[(m // 8 + m) % len(BIG_N)])
            cases[-1]["big_grad"] = (m // 8) % 3 == 1
    return cases


def _bclass(batch):
    n = int(np.prod(batch))
    return "1" if n == 1 else ("2-8" if n <= 8 else "9-64")


def _cls(c):
    s = c["spec"]
    return "%s/v%d/ax%d/%s/b%s/d%d%s" % (s["k"], len(s["in"]), len(c["batch"]), c["dtype"], _bclass(c["batch"]),
                                         M.depth_of(s), "/big%s" % ("g" if c.get("big_grad") else "") if c.get("bign") else "")


# ---------------------------------------------------------------------------------------------
# monitors
# ---------------------------------------------------------------------------------------------

class _Ctx:
    def __init__(self, c, res):
        self.c = c
        self.res = res
        self.f64 = c["dtype"] == "float64"
        self.dt = torch.float64 if self.f64 else torch.float32
        self.tol_exact = 1e-12 if self.f64 else 1e-6
        self.tol_blas = 1e-10 if self.f64 else 2e-5
        self.mech = {"model": c["spec"]["k"], "kinds": "+".join(M.kinds_in(c["spec"])), "axes": len(c["batch"])}
        self.decisive = 0
        self.col_chaos = 0.0
        self.noise = 0.0          # estimated size of float rounding noise in the output (see _rounding_noise)

    def count(self, k, n=1):
        self.res["counters"][k] = self.res["counters"].get(k, 0) + n

    def violate(self, kind, msg, **kw):
        m = dict(self.mech)
        m.update(kw)
        self.res["viol"].append(viol(kind, msg, **m))


def _fwd(ctx, model, data, order, grad=False):
    P = M.mk_points(data, order)
    ctx.count("forward_calls")
    before = P.as_tensor.clone()
    if grad:
        P.as_tensor.requires_grad_(True)       # autograd really records the evaluation
    with (torch.enable_grad() if grad else torch.no_grad()):
        out = model(P)
    if not torch.equal(P.as_tensor, before) and not ctx.res.get("_input_modified_reported"):
        # a model is a function of its input: the caller's points are the same after the call
        ctx.res["_input_modified_reported"] = True
        ctx.violate("input_modified", "forward changed the Points object it was called with (variables stored as %s, max |change| %.3g)"
                    % (order, float((P.as_tensor - before).abs().max())), monitor="input")
    return out.as_tensor.detach(), M.space_pairs(out.space)


def _diff(a, b):
    """(max abs difference, bitwise equal); inf on shape or finiteness mismatch."""
    if tuple(a.shape) != tuple(b.shape):
        return float("inf"), False
    if torch.equal(a, b):
        return 0.0, True
    d = (a - b).abs()
    if not bool(torch.isfinite(d).all()):
        return float("inf"), False
    return float(d.max()) if d.numel() else 0.0, False


def _judge(ctx, monitor, got, want, tol, scale, what, kind, **kw):
    d, bit = _diff(got, want)
    ctx.res["judged"] += 1
    ctx.count(monitor + "_compared")
    if bit:
        ctx.count(monitor + "_bitwise_equal")
    allowed = max(tol * scale, (64 if tol == ctx.tol_blas else 16) * ctx.noise)
    if d < float("inf") and allowed > 0:
        ctx.res["worst_ratio"] = max(ctx.res.get("worst_ratio", 0.0), d / allowed)
    if allowed > tol * scale:
        ctx.count("comparisons_with_amplified_tolerance")
    if not d <= allowed:
        ctx.violate(kind, "%s: max |difference| %.3g (allowed %.3g, output scale %.3g, shapes %s vs %s)"
                    % (what, d, allowed, scale, tuple(got.shape), tuple(want.shape)), monitor=monitor, **kw)
        return False
    return True


def _rounding_noise(ctx, other, data, decl, y0):
    """Size of the float rounding noise in this model's output on these rows: the same weights and the same rows
    evaluated in the other precision (float32 <-> float64 copy of the model).  |y32 - y64| is the accumulated
    float32 rounding error; for a float64 model it is scaled by eps64/eps32.  Used only to widen the comparison
    tolerances of ill-conditioned random nets (deep quadratic / polynomial chains) and to skip chaotic ones."""
    od = torch.float32 if ctx.f64 else torch.float64
    try:
        y = _fwd(ctx, other, {k: v.to(od) for k, v in data.items()}, decl)[0]
    except Exception:
        return float("inf"), float("inf")
    d = (y.to(torch.float64) - y0.to(torch.float64)).abs()
    if not bool(torch.isfinite(d).all()):
        return float("inf"), float("inf")
    err32 = float(d.max())
    # the chaos test is per output column: a bounded column (sin of a huge polynomial) next to a huge one would
    # otherwise hide behind the global output scale
    flat_d = d.reshape(-1, d.shape[-1])
    flat_y = y0.to(torch.float64).abs().reshape(-1, d.shape[-1])
    if flat_d.numel():
        col = flat_d.max(0).values / flat_y.max(0).values.clamp(min=1.0)
        ctx.col_chaos = float(col.max())
    return err32 * (1.9e-9 if ctx.f64 else 1.0), err32


def _rand(ctx, g, shape, name=None):
    """Fresh rows of one variable: U(-1,1), or points of the domain a normalisation layer expects for it."""
    f = ctx.c.get("raw_domains", {}).get(name)
    if f is not None:
        n = int(np.prod(shape[:-1]))
        seed = int(torch.randint(0, 2 ** 31 - 1, (1,), generator=g))
        pts = M.sample_factor(f, np.random.default_rng(seed), n)
        return torch.as_tensor(pts, dtype=torch.float64).reshape(shape).to(ctx.dt)
    return (torch.rand(shape, generator=g, dtype=torch.float64) * 2 - 1).to(ctx.dt)


def _monitor_perm(ctx, model, data, decl, y0, scale, rng):
    spec = ctx.c["spec"]
    names = list(decl)
    if len(names) < 2:
        return
    perms = [list(p) for p in itertools.permutations(names) if list(p) != names]
    if len(perms) > ctx.c["perm_budget"]:
        idx = rng.choice(len(perms), size=ctx.c["perm_budget"], replace=False)
        perms = [perms[i] for i in sorted(idx)]
    for order in perms:
        try:
            y, sp = _fwd(ctx, model, data, order)
        except Exception as e:
            ctx.violate("exception", "forward raised %r for the variable order %s (declared %s)" % (e, order, names),
                        monitor="perm", site=exc_site(e), exc=type(e).__name__)
            continue
        ctx.count("reordered_inputs")
        ok = _judge(ctx, "perm", y, y0, ctx.tol_exact, scale,
                    "variables presented as %s instead of %s" % (order, names), "order_dependent")
        if sp != spec["out"]:
            ctx.violate("output_space", "output space %s for order %s, expected %s" % (sp, order, spec["out"]),
                        monitor="perm")
        if ok:
            ctx.decisive += 1


def _monitor_reject(ctx, model, data, decl, rng):
    names = list(decl)
    pick = names if len(names) <= 3 else [names[i] for i in sorted(rng.choice(len(names), size=3, replace=False))]
    for v in pick:
        variants = []
        if len(names) > 1:
            variants.append(("dropped", {k: data[k] for k in names if k != v}, [k for k in names if k != v]))
        ren = {("w_" + k if k == v else k): data[k] for k in names}
        variants.append(("renamed", ren, ["w_" + k if k == v else k for k in names]))
        if len(names) > 1:
            moved = [k for k in names if k != v] + ["w_" + v]
            variants.append(("renamed_moved", ren, moved if moved != variants[-1][2] else moved[::-1]))
        for tag, d, order in variants:
            ctx.res["judged"] += 1
            ctx.count("reject_expected")
            try:
                y, sp = _fwd(ctx, model, d, order)
            except Exception:
                ctx.count("rejected_inputs")
                ctx.decisive += 1
                continue
            ctx.violate("missing_variable_accepted",
                        "input with variables %s (required variable %r %s) was accepted by a model declaring %s; "
                        "returned shape %s" % (order, v, tag, names, tuple(y.shape)), monitor="reject", variant=tag)


def _monitor_rows(ctx, model, data, decl, y0, scale, rng, g):
    c = ctx.c
    names = list(decl)
    dims = {k: data[k].shape[-1] for k in names}
    N = int(np.prod(c["batch"]))
    flat = {k: data[k].reshape(N, dims[k]) for k in names}
    odim = y0.shape[-1]
    y0f = y0.reshape(N, odim)

    def run(d, what):
        try:
            return _fwd(ctx, model, d, names)[0]
        except Exception as e:
            ctx.violate("exception", "forward raised %r for %s" % (e, what), monitor="rows", site=exc_site(e),
                        exc=type(e).__name__)
            return None

    if len(c["batch"]) == 2:
        b1, b2 = c["batch"]
        yf = run(flat, "the flattened batch (%d,)" % N)
        if yf is not None:
            if _judge(ctx, "arrange", yf, y0f, ctx.tol_blas, scale, "(%d,%d,d) vs (%d,d) arrangement" % (b1, b2, N),
                      "arrangement_dependent", arrangement="flat"):
                ctx.decisive += 1
        yt = run({k: flat[k].reshape(b2, b1, dims[k]) for k in names}, "the arrangement (%d,%d)" % (b2, b1))
        if yt is not None:
            _judge(ctx, "arrange", yt.reshape(N, odim), y0f, ctx.tol_blas, scale,
                   "(%d,%d,d) vs (%d,%d,d) arrangement of the same rows" % (b1, b2, b2, b1), "arrangement_dependent",
                   arrangement="regrouped")
        ytr = run({k: data[k].transpose(0, 1) for k in names}, "the transposed batch axes")
        if ytr is not None:
            _judge(ctx, "arrange", ytr.transpose(0, 1).reshape(N, odim), y0f, ctx.tol_blas, scale,
                   "batch axes transposed", "arrangement_dependent", arrangement="transposed")
        # replace all other rows inside the two-axis arrangement
        r = int(rng.integers(0, N))
        new = {k: _rand(ctx, g, (N, dims[k]), k) for k in names}
        for k in names:
            new[k][r] = flat[k][r]
        y = run({k: new[k].reshape(b1, b2, dims[k]) for k in names}, "replaced rows, two batch axes")
        if y is not None and N > 1:
            if _judge(ctx, "replace", y.reshape(N, odim)[r:r + 1], y0f[r:r + 1], ctx.tol_exact, scale,
                      "row %d of (%d,%d) after replacing every other row" % (r, b1, b2), "row_dependent",
                      how="replace"):
                ctx.decisive += 1
        base = yf if yf is not None else y0f
    else:
        base = y0f

    # replace: same batch size, same position, other rows fresh
    for _ in range(2 if N > 1 else 0):
        r = int(rng.integers(0, N))
        new = {k: _rand(ctx, g, (N, dims[k]), k) for k in names}
        for k in names:
            new[k][r] = flat[k][r]
        y = run(new, "replaced rows")
        if y is not None and _judge(ctx, "replace", y[r:r + 1], base[r:r + 1], ctx.tol_exact, scale,
                                    "row %d of %d after replacing every other row" % (r, N), "row_dependent",
                                    how="replace"):
            ctx.decisive += 1
    # permute rows
    if N > 1:
        p = torch.as_tensor(rng.permutation(N))
        y = run({k: flat[k][p] for k in names}, "permuted rows")
        if y is not None and _judge(ctx, "permute", y, base[p], ctx.tol_blas, scale, "rows permuted (batch %d)" % N,
                                    "row_dependent", how="permute"):
            ctx.decisive += 1
    # drop rows: a random subset and a single row
    if N > 1:
        m = int(rng.integers(1, N))
        S = torch.as_tensor(np.sort(rng.choice(N, size=m, replace=False)))
        y = run({k: flat[k][S] for k in names}, "sub-batch")
        if y is not None and _judge(ctx, "subset", y, base[S], ctx.tol_blas, scale,
                                    "sub-batch of %d of %d rows" % (m, N), "row_dependent", how="subset"):
            ctx.decisive += 1
        r = int(rng.integers(0, N))
        y = run({k: flat[k][r:r + 1] for k in names}, "single row")
        if y is not None:
            _judge(ctx, "subset", y, base[r:r + 1], ctx.tol_blas, scale, "row %d of %d evaluated alone" % (r, N),
                   "row_dependent", how="single")
    # embed a row in another batch at another position
    n2 = int(rng.integers(2, 65))
    r, r2 = int(rng.integers(0, N)), int(rng.integers(0, n2))
    new = {k: _rand(ctx, g, (n2, dims[k]), k) for k in names}
    for k in names:
        new[k][r2] = flat[k][r]
    y = run(new, "embedded row")
    if y is not None and _judge(ctx, "embed", y[r2:r2 + 1], base[r:r + 1], ctx.tol_blas, scale,
                                "row %d of %d embedded as row %d of a fresh batch of %d" % (r, N, r2, n2),
                                "row_dependent", how="embed"):
        ctx.decisive += 1


def _monitor_big(ctx, model, decl, dims, scale, rng, g):
    """One evaluation-sized batch: rows picked from it (first, last, around powers of two, random) evaluated as a small
    batch of their own give the same values, whether autograd records or not."""
    c = ctx.c
    n = int(c["bign"])
    names = list(decl)
    data = {k: _rand(ctx, g, (n, dims[k]), k) for k in names}
    grad = bool(c.get("big_grad"))
    try:
        yb = _fwd(ctx, model, data, names, grad=grad)[0]
    except Exception as e:
        ctx.violate("exception", "forward raised %r for a batch of %d rows (autograd %s)" % (e, n, "on" if grad else "off"),
                    monitor="big", site=exc_site(e), exc=type(e).__name__)
        return
    ctx.count("big_batches")
    if yb.shape[0] != n:
        ctx.violate("shape", "output has %d rows for a batch of %d rows" % (yb.shape[0], n), monitor="big")
        return
    pick = {0, n - 1, n // 2}
    for b in (1023, 1024, 4095, 4096, 16383, 16384, 32767, 32768, 65535, 65536):
        if b < n:
            pick.add(b)
    pick.update(int(v) for v in rng.integers(0, n, 12))
    t0 = max(0, n - 700)
    od = torch.float32 if ctx.f64 else torch.float64
    for S, what, g2 in ((torch.as_tensor(sorted(pick)), "picked", not grad), (torch.arange(t0, n), "the last", False)):
        sub = {k: data[k][S] for k in names}
        ys = _fwd(ctx, model, sub, names, grad=g2)[0]
        # rows on which the random net is well conditioned (same weights in the other precision agree to 3 digits);
        # overflowing or chaotic rows of a large random batch decide nothing
        try:
            yo = _fwd(ctx, ctx.other, {k: v.to(od) for k, v in sub.items()}, names)[0].to(torch.float64)
        except Exception:
            ctx.count("big_reference_failed")
            continue
        d = (yo - ys.to(torch.float64)).abs()
        rowscale = ys.to(torch.float64).abs().amax(-1).clamp(min=1.0)
        good = torch.isfinite(d).all(-1) & torch.isfinite(ys).all(-1) & (d.amax(-1) <= 1e-3 * rowscale)
        good &= rowscale <= 1e3 * scale
        ctx.count("big_rows_ill_conditioned_skipped", int((~good).sum()))
        if not bool(good.any()):
            continue
        noise0 = ctx.noise
        ctx.noise = max(noise0, float(d[good].max()) * (1.9e-9 if ctx.f64 else 1.0))
        ok = _judge(ctx, "big", yb[S][good], ys[good], ctx.tol_blas, max(scale, float(rowscale[good].max())),
                    "%s %d rows of a batch of %d (autograd %s) evaluated as their own batch (autograd %s)"
                    % (what, int(good.sum()), n, "on" if grad else "off", "on" if g2 else "off"), "row_dependent", how="big")
        ctx.noise = noise0
        ctx.count("big_rows_compared", int(good.sum()))
        if ok:
            ctx.decisive += 1


def _compose(ctx, model, spec, data, scale, path):
    """Own composition of the model tree; compares the library's composition nodes against it."""
    k = spec["k"]
    order = [n for n, _ in spec["in"]]
    if k not in ("Sequential", "Parallel"):
        t, sp = _fwd(ctx, model, data, order)
        if sp != spec["out"]:
            ctx.violate("output_space", "%s at %s returned space %s, expected %s" % (k, path, sp, spec["out"]),
                        monitor="compose", node=k)
        return t
    subs = M.submodels(model)
    if len(subs) != len(spec["sub"]):
        raise Inconclusive("model tree does not match the spec")
    if k == "Sequential":
        cur = data
        for i, (ss, sm) in enumerate(zip(spec["sub"], subs)):
            t = _compose(ctx, sm, ss, cur, scale, path + "/%d:%s" % (i, ss["k"]))
            cur = M.to_dict(t, ss["out"])
        own = t
    else:
        outs = []
        for i, (ss, sm) in enumerate(zip(spec["sub"], subs)):
            outs.append(_compose(ctx, sm, ss, {n: data[n] for n, _ in ss["in"]}, scale,
                                 path + "/%d:%s" % (i, ss["k"])))
        own = torch.cat(outs, dim=-1)
    lib, sp = _fwd(ctx, model, data, order)
    mon = "sequential" if k == "Sequential" else "parallel"
    ok = _judge(ctx, mon, lib, own, ctx.tol_exact, scale,
                "%s at %s (%d parts: %s) vs the monitor's own %s" % (k, path, len(subs),
                                                                      ",".join(s["k"] for s in spec["sub"]),
                                                                      "composition" if k == "Sequential" else "join"),
                "sequential_not_composition" if k == "Sequential" else "parallel_not_join", node=k,
                parts=len(subs))
    if sp != spec["out"]:
        ctx.violate("output_space", "%s at %s returned space %s, expected %s" % (k, path, sp, spec["out"]),
                    monitor="compose", node=k)
    if ok:
        ctx.decisive += 1
    return own


def _monitor_norm(ctx, model, spec, rng):
    """Every NormalizationLayer of the tree is evaluated on own extreme points of its domain."""
    if spec["k"] in ("Sequential", "Parallel"):
        for ss, sm in zip(spec["sub"], M.submodels(model)):
            _monitor_norm(ctx, sm, ss, rng)
        return
    if spec["k"] != "NormalizationLayer":
        return
    fac = spec["domain"]
    ext, inner = M.domain_test_points(fac, rng)
    rows = np.concatenate([ext, inner], axis=0)
    pairs = [[f["var"], 1 if f["d"] == "interval" else 2] for f in fac]
    data = M.to_dict(torch.as_tensor(rows, dtype=torch.float64).to(ctx.dt), pairs)
    order = [p[0] for p in pairs]
    if rng.random() < 0.5:
        order = order[::-1]
    try:
        y, sp = _fwd(ctx, model, data, order)
    except Exception as e:
        ctx.violate("exception", "NormalizationLayer raised %r on points of its domain" % (e,), monitor="norm",
                    site=exc_site(e), exc=type(e).__name__)
        return
    # per-coordinate rounding allowance from own bounds
    tol = []
    for f in fac:
        if f["d"] == "interval":
            bs = [(f["a"], f["b"])]
        elif f["d"] == "rect":
            bs = [(f["o"][0], f["o"][0] + f["w"]), (f["o"][1], f["o"][1] + f["h"])]
        else:
            bs = [(f["c"][0] - f["r"], f["c"][0] + f["r"]), (f["c"][1] - f["r"], f["c"][1] + f["r"])]
        for lo, hi in bs:
            tol.append(1e-6 + 16 * 1.2e-7 * 2 * max(abs(lo), abs(hi)) / (hi - lo))
    tol = torch.tensor(tol, dtype=y.dtype)
    if tuple(y.shape) != (len(rows), len(tol)):
        ctx.violate("shape", "NormalizationLayer output shape %s for %d rows of dim %d" % (tuple(y.shape), len(rows),
                                                                                             len(tol)), monitor="norm")
        return
    ctx.res["judged"] += len(rows)
    ctx.count("norm_points_judged", len(rows))
    ctx.count("norm_extreme_points", len(ext))
    ctx.count("norm_coordinates_at_pm1", int(((y[:len(ext)].abs() - 1).abs() <= tol).sum()))
    bad = (y.abs() > 1 + tol) | ~torch.isfinite(y)
    if bool(bad.any()):
        i = int(torch.nonzero(bad.any(dim=1))[0])
        ctx.violate("normalization_out_of_range",
                    "point %s of the domain %s (%s) is mapped to %s, outside [-1,1]^%d"
                    % (rows[i].tolist(), [f["d"] for f in fac], "extreme point" if i < len(ext) else "inner point",
                       [round(float(v), 6) for v in y[i]], len(tol)), monitor="norm",
                    factors="+".join(sorted({f["d"] for f in fac})), ndim=len(tol))
    else:
        ctx.decisive += 1
    if sp != spec["out"]:
        ctx.violate("output_space", "NormalizationLayer returned space %s, expected %s" % (sp, spec["out"]),
                    monitor="norm")


# ---------------------------------------------------------------------------------------------
# case driver
# ---------------------------------------------------------------------------------------------

def run_case(c):
    res = {"cls": _cls(c), "judged": 0, "nontrivial": False, "viol": [], "counters": {}}
    ctx = _Ctx(c, res)
    spec = c["spec"]
    torch.manual_seed(c["seed"])
    try:
        model = M.build(spec)
    except Exception as e:
        raise Inconclusive("generated spec could not be built: %r" % (e,))
    torch.manual_seed(c["seed"])
    other = M.build(spec)                 # the same weights in the other precision (float32 values in both)
    other.load_state_dict(model.state_dict())
    if ctx.f64:
        model = model.double()
    else:
        other = other.double()
    model.eval()
    other.eval()
    for p in list(model.parameters()) + list(other.parameters()):
        p.requires_grad_(False)
    state0 = {k: v.clone() for k, v in model.state_dict().items()}
    decl = list(model.input_space.keys())
    if sorted(decl) != sorted(n for n, _ in spec["in"]):
        raise Inconclusive("declared input space %s differs from the generated one %s" % (decl, spec["in"]))
    dims = dict((n, d) for n, d in spec["in"])
    rng = np.random.default_rng(c["seed"])
    g = torch.Generator().manual_seed(c["seed"] + 1)
    data = {n: _rand(ctx, g, tuple(c["batch"]) + (dims[n],), n) for n in decl}
    ctx.count("models_built")
    for s in M.walk(spec):
        ctx.count("node_" + s["k"])

    try:
        y0, sp0 = _fwd(ctx, model, data, decl)
    except Exception as e:
        ctx.violate("exception", "forward raised %r on an in-contract input (declared order, batch %s)"
                    % (e, c["batch"]), monitor="base", site=exc_site(e), exc=type(e).__name__)
        return res
    odim = sum(d for _, d in spec["out"])
    if sp0 != spec["out"]:
        ctx.violate("output_space", "output space %s, expected %s" % (sp0, spec["out"]), monitor="base")
    if tuple(y0.shape) != tuple(c["batch"]) + (odim,):
        ctx.violate("shape", "output shape %s for batch %s and output dimension %d" % (tuple(y0.shape), c["batch"],
                                                                                       odim), monitor="base")
        return res
    if not bool(torch.isfinite(y0).all()):
        ctx.count("degenerate_nonfinite_output_skipped")      # an overflowing random net decides nothing
        return res
    scale = max(1.0, float(y0.abs().max()))
    ctx.other = other
    ctx.noise, err32 = _rounding_noise(ctx, other, data, decl, y0)
    if not (err32 < 1e-3 * scale and ctx.col_chaos < 1e-3):   # float32 keeps fewer than 3 digits of an output column
        ctx.count("degenerate_ill_conditioned_skipped")
        return res

    _monitor_perm(ctx, model, data, decl, y0, scale, rng)
    _monitor_reject(ctx, model, data, decl, rng)
    _monitor_rows(ctx, model, data, decl, y0, scale, rng, g)
    if spec["k"] in ("Sequential", "Parallel"):
        try:
            own = _compose(ctx, model, spec, data, scale, spec["k"])
        except Inconclusive:
            raise
        except Exception as e:
            ctx.violate("exception", "evaluating the parts of the composition raised %r" % (e,), monitor="compose",
                        site=exc_site(e), exc=type(e).__name__)
    _monitor_norm(ctx, model, spec, rng)
    if c.get("bign"):
        _monitor_big(ctx, model, decl, dims, scale, rng, g)

    # fixed weights: nothing above may have changed the model
    for k, v in model.state_dict().items():
        if not torch.equal(v, state0[k]):
            ctx.violate("state_changed", "entry %r of the state dict changed during forward calls in eval mode" % k,
                        monitor="state")
            break
    nrows = int(np.prod(c["batch"]))
    res["nontrivial"] = ctx.decisive >= 1 and (len(decl) >= 2 or nrows >= 2)
    return res


def extra_coverage(results):
    w = [r.get("worst_ratio", 0.0) for r in results]
    return {"max_observed_difference_over_allowed": round(max(w), 4) if w else None,
            "cases_with_difference_over_10pct_of_allowed": sum(1 for x in w if x > 0.1)}


def sample_of(case, r):
    s = case.get("spec", {})
    return {"top": s.get("k"), "tree": M.kinds_in(s) if s else None, "input_space": s.get("in"),
            "output_space": s.get("out"), "batch": case.get("batch"), "dtype": case.get("dtype"),
            "seed": case.get("seed"), "class": r.get("cls"), "comparisons": r.get("judged"),
            "counters": r.get("counters"), "status": r.get("status")}
