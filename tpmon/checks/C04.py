"""C04 -- a condition's loss is reduce(error(residual)) on exactly its sampled points.

Recording probes on the condition's sampler objects / data loader, an instrumented residual generated from a small
expression language (every keyword argument is cloned before the body runs; the body has a numpy/float64 twin),
instrumented data functions and closed-form models with analytic twins (FCN / DeepONet: direct call + autograd).
The oracle recomputes from the RECORDED points the expected value of every residual argument and the documented
reduction in float64 (helpers: tpmon/c04_dsl.py, c04_world.py, c04_gen.py).
"""
import numpy as np

from ..core import viol, exc_site  # noqa: F401

LEVEL = "exploration"
RULE = ("seeded generator over condition kind (PINN, Mean, DeepRitz, SingleModule with custom error/reduce, AdaptiveWeights, "
        "Periodic, IntegroPINN, PIDeepONet, Data, DeepONetData, Parameter) x sampler tree (random/grid leaves over 1-2 "
        "variables, products in both orders incl. dependent intervals, concatenations, filters, adaptive samplers; static "
        "with infinite or finite resample interval) x 1-3 input variables of dimension 1-3 with independently permuted model "
        "input space, sampler output order and residual signature x closed-form or FCN model with 1-2 outputs of dimension "
        "1-3 x 0-3 data functions with subset signatures (incl. constants) x 0-2 learnable Parameters x default arguments x "
        "weights x 1-3 residual components built from outputs, coordinates, data, parameters, first/second derivatives, "
        "integral means x 2-5 forward() calls; data conditions: norm 1/2/3/inf x root x full data set or single batches x "
        "batch sizes x constrain_fn.  A case is non-trivial when at least one returned loss was compared with the float64 "
        "reference recomputed from the recorded points; distinct = (kind, model type, sampler shape, #data fns, #params, "
        "#components, derivative use, error/reduce)")
RULE += '; integro conditions also differentiate the integral output with respect to a non-integrated coordinate (factor dint)'
REQUIRED_REACH = ["Points.track_coord_gradients", "UserFunction.__call__", "Condition._setup_data_functions",
                  "SquaredError.forward", "SingleModuleCondition.forward", "PeriodicCondition.forward",
                  "IntegroPINNCondition.forward", "DeepONetSingleModuleCondition.forward", "DataCondition.forward",
                  "DataCondition._compute_dist", "DeepONetDataCondition._compute_dist", "ParameterCondition.forward",
                  "StaticSampler.sample_points", "Model._fix_points_order"]
MIN_NONTRIVIAL = 40
ASSUMPTIONS = ["names of model outputs, coordinates, data functions and parameters are pairwise distinct (what happens on "
               "a name clash is not specified)",
               "float32 library vs float64 reference: loss tolerance 1e-5 relative to max(|loss|, the same reduction of the "
               "term magnitudes); model outputs / data functions 2e-5 relative to 1+max|expected|; coordinates and "
               "parameters bit-for-bit",
               "FCN / DeepONet outputs and derivatives are taken from a direct call of the module on the recorded rows "
               "(torch autograd), closed-form models from analytic float64 formulas",
               "the weight of a condition is not part of forward() (the Solver applies it)",
               "AdaptiveWeightsCondition only with static samplers (documented ValueError otherwise)",
               "CPU only"]
CASE_TIMEOUT = 120

KINDS = [("pinn", 0.26), ("mean", 0.07), ("deepritz", 0.04), ("single", 0.10), ("adaptive_w", 0.07),
         ("periodic", 0.12), ("integro", 0.09), ("pideeponet", 0.08), ("data", 0.11), ("deeponet_data", 0.04),
         ("param", 0.02)]


def warmup():
    import torch  # noqa: F401
    import torchphysics  # noqa: F401
    import torchphysics.problem.conditions  # noqa: F401
    import torchphysics.utils  # noqa: F401
    from .. import c04_dsl, c04_world, c04_gen  # noqa: F401
    c04_dsl.closed_model_class()


def gen_cases(seed, tier):
    from .. import c04_gen as G
    G.configure(tier)
    rng = np.random.default_rng([seed, 4])
    n = 420 if tier == "quick" else 24000
    names = [k for k, _ in KINDS]
    p = np.array([w for _, w in KINDS])
    p = p / p.sum()
    cases = []
    for i in range(n):
        kind = names[int(rng.choice(len(names), p=p))]
        if kind == "pideeponet":
            c = G.gen_pideeponet_case(rng)
        elif kind == "data":
            c = G.gen_data_case(rng)
        elif kind == "deeponet_data":
            c = G.gen_deeponet_data_case(rng)
        elif kind == "param":
            c = G.gen_param_case(rng)
        else:
            c = G.gen_sampler_case(rng, kind)
        cases.append(c)
    return cases


def _has(res, kinds):
    def walk(f):
        if f[0] in kinds:
            return True
        if f[0] == "sin":
            return walk(f[1])
        if f[0] == "imean":
            return any(walk(g) for g in f[1])
        return False
    return any(walk(f) for comp in res for term in comp for f in term["f"])


def _cls(c):
    from .. import c04_world as W
    k = c["kind"]
    if k in ("data", "deeponet_data"):
        return "%s/%s/n%s/r%s/full%d/con%d" % (k, c["model"]["type"], c["norm"], c["root"], c["full"],
                                                bool(c.get("residual")))
    if k == "param":
        return "param/%d" % len(c["params"])
    return "%s/%s/%s/d%d/p%d%s/c%d/der%d/%s-%s" % (
        k, c["model"]["type"], W.sampler_shape(c["sampler"]), len(c.get("data", [])), len(c.get("params") or []),
        "j" if c.get("param_mode") == "joined" else "", len(c["residual"]), _has(c["residual"], ("d1", "d2", "dint", "ddata")),
        c.get("error", "-"), c.get("reduce", "-"))


def run_case(c):
    from .. import c04_world as W
    k = c["kind"]
    if k == "data":
        res = W.run_data_case(c)
    elif k == "deeponet_data":
        res = W.run_deeponet_data_case(c)
    elif k == "param":
        res = W.run_param_case(c)
    else:
        res = W.run_sampler_case(c)
    res["cls"] = _cls(c)
    res.pop("cls_extra", None)
    return res


def sample_of(case, r):
    return {"case": case, "class": r.get("cls"), "judged": r.get("judged"), "status": r.get("status"),
            "counters": r.get("counters")}
