"""C18 -- the bounding box encloses the domain.

Post-condition on Domain.bounding_box(params) for generated expressions: every point of the domain at every
supplied parameter row (twin points found by rejection in the twin's hull box, the twin's support points, and
the library's own interior and boundary samples) lies inside [min, max] on every axis (tolerance 2e-5 L); for
primitives of positive measure at a single parameter row the box equals the exact box.  Consumers: a
NormalizationLayer built from the box maps domain points into [-1,1]^d; the box an LHS sampler proposes in
(observed argument of LHSSampler._create_lhs_in_bounding_box) encloses the domain at that row.
"""
import numpy as np

from .. import geo, gen_geo, sampling, probes
from ..core import viol, exc_site

LEVEL = "exploration"
RULE = ("generated domain expressions (primitives, nested + - &, translate, rotate with arbitrary angles / rotate_around, "
        "products incl. dependent first factor) with k in {0,1,2,3,5,8} parameter rows; the box is compared with twin "
        "points (20000 proposals per row), twin support points and the library's own samples; non-trivial = at least 50 "
        "domain points were tested against a returned box; distinct = (expression shape, k class, dependence, consumer)")
RULE += '; 3-D rotations with a constant matrix; a sixth of the cases at length scales 0.01 / 0.05 / 30 / 300'
REQUIRED_REACH = ["Circle.bounding_box", "Sphere.bounding_box", "Parallelogram.bounding_box", "Triangle.bounding_box",
                  "Interval.bounding_box", "ShapelyPolygon.bounding_box", "UnionDomain.bounding_box", "CutDomain.bounding_box",
                  "IntersectionDomain.bounding_box", "ProductDomain.bounding_box", "Translate.bounding_box",
                  "Rotate.bounding_box", "BoundaryDomain.bounding_box", "NormalizationLayer.forward",
                  "LHSSampler._create_lhs_in_bounding_box", "TrimeshPolyhedron.bounding_box"]
MIN_NONTRIVIAL = 40
ASSUMPTIONS = ["accepted layouts: flat [2*dim] (must enclose all supplied rows) or one row per parameter row (must enclose that row)",
               "tightness is demanded only for primitives of positive measure at a single parameter row (tolerance 2e-5 L)"]
CASE_TIMEOUT = 150
TOL = 2e-5


def gen_cases(seed, tier):
    rng = np.random.default_rng([seed, 18])
    n = 300 if tier == "quick" else 9000
    depth = 2 if tier == "quick" else 3
    cases = []
    for i in range(n):
        dom = gen_geo.gen_domain(rng, max_depth=int(rng.integers(0, depth + 1)),
                                 allow=("bool", "prim", "prim", "translate", "rotate", "rotate", "product"))
        if i % 6 == 1 and "product" not in geo.spec_ops(dom["spec"]):
            S = float(sampling.SCALES[(i // 6) % len(sampling.SCALES)])      # the same expression at another length scale
            dom["spec"] = geo.scale_spec(dom["spec"], S)
            dom["info"] = dict(dom["info"], scale=S)
        cases.append({"spec": dom["spec"], "rows": dom["rows"], "info": dom["info"], "k": dom["k"],
                      "seed": int(rng.integers(0, 2 ** 31))})
    # integer typed parameter rows (torch.tensor([[1], [2]]) as the library's own tests write them) with shapes whose
    # position is the parameter itself: the box keeps non-integer bounds
    rng2 = np.random.default_rng([seed, 18, 1])
    for i in range(12 if tier == "quick" else 300):
        cases.append({"intparams": ["circle", "sphere", "interval", "parallelogram"][i % 4], "rad": float(np.round(rng2.uniform(0.3, 1.7), 2)),
                      "ts": [int(v) for v in rng2.permutation(np.arange(0, 6))[:int(rng2.integers(1, 4))]], "seed": int(rng2.integers(0, 2 ** 31)),
                      "info": {"kind": "prim", "desc": "int"}, "k": 1})
    return cases


def run_intparams(case):
    import torch
    import torchphysics as tp
    kind, r, ts = case["intparams"], case["rad"], case["ts"]
    res = {"cls": "intparams|%s|k%d" % (kind, min(len(ts), 2)), "judged": 0, "nontrivial": False, "viol": [], "counters": {}}
    T = tp.spaces.R1("t")
    P = tp.spaces.Points(torch.tensor([[v] for v in ts]), T)              # int64 rows
    mech = {"root": "prim", "dep": True, "k": "k1" if len(ts) == 1 else "k+", "consumer": "bounding_box", "dep_product": False,
            "param_dtype": "int64"}
    tt = np.asarray(ts, float)
    if kind == "circle":
        D = tp.domains.Circle(tp.spaces.R2("x"), lambda t: torch.column_stack((t, torch.zeros_like(t))), r)
        want = [tt.min() - r, tt.max() + r, -r, r]
    elif kind == "sphere":
        D = tp.domains.Sphere(tp.spaces.R3("x"), lambda t: torch.column_stack((t, torch.zeros_like(t), torch.zeros_like(t))), r)
        want = [tt.min() - r, tt.max() + r, -r, r, -r, r]
    elif kind == "interval":
        D = tp.domains.Interval(tp.spaces.R1("x"), lambda t: t - r, lambda t: t + r)
        want = [tt.min() - r, tt.max() + r]
    else:
        D = tp.domains.Parallelogram(tp.spaces.R2("x"), lambda t: torch.column_stack((t - r, torch.zeros_like(t) - r)),
                                     lambda t: torch.column_stack((t + r, torch.zeros_like(t) - r)),
                                     lambda t: torch.column_stack((t - r, torch.zeros_like(t) + r)))
        want = [tt.min() - r, tt.max() + r, -r, r]
    try:
        bb = D.bounding_box(P)
    except Exception as e:
        res["viol"].append(viol("exception", "bounding_box of a %s with int64 parameter rows %s raised %s in %s: %s" % (kind, ts, type(e).__name__,
                                exc_site(e), str(e)[:200]), exc=type(e).__name__, site=exc_site(e), **mech))
        return res
    got = np.asarray(torch.as_tensor(bb).detach().double().numpy()).reshape(-1)
    want = np.asarray(want, float)
    res["judged"] += 1
    res["counters"]["int_param_boxes"] = 1
    res["nontrivial"] = True
    lo_bad = (got[0::2] > want[0::2] + 1e-5).any() if got.shape == want.shape else True
    hi_bad = (got[1::2] < want[1::2] - 1e-5).any() if got.shape == want.shape else True
    if lo_bad or hi_bad:
        res["viol"].append(viol("point_outside_box", "%s with radius / half width %.2f at the int64 parameter rows %s: box %s does not enclose %s"
                                % (kind, r, ts, got.tolist(), want.tolist()), points="extremal", target="interior", excess=1.0, **mech))
    return res


def _kcls(k):
    return "k0" if k == 0 else ("k1" if k == 1 else "k+")


def twin_points(node, env, i, rng, M=20000):
    """points of the twin set at parameter row i (rejection in the hull box)"""
    env_i = {pn: v[i:i + 1] for pn, v in env.items()}
    box = geo._hull_box(node, env_i, 1)[0]
    d = len(box) // 2
    P = box[0::2] + rng.random((M, d)) * (box[1::2] - box[0::2])
    e = {pn: np.repeat(v, M, 0) for pn, v in env_i.items()}
    keep = node.phi(P, e) <= 0
    return P[keep]


def check_box(bb, X, rows_idx, k, L, what, res, mech, info):
    """bb: numpy box as returned; X points (N, dim), rows_idx parameter row of each point"""
    dim = X.shape[1]
    bb = np.asarray(bb, dtype=np.float64)
    tol = TOL * L
    if bb.ndim == 1 and bb.size == 2 * dim:
        lo, hi = bb[0::2][None], bb[1::2][None]
        lo, hi = np.repeat(lo, len(X), 0), np.repeat(hi, len(X), 0)
        layout = "flat"
    elif bb.ndim == 2 and bb.shape[1] == 2 * dim and bb.shape[0] in (1, max(k, 1)):
        sel = rows_idx if bb.shape[0] > 1 else np.zeros(len(X), int)
        lo, hi = bb[sel][:, 0::2], bb[sel][:, 1::2]
        layout = "per_row"
    else:
        res["viol"].append(viol("box_shape", "%s: bounding_box returned shape %s for dimension %d and %d parameter rows" %
                                (info["desc"], bb.shape, dim, k), **mech))
        return None
    if not np.isfinite(bb).all():
        res["viol"].append(viol("box_not_finite", "%s: bounding box %s" % (info["desc"], bb.tolist()), **mech))
        return None
    out = (X < lo - tol) | (X > hi + tol)
    res["judged"] += len(X)
    res["counters"]["points_tested_" + what] = res["counters"].get("points_tested_" + what, 0) + len(X)
    if out.any():
        r, c = np.where(out)
        j = int(np.argmax(np.maximum(lo - X, X - hi)[r, c]))
        i, a = r[j], c[j]
        res["viol"].append(viol("point_outside_box", "%s (%s): %d of %d domain points (%s) lie outside the bounding box, e.g. x=%s "
                                "axis %d box [%.5g, %.5g] (row %d, layout %s, L=%.3g)" % (info["desc"], mech.get("consumer", "bounding_box"),
                                                                                         int(out.any(1).sum()), len(X), what, X[i].tolist(), a,
                                                                                         lo[i, a], hi[i, a], rows_idx[i], layout, L),
                                excess=round(float(np.maximum(lo - X, X - hi)[i, a] / L), 4), points=what, **mech))
    return layout


def run_case(case):
    import torch
    import torchphysics as tp
    if case.get("intparams"):
        return run_intparams(case)
    info = case["info"]
    res = {"cls": "", "judged": 0, "nontrivial": False, "viol": [], "counters": {}}
    D, node, Pp, env = sampling.build_case(case)
    rng = np.random.default_rng(case["seed"])
    k = case["k"]
    kk = max(k, 1)
    shape = "".join(c for c in info["desc"] if not c.isdigit())
    res["cls"] = "%s|%s|%s" % (shape, _kcls(k), "dep" if info["dep"] else "const")
    mech = {"root": info["kind"], "dep": bool(info["dep"]), "k": _kcls(k), "consumer": "bounding_box",
            "dep_product": bool(isinstance(node, geo.Product) and node.dependent())}
    names_dims = node.space()
    # twin points per row
    Xs, idx = [], []
    for i in range(kk):
        T = twin_points(node, env, i, rng, 20000 if kk <= 3 else 8000)
        Xs.append(T)
        idx.append(np.full(len(T), i))
    X = np.concatenate(Xs, 0)
    idx = np.concatenate(idx)
    envall = {pn: v[idx] for pn, v in env.items()}
    L = float(max(1.0, np.abs(X).max() if len(X) else 1.0, (X.max(0) - X.min(0)).max() if len(X) else 1.0))
    for target in ("interior", "boundary"):
        Dt = D if target == "interior" else None
        if target == "boundary":
            try:
                Dt = D.boundary
            except Exception:
                continue
        m = dict(mech, target=target)
        # a freshly built object queried row by row FIRST (a box computed for one parameter row must not leak into a later
        # call on the same object), then with all rows at once
        if kk > 1:
            Dfresh = geo.build(case["spec"])
            Dfresh = Dfresh if target == "interior" else Dfresh.boundary
            for i in rng.permutation(kk)[:4]:
                i = int(i)
                try:
                    bbi = Dfresh.bounding_box(Pp[i,])
                except Exception as e:
                    res["viol"].append(viol("exception", "%s.bounding_box(single row) raised %s in %s on %s: %s" % (type(Dfresh).__name__,
                                            type(e).__name__, exc_site(e), info["desc"], str(e)[:300]), exc=type(e).__name__, site=exc_site(e),
                                            call="row_by_row", **m))
                    break
                bbi = bbi.detach().double().numpy() if isinstance(bbi, torch.Tensor) else np.asarray(bbi, dtype=float)
                sel = idx == i
                if sel.any():
                    check_box(bbi.reshape(-1), X[sel], np.zeros(int(sel.sum()), int), 1, L, "twin_single_row", res, dict(m, call="row_by_row"), info)
        try:
            bb = Dt.bounding_box(Pp)
        except Exception as e:
            res["viol"].append(viol("exception", "%s.bounding_box raised %s in %s on %s (k=%d): %s" % (type(Dt).__name__, type(e).__name__,
                                    exc_site(e), info["desc"], k, str(e)[:300]), exc=type(e).__name__, site=exc_site(e), **m))
            continue
        bbn = bb.detach().double().numpy() if isinstance(bb, torch.Tensor) else np.asarray(bb, dtype=float)
        layout = check_box(bbn, X, idx, k, L, "twin", res, m, info)
        if layout is None:
            continue
        # the library's own samples
        try:
            probes.begin_call()
            own = Dt.sample_random_uniform(n=100, params=Pp)
            probes.end_call()
            O = np.concatenate([own.coordinates[n].double().numpy().reshape(len(own), -1) for n, _ in names_dims], 1)
            no = max(1, len(O) // kk)
            oidx = np.minimum(np.arange(len(O)) // no, kk - 1)
            check_box(bbn, O, oidx, k, L, "own_samples", res, m, info)
        except Exception:
            res["counters"]["own_sampling_failed"] = res["counters"].get("own_sampling_failed", 0) + 1
        # tightness for primitives of positive measure at a single parameter row
        if target == "interior" and kk == 1 and "prim" in case["spec"] and node.bbox_exact() and node.solid:
            exact = node.bbox(env, 1)[0]
            flat = bbn.reshape(-1)
            res["counters"]["tightness_checks"] = res["counters"].get("tightness_checks", 0) + 1
            if flat.shape == exact.shape and np.abs(flat - exact).max() > TOL * L:
                res["viol"].append(viol("box_not_tight", "%s: bounding box %s differs from the exact box %s of the primitive" %
                                        (info["desc"], flat.round(5).tolist(), exact.round(5).tolist()), prim=case["spec"]["prim"], **m))
    # consumers
    if k == 0 and node.solid:
        m = dict(mech, consumer="NormalizationLayer", target="interior")
        try:
            layer = tp.models.NormalizationLayer(D)
            P, _ = _mk(names_dims, X[:4000], {})
            with torch.no_grad():
                Y = layer(P).as_tensor.double().numpy()
            res["counters"]["normalization_points"] = len(Y)
            res["judged"] += len(Y)
            over = np.abs(Y) > 1 + 1e-4
            if over.any():
                res["viol"].append(viol("normalized_outside_unit_box", "%s: NormalizationLayer maps %d of %d domain points outside [-1,1]^d "
                                        "(max |y| = %.4f)" % (info["desc"], int(over.any(1).sum()), len(Y), np.abs(Y).max()), **m))
        except Exception as e:
            res["viol"].append(viol("exception", "NormalizationLayer(%s) raised %s in %s: %s" % (info["desc"], type(e).__name__, exc_site(e),
                                    str(e)[:200]), exc=type(e).__name__, site=exc_site(e), **m))
    if node.solid and info["kind"] != "product":
        m = dict(mech, consumer="LHSSampler", target="interior")
        seen = []
        from torchphysics.problem.samplers.random_samplers import LHSSampler
        orig = LHSSampler._create_lhs_in_bounding_box

        def rec(self, bounding_box, device):
            seen.append(bounding_box.detach().double().numpy() if isinstance(bounding_box, torch.Tensor) else np.asarray(bounding_box, float))
            return orig(self, bounding_box, device)
        LHSSampler._create_lhs_in_bounding_box = rec
        try:
            probes.begin_call()
            tp.samplers.LHSSampler(D, 30).sample_points(Pp)
            probes.end_call()
        except Exception as e:
            res["viol"].append(viol("exception", "LHSSampler on %s (k=%d) raised %s in %s: %s" % (info["desc"], k, type(e).__name__, exc_site(e),
                                    str(e)[:200]), exc=type(e).__name__, site=exc_site(e), **m))
        finally:
            LHSSampler._create_lhs_in_bounding_box = orig
        for i, bbi in enumerate(seen[:kk]):
            sel = idx == i
            if sel.any():
                check_box(bbi.reshape(-1), X[sel], np.zeros(int(sel.sum()), int), 1, L, "twin_lhs_row", res, m, info)
    res["nontrivial"] = res["judged"] >= 50
    return res


def _mk(names_dims, X, envr):
    import torch
    from torchphysics.problem.spaces import Points
    coords, off = {}, 0
    for n, d in names_dims:
        coords[n] = torch.tensor(X[:, off:off + d].astype(np.float32))
        off += d
    P = Points.from_coordinates(coords)
    Q = Points.from_coordinates({k: torch.tensor(v.astype(np.float32)) for k, v in envr.items()}) if envr else Points.empty()
    return P, Q


def sample_of(case, r):
    return {"spec": case.get("spec"), "rows": case.get("rows"), "class": r.get("cls"), "points_tested": r.get("judged"),
            "status": r.get("status")}
