"""C10 -- volume() is the true measure of the domain; density sampling yields density x measure points.

Post-conditions on Domain.volume(params) and on density based sample_* calls, judged by the closed-form
float64 measures of the twin: primitives and their boundaries per parameter row, the composition algebra
for declared-disjoint unions / declared-contained cuts / independent products / translate / rotate, the
set_volume override, and the point counts of density sampling (exact ceil(d*vol) for primitives, a
statistical interval on the mean count of repeated calls for rejection based shapes and Boolean combinations,
an upper bound for grids).
"""
import math
import numpy as np

from .. import geo, gen_geo, sampling, probes
from ..core import viol, exc_site

LEVEL = "exploration"
RULE = ("generated primitives (interval, circle, sphere, parallelogram / triangle in both vertex orientations, polygon in "
        "both vertex orders, point) and their boundaries, constant and parameter dependent (k <= 8 unique rows); "
        "compositions: union declared disjoint, cut declared contained, independent products, translate, rotate, user-set "
        "volumes (number and function of the parameters); densities with d*measure in [1, 3000]; non-trivial = a returned "
        "volume or count was compared with the closed form; distinct = (workload kind, shape, target, k class, dependence)")
RULE += "; user volumes given as number / 0-d / (1,1) tensor with part and composite re-evaluated; volume() of D(**row) against the row's measure (directly and through Translate); a sixth of the cases at other length scales"
REQUIRED_REACH = ["Circle._get_volume", "CircleBoundary._get_volume", "Sphere._get_volume", "SphereBoundary._get_volume",
                  "Parallelogram._get_volume", "ParallelogramBoundary._get_volume", "Triangle._get_volume",
                  "TriangleBoundary._get_volume", "Interval._get_volume", "IntervalBoundary._get_volume",
                  "ShapelyPolygon._get_volume", "ShapelyBoundary._get_volume", "Point._get_volume", "UnionDomain._get_volume",
                  "CutDomain._get_volume", "ProductDomain._get_volume", "Translate.volume", "Rotate.volume",
                  "Domain.compute_n_from_density", "Domain.set_volume", "TrimeshPolyhedron._get_volume", "TrimeshBoundary._get_volume"]
MIN_NONTRIVIAL = 40
ASSUMPTIONS = ["relative tolerance 1e-5 on volumes (float32 library)",
               "Boolean combinations without the disjoint/contained flag are documented estimates and are not judged for volume()",
               "mean-count test: |mean - d*measure| <= 2 + 6.5*sigma/sqrt(reps) + measure-estimate error (alpha ~ 1e-9)"]
CASE_TIMEOUT = 200


def gen_cases(seed, tier):
    rng = np.random.default_rng([seed, 10])
    n = 500 if tier == "quick" else 15000
    cases = []
    for i in range(n):
        wk = str(rng.choice(["prim", "prim", "prim", "flagged", "product", "moved", "setvol", "density_bool", "history", "polyhole", "sliver"]))
        k = int(rng.choice([0, 0, 1, 2, 3, 5, 8]))
        dim = int(rng.choice([1, 2, 2, 2, 3]))
        c = {"wk": wk, "seed": int(rng.integers(0, 2 ** 31))}
        if wk in ("prim", "setvol"):
            dom = gen_geo.gen_domain(rng, max_depth=0, allow=("prim",), k=k, dim=dim)
            if rng.random() < 0.08:
                d_ = int(rng.choice([1, 2, 3]))
                dom["spec"] = {"prim": "point", "var": "x", "dim": d_, "point": [float(v) for v in rng.uniform(-2, 2, d_)]}
                dom["info"]["dep"] = False
                dom["info"]["desc"] = "pt"
        elif wk in ("flagged", "history"):
            dom = _flagged(rng, k if wk == "flagged" else int(rng.choice([0, 0, 1, 2])), dim) if rng.random() < 0.7 or wk == "flagged" \
                else _indep_product(rng, int(rng.choice([0, 0, 1])))
        elif wk == "polyhole":
            dom = _polyhole(rng)
        elif wk == "sliver":
            dom = _sliver(rng, k)
            if i % 3 == 0:
                # thin strips (side ratio 20-150, right angles, any direction) for the density samplers: a grid by density
                # holds at most ceil(d * area) points however thin the strip is
                wk = c["wk"] = "strip"
                o_, a0_ = rng.uniform(-2, 2, 2), rng.uniform(0, 2 * math.pi)
                l1_, l2_ = float(rng.uniform(4, 12)), float(rng.uniform(0.08, 0.2))
                d1_ = l1_ * np.array([math.cos(a0_), math.sin(a0_)])
                d2_ = l2_ * np.array([-math.sin(a0_), math.cos(a0_)])
                if rng.random() < 0.5:
                    d1_, d2_ = d2_, d1_
                sp_ = {"prim": "parallelogram", "var": "x", "origin": [float(o_[0]), float(o_[1])],
                       "c1": [float(o_[0] + d1_[0]), float(o_[1] + d1_[1])], "c2": [float(o_[0] + d2_[0]), float(o_[1] + d2_[1])]}
                kk_ = int(rng.choice([0, 0, 1]))
                dom = {"spec": sp_, "rows": gen_geo.param_rows(rng, kk_), "k": kk_,
                       "info": {"kind": "prim", "dim": 2, "dep": False, "relations": ["strip"], "desc": "P~strip"}}
            elif i % 3 == 1:
                # parallelograms / triangles whose corner order flips between the parameter rows (mixed orientations in one batch)
                wk = c["wk"] = "flip"
                dom = gen_geo.flip_parallelogram(rng, kinds=("parallelogram", "triangle"))
        elif wk == "product":
            dom = _indep_product(rng, k)
        elif wk == "moved":
            dom = gen_geo.gen_domain(rng, max_depth=0, allow=("translate", "rotate"), k=k, dim=2 if dim == 1 else dim)
        else:
            dom = gen_geo.gen_domain(rng, max_depth=1, allow=("bool",), k=min(k, 1), dim=dim)
        if i % 6 == 1 and wk in ("prim", "flagged", "moved", "density_bool", "setvol") and "product" not in geo.spec_ops(dom["spec"]):
            S = float(sampling.SCALES[(i // 6) % len(sampling.SCALES)])      # the same expression at another length scale
            dom["spec"] = geo.scale_spec(dom["spec"], S)
            dom["info"] = dict(dom["info"], scale=S)
        c.update(spec=dom["spec"], rows=dom["rows"], info=dom["info"], k=dom["k"])
        c["dens"] = [float(x) for x in rng.choice([1.5, 7, 30, 200, 1200, 3000], 2)]
        if c["wk"] == "strip":
            c["dens"] = [float(x) for x in rng.choice([2.5, 4.2, 9, 30], 2)]
        c["uservol"] = float(rng.uniform(0.5, 9))
        cases.append(c)
    return cases


def _flagged(rng, k, dim):
    """union declared disjoint / cut declared contained, true by construction"""
    for _ in range(50):
        dom = gen_geo.gen_domain(rng, max_depth=1, allow=("bool",), k=k, dim=dim)
        s = dom["spec"]
        if s.get("flag"):
            return dom
    return dom


def _sliver(rng, k):
    """strongly sheared / thin parallelograms and triangles (angle between the edges 0.5 - 8 degrees), constant or with a
    shear that depends on the parameter; only volume() is judged, with a tolerance that follows float32 cancellation"""
    kind = str(rng.choice(["parallelogram", "triangle"]))
    o = rng.uniform(-1, 1, 2)
    l1, l2 = rng.uniform(1, 4), rng.uniform(1, 4)
    a0 = rng.uniform(0, 2 * math.pi)
    ang = math.radians(rng.uniform(0.5, 8.0)) * rng.choice([-1, 1])
    d1 = l1 * np.array([math.cos(a0), math.sin(a0)])
    d2 = l2 * np.array([math.cos(a0 + ang), math.sin(a0 + ang)])
    spec = {"prim": kind, "var": "x", "origin": [float(o[0]), float(o[1])], "c1": [float(o[0] + d1[0]), float(o[1] + d1[1])],
            "c2": [float(o[0] + d2[0]), float(o[1] + d2[1])]}
    rows = {}
    if k > 0 and rng.random() < 0.5:
        # the second corner slides along the first edge direction with t: the shear changes, the area does not
        rows = gen_geo.param_rows(rng, k)
        spec["c2"] = {"a": spec["c2"], "terms": [{"var": "t", "col": 0, "kind": "lin", "coef": [float(d1[0]), float(d1[1])]}]}
    node = geo.ref(spec)
    return {"spec": spec, "rows": rows, "k": len(rows.get("t", [])), "info": {"kind": "prim", "dim": 2, "dep": bool(rows), "relations": ["sliver"],
                                                                             "desc": node.desc() + "~sliver"}}


def _polyhole(rng):
    """polygon with 1-2 holes (shell and holes in random vertex order)"""
    c = rng.uniform(-2, 2, 2)
    w, h = rng.uniform(3, 5, 2)
    shell = [[c[0], c[1]], [c[0] + w, c[1]], [c[0] + w, c[1] + h], [c[0], c[1] + h]]
    holes = []
    for j in range(int(rng.integers(1, 3))):
        hx = c[0] + (0.15 + 0.45 * j) * w
        hy = c[1] + rng.uniform(0.2, 0.5) * h
        hw, hh = 0.25 * w * rng.uniform(0.5, 1), 0.3 * h * rng.uniform(0.5, 1)
        ring = [[hx, hy], [hx + hw, hy], [hx + hw * rng.uniform(0.3, 1), hy + hh]] if rng.random() < 0.5 else \
            [[hx, hy], [hx + hw, hy], [hx + hw, hy + hh], [hx, hy + hh]]
        if rng.random() < 0.5:
            ring = ring[::-1]
        holes.append([[float(a), float(b)] for a, b in ring])
    if rng.random() < 0.5:
        shell = shell[::-1]
    spec = {"polyhole": True, "shell": [[float(a), float(b)] for a, b in shell], "holes": holes}
    return {"spec": spec, "rows": {}, "k": 0, "info": {"kind": "polyhole", "dim": 2, "dep": False, "relations": [], "desc": "G%dh" % len(holes)}}


def _indep_product(rng, k):
    ctx = gen_geo.Ctx(rng, False, 0, None, 2)
    a = gen_geo.prim2d(ctx, rng.uniform(-2, 2, 2), float(rng.uniform(0.4, 1.5)), kinds=("circle", "parallelogram", "triangle"))
    if rng.random() < 0.3:
        a = {"prim": "interval", "var": "x", "lo": float(rng.uniform(-1, 0)), "hi": float(rng.uniform(0.5, 2))}
    b = {"prim": "interval", "var": "s", "lo": float(rng.uniform(-1, 0)), "hi": float(rng.uniform(0.5, 2))}
    rows = gen_geo.param_rows(rng, k)
    if k > 0 and rng.random() < 0.6:
        b["hi"] = {"a": [b["hi"]], "terms": [{"var": "t", "col": 0, "kind": "lin", "coef": [0.3]}]}
    spec = {"op": "product", "a": a, "b": b}
    node = geo.ref(spec)
    return {"spec": spec, "rows": rows, "k": k, "info": {"kind": "product", "dim": node.dim(), "dep": bool(node.free()),
                                                            "relations": [], "desc": node.desc()}}


def _kcls(k):
    return "k0" if k == 0 else ("k1" if k == 1 else "k+")


def _vol(D, Pp, res, mech, what):
    import torch
    try:
        v = D.volume(Pp) if Pp is not None else D.volume()
    except Exception as e:
        res["viol"].append(viol("exception", "%s.volume raised %s in %s (%s): %s" % (type(D).__name__, type(e).__name__, exc_site(e), what,
                                str(e)[:300]), exc=type(e).__name__, site=exc_site(e), call="volume", **mech))
        return None
    if not isinstance(v, torch.Tensor):
        v = torch.as_tensor(v)
    return v.detach().double().numpy()


def check_volume(D, node_measure, Pp, k, dep, res, mech, what, rtol=1e-5):
    """node_measure: (kk,) exact values per row"""
    kk = max(k, 1)
    v = _vol(D, Pp, res, mech, what)
    if v is None:
        return
    res["counters"]["volume_calls"] = res["counters"].get("volume_calls", 0) + 1
    # one value per row: a column (k,1) (also (k,1,1) from user functions) or a single broadcastable value;
    # a flat row vector (k,) broadcasts against (N,1) columns to a matrix and is not accepted
    ok_shapes = [(kk, 1), (kk, 1, 1), (1, 1), (1,), (), (1, 1, 1)]
    if tuple(v.shape) not in ok_shapes:
        res["viol"].append(viol("volume_shape", "%s: volume() has shape %s for %d parameter rows (parameter dependent: %s)" %
                                (what, v.shape, k, dep), cls=type(D).__name__, **mech))
        if v.size not in (1, kk):
            return
    vv = v.reshape(-1)
    if vv.size == 1 and kk > 1:
        vv = np.repeat(vv, kk)
    res["judged"] += kk
    if not np.isfinite(vv).all() or (vv <= 0).any():
        res["viol"].append(viol("volume_not_positive", "%s: volume() = %s" % (what, vv.tolist()), cls=type(D).__name__, **mech))
        return
    rel = np.abs(vv - node_measure) / np.maximum(np.abs(node_measure), 1e-12)
    if (rel > rtol).any():
        i = int(np.argmax(rel))
        res["viol"].append(viol("volume_wrong", "%s: volume() = %.7g but the measure is %.7g at parameter row %d (relative error %.2g)" %
                                (what, vv[i], node_measure[i], i, rel[i]), cls=type(D).__name__, **mech))


def _evaluated(D, node, m, env, kk, res, mech, info, rtol):
    """D(**row) is the set of that parameter row: its volume() is the measure of that row (declared flags, user volumes
    and wrappers survive the partial evaluation); also through a Translate wrapper around the composite"""
    import torch
    import torchphysics as tp
    free = sorted(node.free())
    for i in sorted(set([0, kk - 1])):
        vals = {v: torch.tensor(env[v][i:i + 1].astype(np.float32)) for v in free}
        for wrap in ("direct", "translate"):
            try:
                Dw = D if wrap == "direct" else tp.domains.Translate(D, [0.25] * node.dim())
                De = Dw(**vals)
            except Exception as e:
                res["viol"].append(viol("exception", "%s(**row %d) raised %s in %s: %s" % (info["desc"], i, type(e).__name__, exc_site(e),
                                        str(e)[:200]), exc=type(e).__name__, site=exc_site(e), call="__call__", **mech))
                continue
            res["counters"]["evaluated_volume_checks"] = res["counters"].get("evaluated_volume_checks", 0) + 1
            check_volume(De, m[i:i + 1], None, 0, False, res, dict(mech, target="evaluated_" + wrap),
                         "%s evaluated at parameter row %d (%s)" % (info["desc"], i, wrap), rtol=rtol)


def _ring_area_len(r):
    r = np.asarray(r, float)
    x, y = r[:, 0], r[:, 1]
    return 0.5 * abs(float((x * np.roll(y, -1) - np.roll(x, -1) * y).sum())), float(np.linalg.norm(np.roll(r, -1, 0) - r, axis=1).sum())


def run_polyhole(case):
    import shapely.geometry as sg
    from torchphysics.problem.domains.domain2D.shapely_polygon import ShapelyPolygon
    from torchphysics.problem.spaces import Space, Points
    res = {"cls": "polyhole|%s|k0|const" % case["info"]["desc"], "judged": 0, "nontrivial": False, "viol": [], "counters": {}}
    sp = case["spec"]
    mech = {"wk": "polyhole", "root": "polyhole", "dep": False, "k": "k0", "holes": len(sp["holes"])}
    a0, l0 = _ring_area_len(sp["shell"])
    area, length = a0, l0
    for hrg in sp["holes"]:
        a, l = _ring_area_len(hrg)
        area -= a
        length += l
    D = ShapelyPolygon(Space({"x": 2}), shapely_polygon=sg.Polygon(sp["shell"], sp["holes"]))
    probes.install()
    check_volume(D, np.array([area]), Points.empty(), 0, False, res, dict(mech, target="interior"), "polygon with holes")
    check_volume(D.boundary, np.array([length]), Points.empty(), 0, False, res, dict(mech, target="boundary"), "boundary of polygon with holes")
    for want in case["dens"]:
        for tname, Dt, mu in (("interior", D, area), ("boundary", D.boundary, length)):
            d = want / mu
            lam = d * mu
            mm = dict(mech, target=tname, call="density")
            try:
                counts = [len(Dt.sample_random_uniform(d=d)) for _ in range(1 if tname == "boundary" else 12)]
                g = len(Dt.sample_grid(d=d))
            except Exception as e:
                res["viol"].append(viol("exception", "polygon with holes, %s density sampling raised %s in %s: %s" % (tname, type(e).__name__,
                                        exc_site(e), str(e)[:200]), exc=type(e).__name__, site=exc_site(e), **mm))
                continue
            res["judged"] += 1
            res["counters"]["density_random_calls"] = res["counters"].get("density_random_calls", 0) + len(counts)
            if tname == "boundary":
                if not (math.ceil(lam * (1 - 2e-6)) <= counts[0] <= math.ceil(lam * (1 + 2e-6))):
                    res["viol"].append(viol("density_count", "boundary of a polygon with %d holes: sample_random_uniform(d=%.5g) returned %d points, "
                                            "ceil(d*length) = %d (length %.6g incl. inner rings)" % (len(sp["holes"]), d, counts[0], math.ceil(lam), mu),
                                            fn="random", **mm))
            else:
                mean = float(np.mean(counts))
                slack = 2.0 + 6.5 * math.sqrt(max(lam, 1.0) / len(counts)) + 1e-3 * lam
                if abs(mean - lam) > slack:
                    res["viol"].append(viol("density_mean_count", "polygon with holes: mean count %.2f over %d calls for d*area = %.2f" %
                                            (mean, len(counts), lam), fn="random", **mm))
            if g > math.ceil(lam * (1 + 2e-6)):
                res["viol"].append(viol("density_grid_count", "%s of a polygon with holes: sample_grid(d=%.5g) returned %d points, ceil(d*measure) = %d" %
                                        (tname, d, g, math.ceil(lam)), fn="grid", **mm))
    res["nontrivial"] = res["judged"] > 0
    return res


def run_history(case, D, node, Pp, env, res, mech, info):
    """volume() of a composite, then set_volume() on a part, then volume() again: the composite must follow the algebra
    with the user-set value (also through a Translate wrapper and for density sampling)"""
    import torchphysics as tp
    k = case["k"]
    kk = max(k, 1)
    spec = case["spec"]
    m0 = node.measure(env, kk)
    if m0 is None or "op" not in spec:
        return
    check_volume(D, m0, Pp, k, bool(node.free()), res, dict(mech, target="before"), info["desc"])
    part = "a" if case["seed"] % 2 == 0 else "b"
    Dpart = D.domain_a if part == "a" else D.domain_b
    uv = case["uservol"]
    ma, mb = node.a.measure(env, kk), node.b.measure(env, kk)
    if part == "a":
        ma = np.full(kk, uv)
    else:
        mb = np.full(kk, uv)
    exp = {"union": ma + mb, "cut": ma - mb, "product": ma * mb}[spec["op"]]
    if (exp <= 0).any():
        return
    import torch
    form = ("number", "tensor0d", "tensor11")[(case["seed"] // 2) % 3]
    mech = dict(mech, uservol=form)
    try:
        Dpart.set_volume(uv if form == "number" else (torch.tensor(uv) if form == "tensor0d" else torch.tensor([[uv]])))
    except Exception as e:
        res["viol"].append(viol("exception", "set_volume on a part of %s raised %r" % (info["desc"], e), exc=type(e).__name__, site=exc_site(e), **mech))
        return
    res["counters"]["history_steps"] = res["counters"].get("history_steps", 0) + 1
    # a difference of float32 volumes loses eps * (|a| + |b|) / |a - b| relative accuracy
    rt = 1e-5 + 8 * 6e-8 * float(((np.abs(ma) + np.abs(mb)) / np.abs(exp)).max())
    check_volume(D, exp, Pp, k, True, res, dict(mech, target="after_set_volume_on_part"), "%s after set_volume(%.3g) on operand %s" % (info["desc"], uv, part), rtol=rt)
    T = tp.domains.Translate(D, [0.5] * node.dim())
    check_volume(T, exp, Pp, k, True, res, dict(mech, target="translate_after_set_volume_on_part"), "Translate(%s) after set_volume on operand %s" % (info["desc"], part), rtol=rt)
    # evaluating the composite must not have changed what the part reports, and the composite repeats itself
    check_volume(Dpart, np.full(kk, uv), Pp, k, False, res, dict(mech, target="part_after_composite_volume"),
                 "operand %s of %s (user volume %.3g) after the composite was evaluated" % (part, info["desc"], uv))
    check_volume(D, exp, Pp, k, True, res, dict(mech, target="after_set_volume_on_part_again"), "%s after set_volume(%.3g) on operand %s, evaluated again" % (info["desc"], uv, part), rtol=rt)
    if k <= 1 and spec["op"] == "product":
        d = 40.0 / float(exp[0])
        try:
            cnt = len(D.sample_random_uniform(d=d, params=Pp))
            res["judged"] += 1
            if not (math.ceil(40.0 * (1 - 1e-5)) <= cnt <= math.ceil(40.0 * (1 + 1e-5))):
                res["viol"].append(viol("density_count", "%s after set_volume on operand %s: density sampling returned %d points, d*volume = 40" %
                                        (info["desc"], part, cnt), fn="random", call="density", **mech))
        except Exception as e:
            res["viol"].append(viol("exception", "density sampling of %s after set_volume raised %r" % (info["desc"], e), exc=type(e).__name__,
                                    site=exc_site(e), **mech))


def run_case(case):
    import torch
    info = case["info"]
    if case["wk"] == "polyhole":
        return run_polyhole(case)
    res = {"cls": "", "judged": 0, "nontrivial": False, "viol": [], "counters": {}}
    D, node, Pp, env = sampling.build_case(case)
    k = case["k"]
    kk = max(k, 1)
    wk = case["wk"]
    shape = "".join(c for c in info["desc"] if not c.isdigit())
    res["cls"] = "%s|%s|%s|%s" % (wk, shape, _kcls(k), "dep" if info["dep"] else "const")
    mech = {"wk": wk, "root": info["kind"], "dep": bool(info["dep"]), "k": _kcls(k), "scale": info.get("scale", 1.0)}
    spec = case["spec"]
    m = node.measure(env, kk)
    if wk in ("prim", "flagged", "product", "moved", "strip", "flip") and m is not None:
        rt0 = 1e-5
        if isinstance(node, geo.Bool) and node.op == "cut":
            ma_, mb_ = node.a.measure(env, kk), node.b.measure(env, kk)
            rt0 += 8 * 6e-8 * float(((np.abs(ma_) + np.abs(mb_)) / np.abs(m)).max())
        check_volume(D, m, Pp, k, bool(node.free()), res, dict(mech, target="interior"), info["desc"], rtol=rt0)
    if wk in ("flagged", "moved", "product") and m is not None and k > 0 and node.free():
        _evaluated(D, node, m, env, kk, res, mech, info, rt0)
    if wk == "sliver":
        # float32 evaluation of the determinant loses eps * |d1||d2| / area relative accuracy; anything beyond that is wrong
        V = node.verts(env, kk)
        d1, d2 = V[:, 1] - V[:, 0], V[:, -1] - V[:, 0]
        ratio = float((np.linalg.norm(d1, axis=1) * np.linalg.norm(d2, axis=1) / np.abs(d1[:, 0] * d2[:, 1] - d1[:, 1] * d2[:, 0])).max())
        coordmag = float(np.abs(V).max() / min(np.linalg.norm(d1, axis=1).min(), np.linalg.norm(d2, axis=1).min()))
        res["counters"]["sliver_max_ratio"] = max(res["counters"].get("sliver_max_ratio", 0), int(ratio))
        check_volume(D, m, Pp, k, bool(node.free()), res, dict(mech, target="interior"), info["desc"],
                     rtol=1e-5 + 16 * 6e-8 * ratio * max(1.0, coordmag))
    if wk == "prim" and spec.get("prim") != "point":
        bnode = geo.ref({"op": "boundary", "d": spec})
        bm = bnode.measure(env, kk)
        try:
            Db = D.boundary
            check_volume(Db, bm, Pp, k, bool(node.free()), res, dict(mech, target="boundary"), "boundary of " + info["desc"])
            if spec["prim"] == "interval":
                for side, Ds in (("left", D.boundary_left), ("right", D.boundary_right)):
                    check_volume(Ds, np.ones(kk), Pp, k, bool(node.free()), res, dict(mech, target="side"), "%s side of %s" % (side, info["desc"]))
        except Exception as e:
            res["viol"].append(viol("exception", "boundary of %s: %r" % (info["desc"], e), exc=type(e).__name__, site=exc_site(e), **mech))
    if wk == "history":
        run_history(case, D, node, Pp, env, res, mech, info)
    if wk == "setvol":
        # a user-set volume overrides the computed one: number, and function of the parameters
        uv = case["uservol"]
        try:
            D.set_volume(uv)
            check_volume(D, np.full(kk, uv), Pp, k, False, res, dict(mech, target="user_number"), "user volume on " + info["desc"])
            if k <= 1 and spec.get("prim") not in ("point", "polygon", "triangle", "polyhedron"):
                # density sampling must use the user-set volume: exactly ceil(d * user volume) points for primitives
                for want in (7.3, 41.0):
                    d_ = want / uv
                    for fn in ("sample_random_uniform", "sample_grid"):
                        if fn == "sample_grid" and spec.get("prim") in ("sphere", "parallelogram"):
                            continue        # their grids are complete lattices with at most that many points (judged elsewhere)
                        cnt = len(getattr(D, fn)(d=d_, params=Pp))
                        res["judged"] += 1
                        res["counters"]["density_after_set_volume"] = res["counters"].get("density_after_set_volume", 0) + 1
                        if not (math.ceil(want * (1 - 2e-6)) <= cnt <= math.ceil(want * (1 + 2e-6))):
                            res["viol"].append(viol("density_count", "%s with set_volume(%.4g): %s(d=%.5g) returned %d points, ceil(d * user volume) = %d"
                                                    % (info["desc"], uv, fn, d_, cnt, math.ceil(want)), fn=fn, call="density_user_volume",
                                                    **dict(mech, target="user_number")))
            if k > 0:
                D2 = geo.build(spec)
                D2.set_volume(lambda t: uv + 0.5 * t)
                exp = uv + 0.5 * env["t"][:, 0]
                check_volume(D2, exp, Pp, k, True, res, dict(mech, target="user_function"), "user volume function on " + info["desc"])
        except Exception as e:
            res["viol"].append(viol("exception", "set_volume on %s: %s in %s: %s" % (info["desc"], type(e).__name__, exc_site(e), str(e)[:200]),
                                    exc=type(e).__name__, site=exc_site(e), call="set_volume", **mech))
    # ---- density sampling counts (one parameter row at most: documented restriction)
    if k <= 1 and wk in ("prim", "density_bool", "moved", "product", "strip"):
        _density(case, D, node, Pp, env, res, mech, info)
    res["nontrivial"] = res["judged"] > 0
    return res


def _true_measure(node, env, rng):
    m = node.measure(env, 1)
    if m is not None:
        return float(m[0]), 0.0
    box = geo._hull_box(node, env, 1)[0]
    d = len(box) // 2
    M = 400000
    P = box[0::2] + rng.random((M, d)) * (box[1::2] - box[0::2])
    e = {pn: np.repeat(v[:1], M, 0) for pn, v in env.items()}
    p = float((node.phi(P, e) <= 0).mean())
    vol = float(np.prod(box[1::2] - box[0::2]))
    return p * vol, 6.5 * math.sqrt(max(p * (1 - p), 1e-12) / M) * vol


def _density(case, D, node, Pp, env, res, mech, info):
    rng = np.random.default_rng(case["seed"] + 1)
    spec = case["spec"]
    is_prim = "prim" in spec and spec["prim"] != "point"
    if spec.get("prim") == "point":
        return
    meas, merr = _true_measure(node, env, rng)
    targets = [("interior", D, meas, merr)]
    if is_prim:
        bm = float(geo.ref({"op": "boundary", "d": spec}).measure(env, 1)[0])
        targets.append(("boundary", D.boundary, bm, 0.0))
    for tname, Dt, mu, mu_err in targets:
        for want in case["dens"]:
            d = want / mu
            mm = dict(mech, target=tname, call="density")
            # polygon (triangle wise + top up) and triangle (2n proposals, half removed) are rejection based by density
            exact_count = is_prim and not (tname == "interior" and spec["prim"] in ("polygon", "triangle"))
            lam = d * mu
            # random-uniform by density
            reps = 1 if exact_count else (12 if lam > 500 else 40)
            counts = []
            try:
                for _ in range(reps):
                    probes.begin_call()
                    counts.append(len(Dt.sample_random_uniform(d=d, params=Pp)))
                    probes.end_call()
            except Exception as e:
                res["viol"].append(viol("exception", "%s.sample_random_uniform(d=%.4g) on %s raised %s in %s: %s" % (type(Dt).__name__, d,
                                        info["desc"], type(e).__name__, exc_site(e), str(e)[:200]), exc=type(e).__name__, site=exc_site(e), **mm))
                continue
            res["judged"] += 1
            res["counters"]["density_random_calls"] = res["counters"].get("density_random_calls", 0) + reps
            if exact_count:
                lo, hi = math.ceil(lam * (1 - 2e-6)), math.ceil(lam * (1 + 2e-6))
                if not (lo <= counts[0] <= hi):
                    res["viol"].append(viol("density_count", "%s of %s: sample_random_uniform(d=%.5g) returned %d points, ceil(d*measure) = %d "
                                            "(measure %.6g)" % (tname, info["desc"], d, counts[0], math.ceil(lam), mu), fn="random", **mm))
            else:
                mean = float(np.mean(counts))
                slack = 2.0 + 6.5 * math.sqrt(max(lam, 1.0) / reps) + d * mu_err + 1e-3 * lam
                if abs(mean - lam) > slack:
                    res["viol"].append(viol("density_mean_count", "%s of %s: mean count %.2f over %d calls of sample_random_uniform(d=%.5g) "
                                            "but d*measure = %.2f (allowed deviation %.2f)" % (tname, info["desc"], mean, reps, d, lam, slack),
                                            fn="random", **mm))
            # grid by density: at most ceil(d*measure) points (for Boolean combinations: of the proposal operand)
            if case["info"]["kind"] == "product":
                continue
            try:
                probes.begin_call()
                g = len(Dt.sample_grid(d=d, params=Pp))
                probes.end_call()
            except Exception as e:
                res["viol"].append(viol("exception", "%s.sample_grid(d=%.4g) on %s raised %s in %s: %s" % (type(Dt).__name__, d, info["desc"],
                                        type(e).__name__, exc_site(e), str(e)[:200]), exc=type(e).__name__, site=exc_site(e), fn="grid", **mm))
                continue
            res["counters"]["density_grid_calls"] = res["counters"].get("density_grid_calls", 0) + 1
            if is_prim:
                res["judged"] += 1
                if g > math.ceil(lam * (1 + 2e-6)) or (g == 0 and lam >= 4 and case.get("wk") != "strip"):
                    res["viol"].append(viol("density_grid_count", "%s of %s: sample_grid(d=%.5g) returned %d points, ceil(d*measure) = %d" %
                                            (tname, info["desc"], d, g, math.ceil(lam)), fn="grid", **mm))


def sample_of(case, r):
    return {"workload": case.get("wk"), "spec": case.get("spec"), "rows": case.get("rows"), "densities": case.get("dens"),
            "class": r.get("cls"), "status": r.get("status")}
