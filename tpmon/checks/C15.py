"""C15 -- static and adaptive samplers follow their documented state machines.

Lock-step automaton monitor over generated call histories of the REAL samplers.  The inner sampler's
`sample_points` is wrapped (instance attribute, from the harness) to record every fresh proposal, the
monitored sampler's `sample_points` is wrapped to observe every call -- whoever makes it (the history
driver, `next()`, a condition's constructor (D32), `Condition.forward`).  A reference automaton written
here says for every observed call which set must come back:

    static   state (cache, uses, interval):  call: cache and uses < interval -> the cached set, uses += 1
                                                    else -> a fresh set (= the recorded proposal), uses = 1
                                             make_static(i): interval = i (cache and uses kept)
    non-static: every call returns a set different from all earlier ones
    adaptive threshold: rows with previous loss >= min + ratio*(max-min) bitwise unchanged, all other rows
             equal the recorded proposal at the same index and lie in the domain (own float64 membership),
             row count constant
    adaptive random: every row unchanged or the proposal at its index; retention frequency per loss level
             over many repetitions consistent with (loss-min)/(max-min) (exact binomial test, alpha 1e-9,
             replicated with a 4x larger independent sample before it is reported)

Decision recorded here (coordinator, 2026-09-27): `StaticSampler.__next__` is modelled as a documented
*peek*: with a cache it returns exactly the currently cached set and does not change the automaton state;
without a cache it behaves like `sample_points()` (draws, counts as the first use).  NEXT_COUNTS_AS_USE
switches to the stricter reading (next() == sample_points()).
"""
import math
import collections

import numpy as np
import torch

from ..core import viol, exc_site

NEXT_COUNTS_AS_USE = False

LEVEL = "exploration"
RULE = ("seeded generator over (a) static histories: inner sampler kind (random uniform / filtered / density / Gaussian / "
        "LHS / product / concat) x domain (Interval, axis-aligned Parallelogram, Circle, parameter-dependent Circle) x "
        "resample interval 1-7 and infinity x 1-60 operations mixing sample_points() with the device argument spelled as "
        "default / 'cpu' / torch.device('cpu') / 'cpu:0', keyword or positional (constant, alternating, random, changing "
        "mid-interval), sample_points(params), next(), make_static(other interval), constructing a condition with m data functions and "
        "its forward(); (b) non-static histories; (c) adaptive threshold histories: ratio in {0,.25,.3,.5,1} x loss "
        "vectors (ties on a dyadic grid incl. exactly at the threshold, constant, two-level, random, extreme magnitudes, "
        "None) x 0-3 parameter rows, directly and through PINNCondition.forward; (d) adaptive random: 4-7 loss levels "
        "with ties, 100-400 repetitions. Non-trivial = at least one call was judged against the automaton after the "
        "first one (static: both a cached and a fresh return; adaptive: rows retained and rows replaced); distinct = "
        "(kind, inner sampler, domain, interval class, operations used, loss classes, ratio, parameter rows)")
RULE += '; loss scales down to 1e-12 in the retention-law workload'
REQUIRED_REACH = ["StaticSampler.sample_points", "StaticSampler.make_static", "PointSampler.make_static",
                  "StaticSampler.__next__", "PointSampler.__next__",
                  "AdaptiveThresholdRejectionSampler.sample_points", "AdaptiveRandomRejectionSampler.sample_points",
                  "SingleModuleCondition.forward"]
MIN_NONTRIVIAL = 12
ASSUMPTIONS = ["StaticSampler.__next__ is a peek (returns the cached set, consumes no use) -- coordinator decision; "
               "next() without a cache is an ordinary first use",
               "calls made by a condition's constructor or forward are uses like any other (D32)",
               "'identical' = same space and bitwise equal tensor; 'fresh' = equal to the inner sampler's proposal "
               "recorded during that call and (random inner samplers, >= 4 numbers) different from the previous set",
               "threshold retention is judged exactly where float32 arithmetic is exact (ratio 0, constant loss, or "
               "dyadic ratio with losses on a 1/64 grid below 1024); otherwise rows within 1e-5*(max-min) + "
               "1e-6*max|loss| of the threshold are only required to be unchanged-or-proposal",
               "adaptive random: levels with probability < 1e-6 or > 1-1e-6 are tested one-sided against 1e-6 "
               "(a float32 uniform draw hits an end point with probability 2^-24)",
               "membership tolerance 2e-5*L (DESIGN 3.1); CPU hardware only (the device argument is varied in spelling: "
               "default, 'cpu', torch.device('cpu'), 'cpu:0'); loss vectors are 1-D, finite, float32",
               "every sample_points call of a static sampler is a use, whatever device argument it carries"]
CASE_TIMEOUT = 300
ALPHA = 1e-9

INTERVALS = [1, 2, 3, 4, 5, 6, 7, "inf"]
DEVICES = ["none", "cpu", "tdev", "cpu:0"]      # default argument, "cpu", torch.device("cpu"), "cpu:0"


# ---------------------------------------------------------------------------------------------
# domains: live object + own float64 membership
# ---------------------------------------------------------------------------------------------

def _gen_domain(rng, allow_param=True):
    k = str(rng.choice(["interval", "rect", "circle", "pcircle"] if allow_param else ["interval", "rect", "circle"]))
    if k == "interval":
        a = float(np.round(rng.uniform(-3, 3), 2))
        return {"dom": "interval", "a": a, "b": a + float(np.round(rng.uniform(0.5, 4), 2))}
    if k == "rect":
        return {"dom": "rect", "x0": float(np.round(rng.uniform(-3, 3), 2)), "y0": float(np.round(rng.uniform(-3, 3), 2)),
                "w": float(np.round(rng.uniform(0.5, 3), 2)), "h": float(np.round(rng.uniform(0.5, 3), 2))}
    if k == "circle":
        return {"dom": "circle", "cx": float(np.round(rng.uniform(-3, 3), 2)), "cy": float(np.round(rng.uniform(-3, 3), 2)),
                "r": float(np.round(rng.uniform(0.5, 2.5), 2))}
    return {"dom": "pcircle", "cy": float(np.round(rng.uniform(-3, 3), 2)), "r": float(np.round(rng.uniform(0.5, 2.5), 2))}


def _build_domain(d):
    from torchphysics.problem.spaces import R1, R2
    from torchphysics.problem.domains import Interval, Parallelogram, Circle
    if d["dom"] == "interval":
        return Interval(R1("x"), d["a"], d["b"])
    if d["dom"] == "rect":
        return Parallelogram(R2("x"), [d["x0"], d["y0"]], [d["x0"] + d["w"], d["y0"]], [d["x0"], d["y0"] + d["h"]])
    if d["dom"] == "circle":
        return Circle(R2("x"), [d["cx"], d["cy"]], d["r"])
    cy = d["cy"]
    return Circle(R2("x"), lambda t: torch.column_stack((t, cy + 0.0 * t)), d["r"])


def _dom_center(d):
    if d["dom"] == "interval":
        return [(d["a"] + d["b"]) / 2]
    if d["dom"] == "rect":
        return [d["x0"] + d["w"] / 2, d["y0"] + d["h"] / 2]
    return [d.get("cx", 0.0), d["cy"]]


def _outside_rows(d, cols):
    """float64 membership of rows given as {variable: (m, dim) array}; returns indices of rows outside"""
    x = cols["x"].astype(np.float64)
    L = max(1.0, float(np.abs(x).max()) if x.size else 1.0)
    tol = 2e-5 * L
    if d["dom"] == "interval":
        bad = (x[:, 0] < d["a"] - tol) | (x[:, 0] > d["b"] + tol)
    elif d["dom"] == "rect":
        bad = ((x[:, 0] < d["x0"] - tol) | (x[:, 0] > d["x0"] + d["w"] + tol) |
               (x[:, 1] < d["y0"] - tol) | (x[:, 1] > d["y0"] + d["h"] + tol))
    else:
        if d["dom"] == "pcircle":
            if "t" not in cols:
                return np.arange(len(x))
            cx = cols["t"].astype(np.float64)[:, 0]
        else:
            cx = d["cx"]
        bad = np.hypot(x[:, 0] - cx, x[:, 1] - d["cy"]) > d["r"] + tol
    return np.flatnonzero(bad)


def _params(k):
    """k parameter rows with unique values for variable t (None for k == 0)"""
    from torchphysics.problem.spaces import R1, Points
    if not k:
        return None
    return Points(torch.tensor([[7.0 * j - 3.5] for j in range(k)]), R1("t"))


# ---------------------------------------------------------------------------------------------
# taps (observation)
# ---------------------------------------------------------------------------------------------

def _snap(points):
    sp = points.space
    return {"vars": tuple((v, sp[v]) for v in sp.keys()), "t": points.as_tensor.detach().clone()}


def _same(a, b):
    return a is not None and b is not None and a["vars"] == b["vars"] and a["t"].shape == b["t"].shape \
        and bool(torch.equal(a["t"], b["t"]))


def _cols(snap):
    out, i = {}, 0
    t = snap["t"].double().numpy()
    for v, d in snap["vars"]:
        out[v] = t[:, i:i + d]
        i += d
    return out


class Tap:
    def __init__(self):
        self.proposals = []
        self.events = []
        self.label = "driver"
        self.read = 0

    def inner(self, sampler):
        orig = sampler.sample_points
        tap = self

        def rec(*a, **k):
            out = orig(*a, **k)
            tap.proposals.append(_snap(out))
            return out
        sampler.sample_points = rec

    def outer(self, sampler):
        orig = sampler.sample_points
        tap = self

        def rec(*a, **k):
            start = len(tap.proposals)
            out = orig(*a, **k)
            loss = k.get("unreduced_loss", a[0] if (a and isinstance(a[0], torch.Tensor)) else None)
            dev = k["device"] if "device" in k else (a[1] if len(a) > 1 and not isinstance(a[1], torch.Tensor) else "<default>")
            tap.events.append({"ret": _snap(out), "props": tap.proposals[start:], "label": tap.label, "dev": repr(dev),
                               "loss": None if loss is None else loss.detach().clone()})
            return out
        sampler.sample_points = rec

    def new_events(self):
        ev = self.events[self.read:]
        self.read = len(self.events)
        return ev


def _cnt(res, key, n=1):
    res["counters"][key] = res["counters"].get(key, 0) + int(n)


# ---------------------------------------------------------------------------------------------
# generators
# ---------------------------------------------------------------------------------------------

def _gen_static(rng, tier):
    inner = str(rng.choice(["ru", "ru", "ru", "ru_filter", "ru_density", "gauss", "lhs", "prod", "concat"]))
    dom = _gen_domain(rng, allow_param=(inner == "ru"))
    n = int(rng.integers(4, 25))
    interval = INTERVALS[int(rng.integers(0, len(INTERVALS)))]
    length = int(rng.integers(1, 61))
    if rng.random() < 0.3:
        length = int(rng.integers(1, 9))
    k = 0
    if dom["dom"] == "pcircle":
        k = int(rng.integers(1, 4))
    elif inner == "ru" and rng.random() < 0.3:
        k = int(rng.integers(1, 4))
    p_next = float(rng.choice([0.0, 0.15, 0.4]))
    p_re = float(rng.choice([0.0, 0.05, 0.15]))
    p_cond = 0.06 if (k == 0 and inner in ("ru", "gauss", "lhs", "ru_filter")) else 0.0
    ops = []
    have_cond = False
    # device-argument pattern of the history: every sample_points call is a use, whatever the spelling of the device
    devmode = str(rng.choice(["plain", "plain", "alt", "random", "random", "switch"]))
    pair = [str(x) for x in rng.choice(DEVICES, size=2, replace=False)]
    cur = str(rng.choice(DEVICES))
    n_sp = 0
    for _ in range(length):
        u = rng.random()
        if u < p_next:
            ops.append(["next"])
        elif u < p_next + p_re:
            ops.append(["restatic", INTERVALS[int(rng.integers(0, len(INTERVALS)))] if rng.random() < 0.7 else "default"])
        elif u < p_next + p_re + p_cond:
            ops.append(["cond", int(rng.integers(0, 4))])
            have_cond = True
        elif have_cond and u < p_next + p_re + 3 * p_cond:
            ops.append(["fwd", str(rng.choice(DEVICES))] if devmode != "plain" else ["fwd"])
        else:
            v = rng.random()
            with_params = dom["dom"] == "pcircle" or bool(k and v < 0.5)
            if devmode == "plain":
                dev = "none" if rng.random() < 0.75 else "cpu"
            elif devmode == "alt":
                dev = pair[n_sp % 2]
            elif devmode == "random":
                dev = str(rng.choice(DEVICES))
            else:
                if rng.random() < 0.15:
                    cur = str(rng.choice([d for d in DEVICES if d != cur]))
                dev = cur
            n_sp += 1
            ops.append(["spx", dev, bool(devmode != "plain" and rng.random() < 0.3), with_params])
    if dom["dom"] == "pcircle":          # the first draw needs the parameters: no next() before a set is cached
        for i, o in enumerate(ops):
            if o[0] == "spx":
                break
            if o[0] == "next":
                ops[i] = ["spx", "none", False, True]
                break
    return {"kind": "static", "inner": inner, "dom": dom, "n": n, "interval": interval, "k": k, "ops": ops, "devmode": devmode,
            "seed": int(rng.integers(0, 2**31))}


def _gen_nonstatic(rng, tier):
    inner = str(rng.choice(["ru", "ru_filter", "gauss", "lhs", "prod", "concat"]))
    dom = _gen_domain(rng, allow_param=False)
    ops = [(["next"] if rng.random() < 0.3 else ["spx", str(rng.choice(DEVICES)), bool(rng.random() < 0.3), False])
           for _ in range(int(rng.integers(2, 25)))]
    return {"kind": "nonstatic", "inner": inner, "dom": dom, "n": int(rng.integers(4, 25)), "k": 0, "ops": ops,
            "seed": int(rng.integers(0, 2**31))}


LOSS_KINDS = ["dyadic", "dyadic", "dyadic_thr", "dyadic_thr", "constant", "two_level", "random", "random_off", "extreme"]


def _gen_adaptive_thr(rng, tier):
    dom = _gen_domain(rng)
    k = int(rng.integers(1, 4)) if dom["dom"] == "pcircle" else (int(rng.integers(1, 4)) if rng.random() < 0.25 else 0)
    steps = []
    for i in range(int(rng.integers(2, 13))):
        lk = str(rng.choice(LOSS_KINDS))
        if i > 0 and rng.random() < 0.05:
            lk = "none"
        steps.append({"loss": lk, "seed": int(rng.integers(0, 2**31)), "dev": bool(rng.random() < 0.25)})
    return {"kind": "adaptive_thr", "dom": dom, "n": int(rng.integers(4, 41)), "k": k,
            "ratio": float(rng.choice([0.0, 0.25, 0.3, 0.5, 1.0])), "steps": steps, "seed": int(rng.integers(0, 2**31))}


def _gen_adaptive_cond(rng, tier):
    dom = _gen_domain(rng, allow_param=False)
    return {"kind": "adaptive_cond", "variant": str(rng.choice(["thr", "thr", "rand"])), "dom": dom,
            "n": int(rng.integers(6, 41)), "k": 0, "ratio": float(rng.choice([0.0, 0.25, 0.3, 0.5, 1.0])),
            "forwards": int(rng.integers(2, 9)), "seed": int(rng.integers(0, 2**31))}


def _gen_adaptive_rand(rng, tier):
    dom = _gen_domain(rng)
    k = int(rng.integers(1, 3)) if dom["dom"] == "pcircle" else (1 if rng.random() < 0.15 else 0)
    nlev = int(rng.integers(4, 8))
    fr = sorted(set([0.0, 1.0] + [float(x) for x in rng.choice([0.0625, 0.125, 0.25, 0.375, 0.5, 0.625, 0.75, 0.875,
                                                                   0.9375], size=nlev - 2, replace=False)]))
    lo = float(rng.choice([0.0, 0.0, 1.0, 5.5]))
    sc = float(rng.choice([1.0, 4.0, 0.5, 64.0, 1e-6, 1e-9, 1e-12]))      # the law is invariant under the scale of the losses
    if sc < 1e-3:
        lo = 0.0                    # losses of a converged model: tiny values, not tiny differences of large ones
    reps = int(rng.integers(100, 200)) if tier == "quick" else int(rng.integers(150, 400))
    return {"kind": "adaptive_rand", "dom": dom, "n": int(rng.integers(16, 65)), "k": k, "levels": fr, "lo": lo, "scale": sc,
            "reshuffle": bool(rng.random() < 0.5), "reps": reps, "seed": int(rng.integers(0, 2**31))}


def gen_cases(seed, tier):
    rng = np.random.default_rng([seed, 15])
    q = tier == "quick"
    cases = []
    for n, g in ((320 if q else 6000, _gen_static), (50 if q else 600, _gen_nonstatic),
                 (170 if q else 3500, _gen_adaptive_thr), (40 if q else 500, _gen_adaptive_cond),
                 (48 if q else 640, _gen_adaptive_rand)):
        for _ in range(n):
            cases.append(g(rng, tier))
    # two static samplers with their own intervals combined by + / append: each part follows its own state machine
    for i in range(36 if q else 600):
        cases.append({"kind": "static_combo", "op": ["sum", "append"][i % 2], "ia": INTERVALS[int(rng.integers(0, 4))] if i % 5 else "inf",
                      "ib": INTERVALS[int(rng.integers(0, 4))] if i % 7 else "inf", "n": int(rng.integers(3, 9)), "k": 0,
                      "seed": int(rng.integers(0, 2**31))})
    # fixed short histories around every interval boundary (first expiry, second expiry, re-staticising mid-way)
    for iv in INTERVALS:
        m = 3 * (iv if iv != "inf" else 7) + 2
        cases.append({"kind": "static", "inner": "ru", "dom": {"dom": "interval", "a": 0.0, "b": 1.0}, "n": 6,
                      "interval": iv, "k": 0, "ops": [["sp"]] * m, "seed": int(rng.integers(0, 2**31))})
        for iv2 in INTERVALS + ["default"]:
            for cut in (1, 2, 3, 5):
                cases.append({"kind": "static", "inner": "ru", "dom": {"dom": "interval", "a": 0.0, "b": 1.0}, "n": 6,
                              "interval": iv, "k": 0,
                              "ops": [["sp"]] * cut + [["restatic", iv2]] + [["sp"]] * (2 * (iv2 if iv2 not in ("inf", "default") else 5) + 2),
                              "seed": int(rng.integers(0, 2**31))})
        # the same boundaries with the device argument spelled differently from call to call / changing mid-interval
        for a, b in (("none", "tdev"), ("cpu", "cpu:0"), ("tdev", "cpu:0"), ("none", "cpu")):
            hists = [[["spx", (a, b)[i % 2], False, False] for i in range(m)]]
            for cut in (1, 2):
                hists.append([["spx", a, False, False]] * cut + [["spx", b, bool(cut == 2), False]] * (m - cut))
            for h in hists:
                cases.append({"kind": "static", "inner": "ru", "dom": {"dom": "interval", "a": 0.0, "b": 1.0}, "n": 6,
                              "interval": iv, "k": 0, "ops": h, "devmode": "fixed", "seed": int(rng.integers(0, 2**31))})
    return cases


# ---------------------------------------------------------------------------------------------
# building the real samplers
# ---------------------------------------------------------------------------------------------

def _build_inner(c, dom_obj=None):
    from torchphysics.problem import samplers as S
    from torchphysics.problem.spaces import R1
    from torchphysics.problem.domains import Interval
    d = c["dom"]
    dom = dom_obj if dom_obj is not None else _build_domain(d)
    n, kind = c["n"], c["inner"]
    if kind == "ru":
        return S.RandomUniformSampler(dom, n_points=n)
    if kind == "ru_filter":
        mid = _dom_center(d)[0]
        return S.RandomUniformSampler(dom, n_points=n, filter_fn=lambda x: x[:, :1] > mid)
    if kind == "ru_density":
        vol = {"interval": lambda: d["b"] - d["a"], "rect": lambda: d["w"] * d["h"],
               "circle": lambda: math.pi * d["r"] ** 2}[d["dom"]]()
        return S.RandomUniformSampler(dom, density=(n + 0.5) / vol)
    if kind == "gauss":
        size = {"interval": lambda: d["b"] - d["a"], "rect": lambda: min(d["w"], d["h"]), "circle": lambda: d["r"]}[d["dom"]]()
        return S.GaussianSampler(dom, n_points=n, mean=_dom_center(d), std=0.2 * size)
    if kind == "lhs":
        return S.LHSSampler(dom, n_points=n)
    other = S.RandomUniformSampler(Interval(R1("s"), 0.0, 2.0), n_points=3)
    if kind == "prod":
        return S.RandomUniformSampler(dom, n_points=max(2, n // 3)) * other
    if kind == "concat":
        return S.RandomUniformSampler(dom, n_points=n) + S.RandomUniformSampler(dom, n_points=3)
    raise ValueError(kind)


def _iv(i):
    return math.inf if i == "inf" else int(i)


def _ivclass(i):
    return "inf" if i == "inf" else ("1" if i == 1 else ("2" if i == 2 else "3-7"))


# ---------------------------------------------------------------------------------------------
# (a) static histories
# ---------------------------------------------------------------------------------------------

class StaticRef:
    """the reference automaton"""

    def __init__(self, interval):
        self.cache, self.uses, self.interval = None, 0, interval

    def expect(self):
        return "cached" if (self.cache is not None and self.uses < self.interval) else "fresh"

    def commit(self, kind, got):
        if kind == "fresh":
            self.cache, self.uses = got, 1
        else:
            self.uses += 1

    def make_static(self, interval):
        self.interval = interval


def _run_static(c, res):
    from torchphysics.problem.samplers import StaticSampler
    from torchphysics.problem.spaces import Points
    torch.manual_seed(c["seed"])
    tap = Tap()
    mech0 = {"sampler": "StaticSampler", "inner": c["inner"], "params": c["k"] > 0}
    try:
        inner = _build_inner(c)
        tap.inner(inner)
        s = inner.make_static(_iv(c["interval"]))
    except Exception as e:
        res["viol"].append(viol("exception", "building %s / make_static raised %r" % (c["inner"], e), site=exc_site(e),
                                call="make_static", **mech0))
        return
    if not isinstance(s, StaticSampler) or not s.is_static:
        res["viol"].append(viol("static_wrong_set", "make_static returned %r, not a static sampler" % type(s).__name__,
                                call="make_static", **mech0))
        return
    tap.outer(s)
    wrapped = {id(s)}
    ref = StaticRef(_iv(c["interval"]))
    P = _params(c["k"])
    random_inner = True
    cond = None
    restaticised = False
    kinds_seen = set()
    res["ops_used"] = set()

    devs = {"last": None, "cur": None, "changes": 0}

    def mech(label, **kw):
        u = "lt" if ref.uses < ref.interval else ("eq" if ref.uses == ref.interval else "gt")
        return dict(mech0, call=label, interval_class=_ivclass("inf" if ref.interval == math.inf else ref.interval),
                    after_restatic=restaticised, uses_vs_interval=u, device_arg=devs["cur"],
                    device_arg_changed=devs["last"] is not None and devs["cur"] != devs["last"],
                    device_args_changed_before=devs["changes"] > 0, **kw)

    def judge(ev, label):
        """one observed sample_points call against the automaton; returns False after a violation"""
        exp = ref.expect()
        got, props = ev["ret"], ev["props"]
        res["judged"] += 1
        devs["cur"] = ev.get("dev")
        ok = _judge_inner(ev, label, exp, got, props)
        if devs["last"] is not None and devs["cur"] != devs["last"]:
            devs["changes"] += 1
            _cnt(res, "static_calls_with_changed_device_spelling")
        devs["last"] = devs["cur"]
        return ok

    def _judge_inner(ev, label, exp, got, props):
        is_prop = bool(props) and _same(got, props[-1])
        is_cache = _same(got, ref.cache)
        where = "call #%d (%s), interval %s, uses of the current set so far %d" % (res["judged"], label, ref.interval, ref.uses)
        if exp == "cached":
            if not is_cache:
                res["viol"].append(viol("static_wrong_set", "%s: the cached set must be returned again but a %s set came "
                                        "back; first rows cached %s, returned %s"
                                        % (where, "fresh" if is_prop else "different",
                                           ref.cache["t"][:2].tolist(), got["t"][:2].tolist()),
                                        **mech(label, expected="cached", observed="fresh" if is_prop else "other")))
                return False
            if props:
                _cnt(res, "static_cached_returns_with_discarded_inner_draw")
            ref.commit("cached", got)
            _cnt(res, "static_cached_returns")
            kinds_seen.add("cached")
            return True
        if not is_prop:
            res["viol"].append(viol("static_wrong_set", "%s: the interval has elapsed (or nothing is cached), a fresh set "
                                    "must be drawn, but %s; inner sampler called %d times during the call"
                                    % (where, "the old set was returned again" if is_cache else
                                       "the returned set is not the inner sampler's proposal", len(props)),
                                    **mech(label, expected="fresh", observed="cached" if is_cache else "other")))
            return False
        if random_inner and ref.cache is not None and got["t"].numel() >= 4 and is_cache:
            res["viol"].append(viol("static_wrong_set", "%s: the 'fresh' set equals the previous set bit for bit" % where,
                                    **mech(label, expected="fresh", observed="same_values")))
            return False
        ref.commit("fresh", got)
        _cnt(res, "static_fresh_returns")
        kinds_seen.add("fresh")
        return True

    for op in c["ops"]:
        name = op[0]
        res["ops_used"].add(name)
        tap.label = name
        try:
            if name == "spx":
                _call_static(s, P if op[3] else None, op[1], op[2])
            elif name == "sp":
                s.sample_points()
            elif name == "sp_dev":
                s.sample_points(device="cpu")
            elif name == "sp_params":
                s.sample_points(P)
            elif name == "sp_params_dev":
                s.sample_points(P, device="cpu")
            elif name == "next":
                out = next(s)
                evs = tap.new_events()
                peek = ref.cache is not None and not NEXT_COUNTS_AS_USE
                if peek:
                    res["judged"] += 1
                    _cnt(res, "static_next_peeks")
                    if not _same(_snap(out), ref.cache):
                        res["viol"].append(viol("static_next_wrong_set", "next() with a cached set returned another set "
                                                "(%d sample_points calls inside); cached %s returned %s"
                                                % (len(evs), ref.cache["t"][:2].tolist(), out.as_tensor[:2].tolist()),
                                                **mech("next", expected="cached", observed="other")))
                        return
                    if evs:
                        _cnt(res, "static_next_peeks_that_called_sample_points")
                        # by the recorded decision the automaton state must not move; later calls show if it did
                    continue
                _cnt(res, "static_next_draws")
                if len(evs) != 1 or not _same(_snap(out), evs[0]["ret"]):
                    res["viol"].append(viol("static_next_wrong_set", "next() without a cache made %d sample_points calls / "
                                            "did not return that call's set" % len(evs),
                                            **mech("next", expected="fresh", observed="other")))
                    return
                if not judge(evs[0], "next"):
                    return
                continue
            elif name == "restatic":
                # "default": make_static() without an argument - the documented default interval is infinity
                s2 = s.make_static() if op[1] == "default" else s.make_static(_iv(op[1]))
                ref.make_static(math.inf if op[1] == "default" else _iv(op[1]))
                restaticised = True
                _cnt(res, "static_make_static_calls")
                if id(s2) not in wrapped:
                    tap.outer(s2)
                    wrapped.add(id(s2))
                s = s2
            elif name == "cond":
                cond = _make_condition(c, s, op[1])
                _cnt(res, "condition_constructions")
            elif name == "fwd":
                if cond is not None:
                    if len(op) > 1 and op[1] != "none":
                        cond.forward(device=_device(op[1]))
                    else:
                        cond.forward()
                    _cnt(res, "condition_forwards")
        except Exception as e:
            res["viol"].append(viol("exception", "history op %s raised %r after %d judged calls" % (op, e, res["judged"]),
                                    site=exc_site(e), **mech(name)))
            return
        for ev in tap.new_events():
            label = name if name not in ("cond", "fwd") else ("condition_constructor" if name == "cond" else "condition_forward")
            if name == "cond":
                _cnt(res, "calls_by_condition_constructor")
            if not judge(ev, label):
                return
    res["nontrivial"] = {"cached", "fresh"} <= kinds_seen or (res["judged"] >= 2 and ref.interval in (1, math.inf))


def _device(d):
    return {"cpu": "cpu", "tdev": torch.device("cpu"), "cpu:0": "cpu:0"}[d]


def _call_static(s, P, dev, positional):
    """sample_points with the device argument spelled / passed in one of the generated ways"""
    from torchphysics.problem.spaces import Points
    if dev == "none":
        return s.sample_points(P) if P is not None else s.sample_points()
    if positional:
        return s.sample_points(P if P is not None else Points.empty(), _device(dev))
    if P is not None:
        return s.sample_points(P, device=_device(dev))
    return s.sample_points(device=_device(dev))


def _make_condition(c, sampler, m):
    from torchphysics.models import FCN
    from torchphysics.problem.spaces import R1, R2
    from torchphysics.problem.conditions import PINNCondition
    X = R1("x") if c["dom"]["dom"] == "interval" else R2("x")
    net = FCN(X, R1("u"), hidden=(4,))
    names = ["g0", "g1", "g2"][:m]
    def mk(j):
        return lambda x: x[:, :1] * (j + 1.0)
    dfs = {nm: mk(j) for j, nm in enumerate(names)}
    if m == 0:
        resid = lambda u: u
    elif m == 1:
        resid = lambda u, g0: u - g0
    elif m == 2:
        resid = lambda u, g0, g1: u - g0 + g1
    else:
        resid = lambda u, g0, g1, g2: u - g0 + g1 - g2
    return PINNCondition(net, sampler, resid, data_functions=dfs)


# ---------------------------------------------------------------------------------------------
# (b) non-static histories
# ---------------------------------------------------------------------------------------------

def _run_nonstatic(c, res):
    torch.manual_seed(c["seed"])
    mech = {"sampler": c["inner"], "static": False}
    try:
        s = _build_inner(c)
    except Exception as e:
        res["viol"].append(viol("exception", "building %s raised %r" % (c["inner"], e), site=exc_site(e), **mech))
        return
    if s.is_static:
        res["viol"].append(viol("nonstatic_repeats", "%s reports is_static" % c["inner"], **mech))
        return
    seen = []
    res["ops_used"] = set()
    for i, op in enumerate(c["ops"]):
        res["ops_used"].add(op[0])
        try:
            if op[0] == "spx":
                out = _call_static(s, None, op[1], op[2])
            else:
                out = next(s) if op[0] == "next" else (s.sample_points(device="cpu") if op[0] == "sp_dev" else s.sample_points())
        except Exception as e:
            res["viol"].append(viol("exception", "%s raised %r" % (op, e), site=exc_site(e), call=op[0], **mech))
            return
        got = _snap(out)
        res["judged"] += 1
        _cnt(res, "nonstatic_calls")
        if got["t"].numel() >= 4:
            for j, old in enumerate(seen):
                if _same(got, old):
                    res["viol"].append(viol("nonstatic_repeats", "call %d (%s) of a non-static %s returned bit for bit the set "
                                            "of call %d" % (i, op[0], c["inner"], j), call=op[0], **mech))
                    return
        seen.append(got)
    res["nontrivial"] = len(seen) >= 2


# ---------------------------------------------------------------------------------------------
# (c) adaptive samplers
# ---------------------------------------------------------------------------------------------

def _loss_vector(kind, m, ratio, seed):
    """float32 loss vector of length m (numpy), or None"""
    rng = np.random.default_rng(seed)
    if kind == "none":
        return None
    if kind in ("dyadic", "dyadic_thr"):
        lo = float(rng.integers(0, 9)) / 4.0 if rng.random() < 0.6 else 0.0
        span = float(rng.choice([1, 2, 4, 8, 16]))
        levels = [lo, lo + span] + [lo + span * float(x) / 16.0 for x in rng.integers(0, 17, size=int(rng.integers(1, 4)))]
        if kind == "dyadic_thr":
            levels.append(lo + span * ratio if ratio in (0.0, 0.25, 0.5, 1.0) else lo + span * 0.25)
        v = rng.choice(np.array(levels), size=m)
        if m >= 2:
            v[int(rng.integers(0, m))] = lo
            j = int(rng.integers(0, m))
            v[j] = lo + span if v[j] != lo or m == 1 else v[j]
        if kind == "dyadic_thr" and m >= 3:
            v[int(rng.integers(0, m))] = levels[-1]
        return v.astype(np.float32)
    if kind == "constant":
        return np.full(m, float(rng.choice([0.0, 1.0, 0.3, 1e-20, 7.25])), dtype=np.float32)
    if kind == "two_level":
        a, b = float(rng.choice([0.0, 0.5, 3.0])), float(rng.choice([4.0, 10.0, 1e3]))
        return rng.choice(np.array([a, b]), size=m).astype(np.float32)
    if kind == "random":
        return rng.random(m).astype(np.float32) ** 2
    if kind == "random_off":
        return (rng.random(m) * float(rng.choice([1e-3, 1.0, 50.0])) + float(rng.choice([0.1, 3.0, 100.0]))).astype(np.float32)
    if kind == "extreme":
        return rng.choice(np.array([0.0, 1e-38, 1e-20, 1.0, 1e20, 3e38]), size=m).astype(np.float32)
    raise ValueError(kind)


def _exact_arith(loss64, ratio):
    mn, mx = loss64.min(), loss64.max()
    if ratio == 0.0 or mn == mx:
        return True
    on_grid = np.all(loss64 * 64.0 == np.floor(loss64 * 64.0)) and np.all(np.abs(loss64) <= 1024.0)
    return bool(on_grid and ratio in (0.25, 0.5, 0.75, 1.0))


class AdaptiveJudge:
    """reference for both adaptive variants; `prev` = the set returned by the previous call"""

    def __init__(self, c, variant, res):
        self.c, self.variant, self.res = c, variant, res
        self.prev = None
        self.rows = None
        self.retained = self.replaced = 0
        self.tally = collections.defaultdict(lambda: [0, 0])      # probability level -> [retained, trials]
        self.mech0 = {"sampler": "AdaptiveThresholdRejectionSampler" if variant == "thr" else "AdaptiveRandomRejectionSampler",
                      "domain": c["dom"]["dom"], "params": c["k"] > 0}

    def v(self, kind, msg, **kw):
        self.res["viol"].append(viol(kind, msg, **dict(self.mech0, **kw)))
        return False

    def judge(self, ev, label):
        c, res = self.c, self.res
        got, props, loss = ev["ret"], ev["props"], ev["loss"]
        first = self.prev is None
        m = got["t"].shape[0]
        if self.rows is None:
            self.rows = m
            want_rows = c["n"] * max(1, c["k"])
            if m != want_rows:
                return self.v("adaptive_row_count", "first call returned %d rows, n_points=%d x %d parameter rows"
                              % (m, c["n"], max(1, c["k"])), call=label, first_call=True)
        if m != self.rows or (not first and got["vars"] != self.prev["vars"]):
            return self.v("adaptive_row_count", "call %d returned %d rows (%s), the previous calls %d" %
                          (res["judged"], m, got["vars"], self.rows), call=label, first_call=first)
        if not props or props[-1]["t"].shape != got["t"].shape:
            return self.v("adaptive_wrong_rows", "call %d: no proposal of matching shape was drawn from the inner random "
                          "sampler (%d inner calls)" % (res["judged"], len(props)), call=label, first_call=first,
                          what="no_proposal")
        prop = props[-1]
        bad = _outside_rows(c["dom"], _cols(got))
        if len(bad):
            return self.v("adaptive_outside_domain", "call %d: %d returned rows lie outside the domain %s, e.g. row %d = %s"
                          % (res["judged"], len(bad), c["dom"], bad[0], got["t"][bad[0]].tolist()), call=label,
                          first_call=first)
        G, Pm = got["t"].numpy(), prop["t"].numpy()
        eq_prop = (G == Pm).all(axis=1)
        if first or loss is None:
            res["judged"] += 1
            ok = eq_prop.all() if first else True
            if not first:
                eq_prev = (G == self.prev["t"].numpy()).all(axis=1)
                ok = bool((eq_prop | eq_prev).all())
            if not ok:
                return self.v("adaptive_wrong_rows", "call %d (%s): rows %s are neither the fresh proposal nor unchanged"
                              % (res["judged"], "first call" if first else "no loss given",
                                 np.flatnonzero(~eq_prop)[:5].tolist()), call=label, first_call=first, what="first_or_no_loss")
            _cnt(res, "adaptive_first_or_lossless_calls")
            self.prev = got
            return True
        eq_prev = (G == self.prev["t"].numpy()).all(axis=1)
        l64 = loss.double().numpy().reshape(-1)
        if l64.shape[0] != m or not np.isfinite(l64).all():
            raise ValueError("generated loss vector does not fit")
        mn, mx = float(l64.min()), float(l64.max())
        res["judged"] += 1
        stray = ~(eq_prev | eq_prop)
        if stray.any():
            i = int(np.flatnonzero(stray)[0])
            return self.v("adaptive_wrong_rows", "call %d: row %d (loss %.6g, min %.6g max %.6g) is neither bitwise unchanged "
                          "nor the proposal at its index: previous %s proposal %s returned %s; %d such rows"
                          % (res["judged"], i, l64[i], mn, mx, self.prev["t"][i].tolist(), prop["t"][i].tolist(),
                             got["t"][i].tolist(), int(stray.sum())), call=label, first_call=False, what="neither")
        ambiguous = eq_prev & eq_prop
        if self.variant == "thr":
            ratio = c["ratio"]
            thr = mn + ratio * (mx - mn)
            exact = _exact_arith(l64, ratio)
            # float32 evaluates the threshold with rounding errors of a few ulp of the loss magnitude
            band = 0.0 if exact else 1e-5 * (mx - mn) + 1e-6 * max(abs(mn), abs(mx)) + 1e-300
            keep = l64 >= thr
            near = np.abs(l64 - thr) <= band if not exact else np.zeros(m, dtype=bool)
            wrong_drop = keep & ~near & ~eq_prev
            wrong_keep = ~keep & ~near & ~eq_prop & ~ambiguous
            _cnt(res, "thr_rows_must_be_kept", int((keep & ~near).sum()))
            _cnt(res, "thr_rows_must_be_replaced", int((~keep & ~near).sum()))
            _cnt(res, "thr_rows_in_rounding_band", int(near.sum()))
            _cnt(res, "thr_rows_exactly_at_threshold", int((l64 == thr).sum()) if exact else 0)
            self.retained += int((keep & ~near).sum())
            self.replaced += int((~keep & ~near).sum())
            if wrong_drop.any() or wrong_keep.any():
                i = int(np.flatnonzero(wrong_drop | wrong_keep)[0])
                at = "eq" if l64[i] == thr else ("above" if l64[i] > thr else "below")
                return self.v("adaptive_wrong_retain_set", "call %d: ratio %g, loss min %.9g max %.9g -> threshold %.9g; row %d "
                              "has loss %.9g (%s the threshold) and was %s; %d rows wrongly replaced, %d wrongly kept"
                              % (res["judged"], ratio, mn, mx, thr, i, l64[i], at,
                                 "replaced" if wrong_drop[i] else "kept", int(wrong_drop.sum()), int(wrong_keep.sum())),
                              call=label, first_call=False, loss_vs_threshold=at, ratio=ratio,
                              error="replaced" if wrong_drop[i] else "kept")
        else:
            if mx > mn:
                p = (l64 - mn) / (mx - mn)
                for i in range(m):
                    if not ambiguous[i]:
                        t = self.tally[round(float(p[i]), 9)]
                        t[0] += int(eq_prev[i])
                        t[1] += 1
                _cnt(res, "rand_bernoulli_trials", int((~ambiguous).sum()))
            else:
                _cnt(res, "rand_constant_loss_calls_not_tallied")
            self.retained += int(eq_prev.sum())
            self.replaced += int((~eq_prev).sum())
        self.prev = got
        return True

    def binomial(self):
        """-> (worst description or None, number of levels tested)"""
        from scipy import stats
        levels = [(p, k, n) for p, (k, n) in sorted(self.tally.items()) if n > 0]
        worst = None
        for p, k, n in levels:
            if p < 1e-6:
                pv = float(stats.binom.sf(k - 1, n, 1e-6))
            elif p > 1 - 1e-6:
                pv = float(stats.binom.sf(n - k - 1, n, 1e-6))
            else:
                pv = float(stats.binomtest(k, n, p).pvalue)
            if pv < ALPHA / max(1, len(levels)) and (worst is None or pv < worst[0]):
                worst = (pv, p, k, n)
        return worst, len(levels)


def _build_adaptive(c, variant, tap):
    from torchphysics.problem import samplers as S
    dom = _build_domain(c["dom"])
    if variant == "thr":
        s = S.AdaptiveThresholdRejectionSampler(dom, c["ratio"], n_points=c["n"])
    else:
        s = S.AdaptiveRandomRejectionSampler(dom, n_points=c["n"])
    tap.inner(s.random_sampler)
    tap.outer(s)
    return s


def _call_adaptive(s, loss, P, dev):
    kw = {}
    if P is not None:
        kw["params"] = P
    if dev:
        kw["device"] = "cpu"
    return s.sample_points(unreduced_loss=None if loss is None else torch.from_numpy(loss), **kw)


def _run_adaptive_thr(c, res):
    torch.manual_seed(c["seed"])
    tap = Tap()
    J = AdaptiveJudge(c, "thr", res)
    try:
        s = _build_adaptive(c, "thr", tap)
    except Exception as e:
        return J.v("exception", "constructor raised %r" % e, site=exc_site(e), call="init")
    P = _params(c["k"])
    m = c["n"] * max(1, c["k"])
    res["loss_kinds"] = set()
    for i, st in enumerate(c["steps"]):
        loss = None if i == 0 and st["loss"] in ("none",) else _loss_vector(st["loss"], m, c["ratio"], st["seed"])
        if i == 0 and st["seed"] % 2:
            loss = None                      # conditions pass None on the first call; a loss there must be ignored
        res["loss_kinds"].add(st["loss"])
        try:
            _call_adaptive(s, loss, P, st["dev"])
        except Exception as e:
            return J.v("exception", "sample_points(loss kind %s, step %d) raised %r" % (st["loss"], i, e), site=exc_site(e),
                       call="sample_points", first_call=i == 0)
        for ev in tap.new_events():
            if not J.judge(ev, "sample_points"):
                return
    res["nontrivial"] = J.retained > 0 and J.replaced > 0
    res["ratio"] = c["ratio"]


def _run_adaptive_cond(c, res):
    from torchphysics.models import FCN
    from torchphysics.problem.spaces import R1, R2
    from torchphysics.problem.conditions import PINNCondition
    torch.manual_seed(c["seed"])
    tap = Tap()
    J = AdaptiveJudge(c, c["variant"], res)
    try:
        s = _build_adaptive(c, c["variant"], tap)
        X = R1("x") if c["dom"]["dom"] == "interval" else R2("x")
        net = FCN(X, R1("u"), hidden=(5,))
        cond = PINNCondition(net, s, lambda u, x: u - torch.sin(3.0 * x[:, :1]))
    except Exception as e:
        return J.v("exception", "building the condition raised %r" % e, site=exc_site(e), call="init")
    for i in range(c["forwards"]):
        try:
            cond.forward()
        except Exception as e:
            return J.v("exception", "PINNCondition.forward #%d with an adaptive sampler raised %r" % (i, e),
                       site=exc_site(e), call="condition_forward", first_call=i == 0)
        evs = tap.new_events()
        if len(evs) != 1:
            return J.v("adaptive_wrong_rows", "forward #%d called the sampler %d times" % (i, len(evs)),
                       call="condition_forward", what="calls_per_forward")
        if (evs[0]["loss"] is None) != (i == 0):
            _cnt(res, "condition_forwards_without_loss_after_first")
        if not J.judge(evs[0], "condition_forward"):
            return
        _cnt(res, "adaptive_condition_forwards")
    res["nontrivial"] = J.retained > 0 and (J.replaced > 0 or c["variant"] == "thr")


def _rand_rounds(c, res, seed, reps, J):
    torch.manual_seed(seed)
    tap = Tap()
    s = _build_adaptive(c, "rand", tap)
    P = _params(c["k"])
    m = c["n"] * max(1, c["k"])
    rng = np.random.default_rng(seed)
    lv = np.array(c["levels"], dtype=np.float64) * c["scale"] + c["lo"]
    assign = rng.integers(0, len(lv), size=m)
    assign[: len(lv)] = np.arange(len(lv))[: m]
    for i in range(reps + 1):
        if c["reshuffle"]:
            assign = rng.permutation(assign)
        loss = None if i == 0 else lv[assign].astype(np.float32)
        try:
            _call_adaptive(s, loss, P, False)
        except Exception as e:
            J.v("exception", "sample_points (repetition %d) raised %r" % (i, e), site=exc_site(e), call="sample_points",
                first_call=i == 0)
            return False
        for ev in tap.new_events():
            if not J.judge(ev, "sample_points"):
                return False
    return True


def _run_adaptive_rand(c, res):
    J = AdaptiveJudge(c, "rand", res)
    if not _rand_rounds(c, res, c["seed"], c["reps"], J):
        return
    worst, nlev = J.binomial()
    _cnt(res, "rand_levels_tested", nlev)
    if worst is not None:
        # replicate with an independent, four times larger sample before anything is reported
        _cnt(res, "rand_replications")
        J2 = AdaptiveJudge(c, "rand", res)
        if not _rand_rounds(c, res, c["seed"] + 7919, 4 * c["reps"], J2):
            return
        worst2, _ = J2.binomial()
        if worst2 is not None:
            pv, p, k, n = worst2
            J.v("adaptive_retention_law", "loss level with (loss-min)/(max-min) = %.6g was retained %d of %d times "
                "(frequency %.4f, binomial p-value %.3g) in the replication; first sample: level %.6g %d/%d (p-value %.3g)"
                % (p, k, n, k / n, pv, worst[1], worst[2], worst[3], worst[0]), call="sample_points",
                direction="high" if k / n > p else "low")
            return
        _cnt(res, "rand_first_sample_rejections_not_reproduced")
    res["nontrivial"] = J.retained > 0 and J.replaced > 0 and nlev >= 3


# ---------------------------------------------------------------------------------------------
# entry point
# ---------------------------------------------------------------------------------------------

def _cls(c, res):
    k = c["kind"]
    if k == "static":
        ops = "".join(sorted({"sp": "s", "sp_dev": "d", "sp_params": "p", "sp_params_dev": "P", "next": "n", "restatic": "r",
                              "cond": "c", "fwd": "f", "spx": "x"}[o] for o in res.pop("ops_used", set())))
        ln = "L1" if len(c["ops"]) <= 3 else ("L2" if len(c["ops"]) <= 15 else "L3")
        nd = len({o[1] for o in c["ops"] if o[0] == "spx"})
        return "static/%s/%s/i%s/%s/%s/k%d/dev-%s%d" % (c["inner"], c["dom"]["dom"], _ivclass(c["interval"]), ln, ops,
                                                        min(c["k"], 2), c.get("devmode", "plain"), min(nd, 3))
    if k == "nonstatic":
        return "nonstatic/%s/%s/%s" % (c["inner"], c["dom"]["dom"], "".join(sorted(o[0] for o in res.pop("ops_used", set()))))
    if k == "adaptive_thr":
        return "thr/%s/r%g/k%d/%s" % (c["dom"]["dom"], c["ratio"], min(c["k"], 2), "+".join(sorted(res.pop("loss_kinds", set()))))
    if k == "adaptive_cond":
        return "cond/%s/%s/r%g" % (c["variant"], c["dom"]["dom"], c["ratio"] if c["variant"] == "thr" else -1)
    return "rand/%s/k%d/lev%d/lo%g/sc%g/re%d" % (c["dom"]["dom"], c["k"], len(c["levels"]), c["lo"], c["scale"], c["reshuffle"])


def _run_static_combo(c, res):
    """op(static(a, ia), static(b, ib)): the rows / columns of each operand are identical within blocks of its own interval
    and freshly drawn at every expiry"""
    import torchphysics as tp
    torch.manual_seed(c["seed"])
    X, Y = tp.spaces.R1("x"), tp.spaces.R1("y")
    n = c["n"]
    a = tp.samplers.RandomUniformSampler(tp.domains.Interval(X, 0.0, 1.0), n_points=n).make_static(_iv(c["ia"]))
    mech = {"sampler": "StaticSampler", "inner": "combo_" + c["op"], "params": False}
    if c["op"] == "sum":
        b = tp.samplers.RandomUniformSampler(tp.domains.Interval(X, 2.0, 3.0), n_points=n + 1).make_static(_iv(c["ib"]))
        s = a + b
        parts = lambda t: (t[:n, 0], t[n:, 0])
    else:
        b = tp.samplers.RandomUniformSampler(tp.domains.Interval(Y, 2.0, 3.0), n_points=n).make_static(_iv(c["ib"]))
        s = a.append(b)
        parts = lambda t, s_=None: (t[:, 0], t[:, 1])
    ka, kb = _iv(c["ia"]), _iv(c["ib"])
    ncalls = int(min(3 * (ka if ka != math.inf else 3) * (kb if kb != math.inf else 3) + 2, 40))
    hist = []
    for j in range(ncalls):
        try:
            out = s.sample_points()
        except Exception as e:
            res["viol"].append(viol("exception", "call %d of static(%s) %s static(%s) raised %r" % (j, c["ia"], c["op"], c["ib"], e),
                                    site=exc_site(e), call="sample_points", **mech))
            return
        t = out.as_tensor.detach().clone()
        if c["op"] == "append":
            names = list(out.space.keys())
            t = torch.cat([out.coordinates["x"], out.coordinates["y"]], -1).detach().clone() if set(names) == {"x", "y"} else t
        hist.append(parts(t))
    res["counters"]["combo_calls"] = ncalls
    for which, kk in ((0, ka), (1, kb)):
        for j in range(1, ncalls):
            same_block = (kk == math.inf) or (j // kk == (j - 1) // kk)
            same = hist[j][which].shape == hist[j - 1][which].shape and torch.equal(hist[j][which], hist[j - 1][which])
            res["judged"] += 1
            if same != same_block:
                res["viol"].append(viol("static_wrong_set", "static(%s) %s static(%s): operand %s at call %d is %s the one of call %d, its "
                                        "interval %s expects %s" % (c["ia"], c["op"], c["ib"], "ab"[which], j, "identical to" if same else "different from",
                                                                    j - 1, "inf" if kk == math.inf else kk, "a cached set" if same_block else "a fresh set"),
                                        expected="cached" if same_block else "fresh", observed="cached" if same else "fresh",
                                        call="combo", **mech))
                return


def run_case(c):
    res = {"cls": "?", "judged": 0, "nontrivial": False, "viol": [], "counters": {}}
    if c["kind"] == "static_combo":
        _run_static_combo(c, res)
        res["cls"] = "static_combo/%s/i%s/i%s" % (c["op"], _ivclass(c["ia"]), _ivclass(c["ib"]))
        res["nontrivial"] = res["judged"] > 0
        return res
    {"static": _run_static, "nonstatic": _run_nonstatic, "adaptive_thr": _run_adaptive_thr,
     "adaptive_cond": _run_adaptive_cond, "adaptive_rand": _run_adaptive_rand}[c["kind"]](c, res)
    res["cls"] = _cls(c, res)
    for k in ("ops_used", "loss_kinds", "ratio"):
        res.pop(k, None)
    if res["viol"]:
        res["nontrivial"] = True
    return res


def sample_of(case, r):
    c = dict(case)
    if "ops" in c and len(c["ops"]) > 12:
        c["ops"] = c["ops"][:12] + ["... %d operations" % len(case["ops"])]
    return {"case": c, "class": r.get("cls"), "calls_judged": r.get("judged"), "status": r.get("status"),
            "counters": r.get("counters")}


def warmup():
    """imports done before the per-case watchdog is armed"""
    from scipy import stats  # noqa: F401
    from torchphysics.problem import samplers, conditions, domains  # noqa: F401
    from torchphysics.models import FCN  # noqa: F401
