"""C19 -- checkpoints and saved weights restore training exactly  (fault enumeration).

Crash-point enumeration.  For a configuration (model, inverse-problem Parameter / adaptive weights, optimizer,
scheduler), a number of steps N and a check interval c of `TrainerStateCheckpoint`:

  uninterrupted : fresh world, Solver + Trainer(max_steps=N), no library callback
  for EVERY interruption step k in 1..N-1:
     crashed : fresh identical world with TrainerStateCheckpoint(dir, 'ck', check_interval=c); a harness callback
               placed AFTER the library's callback records learnable / optimizer state at every batch start / end,
               copies the checkpoint file whenever it changes on disk and raises SimulatedCrash after step k
     resumed : fresh identical world, trainer.fit(solver, ckpt_path=<the file that was on disk at the crash>),
               trained on to step N
     oracle  : learnable state (harness' own attribute walk), optimizer state, learning rate and scheduler counter of
               the resumed run == uninterrupted run (tolerance 1e-7, observed 0); state right after restoring == the
               state recorded when the file was written; every learnable tensor reachable from the training conditions
               is stored in the checkpoint file with the value it had when the file was written.

WeightSaveCallback cases: check_interval in {1,2,3} x save_initial_model x save_final_model x saved module (network /
condition / whole Solver): every file written loads (strict) into the corresponding module of a freshly built
identical world; `_init` == module before fit, `_final` == module after fit (exactly); every version of `_min_loss`
== the recorded module state at one of the step boundaries 1..N seen so far.
"""
import os
import shutil
import tempfile

import numpy as np
import torch

from ..core import viol, exc_site, Inconclusive, TMP_ROOT

LEVEL = "fault_enumeration"
EXHAUSTIVE = True
RULE = ("per configuration (FCN|QRES x {plain, inverse-problem Parameter, adaptive weights, both, two separate networks} x "
        "{SGD+momentum, Adam, RMSprop+momentum} x {no scheduler, StepLR frequency 1, StepLR frequency 2, ExponentialLR "
        "frequency 3}; static grid samplers) the interruption space {(k, N, c): N in the tier's set, c in {1,2,3}, "
        "k in 1..N-1} is enumerated COMPLETELY: for every generated (N, c) EVERY k is crashed and resumed -- this (k, N, c) "
        "space is what `exhaustive` refers to. N: quick 3..5 plus 2*frequency+3 for scheduler frequency f > 1 (7 resp. 9), "
        "thorough 3..10. Configurations: thorough = all 24 model x feature x optimizer combinations, each with 2 of the 4 "
        "scheduler levels (rotating with the seed, every level 12 times); quick = 8 configurations covering every level of "
        "every factor (each scheduler level twice). WeightSaveCallback: all check_interval in {1,2,3} x save_initial x "
        "save_final per configuration, N in {4} (quick) / {3,6,9} (thorough), saved module cycling over network / condition "
        "/ Solver, run names cycling over names with dots, dashes, several dots and trailing versions; exactly the documented "
        "files <name>_init.pt / <name>_min_loss.pt / <name>_final.pt may appear in the directory. A case is non-trivial when every k of its (N, c) was crashed, resumed from the "
        "file on disk and compared; distinct = (configuration, N, c) resp. (configuration, c, flags, module)")
RULE += '; a quarter of the weight-save cases train with precision 64-true; configurations with two separate networks (one per condition)'
RULE += '; weight-file cases with LBFGS(max_iter=4)'
REQUIRED_REACH = ["TrainerStateCheckpoint.on_train_batch_end", "WeightSaveCallback.on_train_start",
                  "WeightSaveCallback.on_train_batch_start", "WeightSaveCallback.on_train_end", "Solver.training_step",
                  "Solver.configure_optimizers", "AdaptiveWeightsCondition.__init__", "Parameter.__init__"]
MIN_NONTRIVIAL = 40
ASSUMPTIONS = ["sampling is deterministic (static grid samplers), as the property requires",
               "the crash is simulated by an exception raised from a Lightning callback after step k (process state is "
               "discarded by building a completely fresh world for the resumed run); torn / partially written files "
               "are not simulated",
               "a world whose training diverges within 10 steps (screened with the plain reference loop) is replaced by the "
               "same configuration with the next world seed (counted as world_seed_shifted_for_stability)",
               "CPU, float32, one optimizer, one epoch (max_steps = N), no validation during these runs",
               "equality tolerance 1e-7 (absolute + relative) for resumed-vs-uninterrupted, exact equality for files "
               "of WeightSaveCallback"]
CASE_TIMEOUT = 300

MODELS = ["FCN", "QRES"]
FEATS = ["plain", "param", "adaptive", "both", "twonets"]
OPTS = ["SGDm", "Adam", "RMSprop"]
SCHEDS = [None, "StepLR", "StepLR/f2", "ExpLR/f3"]
SCHED_SPEC = {"StepLR": {"cls": "StepLR", "args": {"step_size": 2, "gamma": 0.5}, "freq": 1},
              "StepLR/f2": {"cls": "StepLR", "args": {"step_size": 1, "gamma": 0.5}, "freq": 2},
              "ExpLR/f3": {"cls": "ExponentialLR", "args": {"gamma": 0.6}, "freq": 3}}
RUN_NAMES = ["w", "fcn_lr0.01", "v1.2", "run-3_b", "a.b.c", "net-2.0.1"]


def warmup():
    from .. import c07_harness, c07_refloop  # noqa: F401  (imports pytorch_lightning before any watchdog is armed)


# ---------------------------------------------------------------------------------------------
# configurations -> world specs
# ---------------------------------------------------------------------------------------------

def all_configs():
    return [{"model": m, "feat": f, "opt": o, "sched": s} for m in MODELS for f in FEATS for o in OPTS for s in SCHEDS]


def cfg_name(c):
    return "%s/%s/%s/%s" % (c["model"], c["feat"], c["opt"], c["sched"] or "-")


def world_spec(cfg, seed):
    st = lambda where, n: {"where": where, "n": n, "static": True}
    feat = cfg["feat"]
    params = []
    if feat == "plain":
        conds = [{"kind": "pinn", "model": 0, "res": "r_heat", "weight": 2.0, "sampler": st("inner", [3, 3])},
                 {"kind": "pinn", "model": 0, "res": "r_dirichlet", "weight": 0.5, "sampler": st("xbound", [2, 3])}]
    elif feat == "param":
        params = [{"name": "D", "init": [0.7]}]
        conds = [{"kind": "pinn", "model": 0, "res": "r_heat_D", "param": 0, "weight": 2.0, "sampler": st("inner", [3, 3])},
                 {"kind": "pinn", "model": 0, "res": "r_source", "weight": 0.5, "sampler": st("xbound", [2, 3])}]
    elif feat == "twonets":
        # two separate networks, one per condition (equal inner names train_conditions.<i>.module.* for different objects)
        conds = [{"kind": "pinn", "model": 0, "res": "r_heat", "weight": 2.0, "sampler": st("inner", [3, 3])},
                 {"kind": "pinn", "model": 1, "res": "r_source", "weight": 0.5, "sampler": st("xbound", [2, 3])}]
    elif feat == "adaptive":
        conds = [{"kind": "adaptive", "model": 0, "res": "r_source", "weight": 1.5, "sampler": st("inner", [3, 3])},
                 {"kind": "pinn", "model": 0, "res": "r_lap", "weight": 0.5, "sampler": st("inner", [2, 3])}]
    else:
        params = [{"name": "D", "init": [0.7]}, {"name": "k", "init": [1.2, 0.4]}]
        conds = [{"kind": "pinn", "model": 0, "res": "r_lap_D", "param": 0, "weight": 2.0, "sampler": st("inner", [3, 3])},
                 {"kind": "adaptive", "model": 0, "res": "r_adv_k", "param": 1, "weight": 1.5, "sampler": st("inner", [3, 2])},
                 {"kind": "param", "param": 1, "weight": 0.3, "target": 1.0},
                 {"kind": "periodic", "model": 0, "res": "p_left_right_D", "param": 0, "weight": 0.7,
                  "sampler": {"n": [1, 3], "static": True}}]
    opt = {"SGDm": {"cls": "SGD", "lr": 0.002, "args": {"momentum": 0.9}},
           "Adam": {"cls": "Adam", "lr": 0.01, "args": {}},
           "RMSprop": {"cls": "RMSprop", "lr": 0.003, "args": {"momentum": 0.5}},
           # several closure evaluations (and on_before_optimizer_step calls) per training step
           "LBFGS": {"cls": "LBFGS", "lr": 0.5, "args": {"max_iter": 4}}}[cfg["opt"]]
    opt = dict(opt)
    if cfg["sched"]:
        opt["sched"] = {k: (dict(v) if isinstance(v, dict) else v) for k, v in SCHED_SPEC[cfg["sched"]].items()}
    hidden = [5, 4] if cfg["model"] == "FCN" else [4]
    models = [{"kind": cfg["model"], "hidden": hidden}]
    if feat == "twonets":
        models.append({"kind": cfg["model"], "hidden": hidden[::-1]})
    return {"seed": int(seed), "models": models, "params": params, "conds": conds,
            "vals": [], "opt": opt, "trainer": {}}


_STABLE = {}


def stable_world_spec(cfg, seed, counters=None):
    """The world of a case: world_spec(cfg, seed + d) for the smallest d in 0..7 whose training stays finite and bounded
    for 10 steps.  Screened with the plain reference loop (no oracle role here): a diverging problem cannot be judged."""
    from .. import c07_refloop as R
    key = (cfg_name(cfg), int(seed))
    if key not in _STABLE:
        for d in range(8):
            spec = world_spec(cfg, int(seed) + d)
            ref = R.run(spec, 10)
            mx = max(float(t.abs().max()) for st in ref["traj"] for t in st)
            if mx == mx and mx < 1e3:
                _STABLE[key] = d
                break
        else:
            raise Inconclusive("no stable world within 8 seeds for %s" % (key,))
    d = _STABLE[key]
    if counters is not None and d:
        counters["world_seed_shifted_for_stability"] = 1
    return world_spec(cfg, int(seed) + d)


def gen_cases(seed, tier):
    if tier == "quick":
        chosen = []
        for i in range(10):
            m, f = MODELS[i % 2], FEATS[(i // 2) % 5]
            o = OPTS[(i + seed) % 3]
            s = SCHEDS[(i // 2 + i + seed) % 4]           # every scheduler level twice
            chosen.append({"model": m, "feat": f, "opt": o, "sched": s})
        n_base, ws_n = [3, 4, 5], [4]
    else:
        chosen = []
        i = 0
        for m in MODELS:
            for f in FEATS:
                for o in OPTS:
                    for h in range(2):                   # 2 of the 4 scheduler levels per combination
                        chosen.append({"model": m, "feat": f, "opt": o, "sched": SCHEDS[(i + 2 * h + (i // 4) + seed) % 4]})
                    i += 1
        n_base, ws_n = list(range(3, 11)), [3, 6, 9]
    # LBFGS (several closure evaluations per step): weight-file cases only
    for i in range(2 if tier == "quick" else 8):
        chosen.append({"model": MODELS[(i + seed) % 2], "feat": FEATS[(i + seed // 2) % 5], "opt": "LBFGS", "sched": None, "ws_only": True})
    rng = np.random.default_rng([seed, 19])
    cases = []
    for ci, cfg in enumerate(chosen):
        wseed = int(rng.integers(0, 2**31 - 1))
        freq = SCHED_SPEC[cfg["sched"]]["freq"] if cfg["sched"] else 1
        n_list = sorted(set(n_base) | ({2 * freq + 3} if freq > 1 else set()))   # a decay before and after every crash
        for N in ([] if cfg.get("ws_only") else n_list):
            for c in (1, 2, 3):
                cases.append({"kind": "crash", "cfg": cfg, "N": N, "c": c, "seed": wseed})
        j = 0
        for N in ws_n:
            for c in (1, 2, 3):
                for init in (False, True):
                    for final in (False, True):
                        target = ["model", "cond", "solver"][(j + ci) % 3]
                        name = RUN_NAMES[(j + ci + seed) % len(RUN_NAMES)]
                        j += 1
                        cases.append({"kind": "wsave", "cfg": cfg, "N": N, "c": c, "init": init, "final": final,
                                      "target": target, "name": name, "seed": wseed})
                        if j % 4 == 1:
                            cases[-1]["precision"] = "64-true"
                        if j % 3 == 2:
                            cases[-1]["stale_files"] = True
    return cases


# ---------------------------------------------------------------------------------------------
# helpers
# ---------------------------------------------------------------------------------------------

TOL = 1e-7


def _close(a, b):
    if a.shape != b.shape:
        return float("inf"), False
    if a.numel() == 0:
        return 0.0, True
    d = (a.double() - b.double()).abs()
    d = torch.where(torch.isnan(d), torch.full_like(d, float("inf")), d)
    lim = TOL + TOL * a.double().abs()
    return float(d.max()), bool((d <= lim).all())


def _cmp_states(names, want, got):
    """-> (n compared, first offending (name, diff) or None)"""
    if len(want) != len(got):
        return 0, ("<number of tensors>", float("inf"))
    n = 0
    for nm, a, b in zip(names, want, got):
        d, ok = _close(a, b)
        n += 1
        if not ok:
            return n, (nm, d)
    return n, None


def _cmp_opt(names, want, got):
    n = 0
    if want is None or got is None:
        return 0, ("<optimizer missing>", float("inf"))
    for nm, a, b in zip(names, want, got):
        if set(a) != set(b):
            return n, ("%s: state keys %s vs %s" % (nm, sorted(b), sorted(a)), float("inf"))
        for k in a:
            x, y = a[k], b[k]
            n += 1
            if isinstance(x, torch.Tensor):
                if not isinstance(y, torch.Tensor):
                    return n, ("%s[%s]" % (nm, k), float("inf"))
                d, ok = _close(x, y)
            elif x is None or y is None:
                d, ok = 0.0, x is y
            else:
                d = abs(x - y)
                ok = d <= TOL + TOL * abs(x)
            if not ok:
                return n, ("%s[%s]" % (nm, k), d)
    return n, None


def _tensors_in(obj, out, depth=0):
    if isinstance(obj, torch.Tensor):
        out.append(obj)
    elif isinstance(obj, dict) and depth < 8:
        for v in obj.values():
            _tensors_in(v, out, depth + 1)
    elif isinstance(obj, (list, tuple)) and depth < 8:
        for v in obj:
            _tensors_in(v, out, depth + 1)


def _what(path):
    if "adaptive_layer" in path:
        return "adaptive_weights"
    if path.endswith("_params") or ".parameter." in path:
        return "inverse_parameter"
    return "network"


# ---------------------------------------------------------------------------------------------
# crash enumeration
# ---------------------------------------------------------------------------------------------

def _crash_case(case, res, tmp):
    from .. import c07_harness as H
    import torchphysics as tp
    cfg, N, c = case["cfg"], case["N"], case["c"]
    V, C = res["viol"], res["counters"]
    spec = stable_world_spec(cfg, case["seed"], C)
    mech = {"callback": "TrainerStateCheckpoint", "feat": cfg["feat"], "opt": cfg["opt"], "sched": cfg["sched"],
            "model": cfg["model"]}

    try:
        full = H.run_real(spec, N)
    except Exception as e:
        V.append(viol("exception", "uninterrupted run raised %r" % (e,), site=exc_site(e), phase="uninterrupted",
                      exc=type(e).__name__, **mech))
        return
    C["fits"] = C.get("fits", 0) + 1
    if case.get("selfcheck", True):
        again = H.run_real(spec, N)
        C["fits"] += 1
        if H.maxdiff(full.final, again.final) != 0.0:
            raise Inconclusive("two uninterrupted runs of the same spec differ: training is not deterministic")
    names = full.names
    if full.global_step != N or len(full.rec.end_states) != N:
        raise Inconclusive("uninterrupted run stopped at step %d instead of %d" % (full.global_step, N))
    moved = H.maxdiff(full.final, full.theta0)
    if not all(bool(torch.isfinite(t).all()) for t in full.final):
        raise Inconclusive("uninterrupted run diverged (non-finite learnable state)")
    if not moved > 0:
        raise Inconclusive("uninterrupted run did not move the learnable state")
    done = 0
    for k in range(1, N):
        d = os.path.join(tmp, "k%d" % k)
        os.makedirs(d)
        ck = os.path.join(d, "ck.ckpt")

        def cbs(world, solver, d=d):
            return [tp.utils.TrainerStateCheckpoint(d, "ck", check_interval=c)]

        # ---- crashed run
        try:
            cr = H.run_real(spec, N, lib_callbacks=cbs, crash_at=k, watch={"ckpt": ck})
        except Exception as e:
            V.append(viol("exception", "k=%d N=%d c=%d: run with TrainerStateCheckpoint raised %r" % (k, N, c, e),
                          site=exc_site(e), phase="checkpointing", exc=type(e).__name__, **mech))
            continue
        C["fits"] += 1
        C["crashes_injected"] = C.get("crashes_injected", 0) + 1
        if not cr.rec.crashed or cr.global_step != k:
            raise Inconclusive("crash injection failed: crashed=%s global_step=%d k=%d" % (cr.rec.crashed, cr.global_step, k))
        # writing checkpoints must not perturb training
        for s_ in range(1, k + 1):
            n_, bad = _cmp_states(names, full.rec.end_states[s_], cr.rec.end_states.get(s_, []))
            res["judged"] += n_
            if bad:
                V.append(viol("checkpointing_perturbs_training", "k=%d N=%d c=%d: with the checkpoint callback installed "
                              "%s differs after step %d by %.3g from the run without it" % (k, N, c, bad[0], s_, bad[1]),
                              what=_what(bad[0]), **mech))
                break
        copies = [x for x in cr.rec.copies if x[0] == "ckpt"]
        C["checkpoint_files_written"] = C.get("checkpoint_files_written", 0) + len(copies)
        if not os.path.exists(ck) or not copies:
            if k >= c:
                V.append(viol("no_checkpoint", "k=%d N=%d c=%d: no checkpoint file on disk after %d steps although "
                              "checkpoints are documented every %d steps" % (k, N, c, k, c), **mech))
            else:
                C["crash_before_first_checkpoint"] = C.get("crash_before_first_checkpoint", 0) + 1
            continue
        label, cp_path, hook, j, state_j = copies[-1]
        C["hook_" + hook] = C.get("hook_" + hook, 0) + 1
        # ---- completeness of every checkpoint written in this run
        for (_, pth, hk, gs, st) in copies:
            try:
                blob = torch.load(pth, map_location="cpu", weights_only=False)
            except Exception as e:
                V.append(viol("checkpoint_unreadable", "k=%d N=%d c=%d: checkpoint written at step %d cannot be read: %r"
                              % (k, N, c, gs, e), exc=type(e).__name__, **mech))
                break
            ts = []
            _tensors_in(blob.get("state_dict", blob) if isinstance(blob, dict) else blob, ts)
            miss = None
            for nm, t in zip(names, st):
                res["judged"] += 1
                if not any(x.shape == t.shape and torch.equal(x.detach().cpu(), t) for x in ts):
                    miss = nm
                    break
            C["checkpoint_completeness_checks"] = C.get("checkpoint_completeness_checks", 0) + 1
            if miss:
                V.append(viol("learnable_not_in_checkpoint", "k=%d N=%d c=%d: checkpoint written at step %d (%s) does not "
                              "contain the learnable tensor %s with its current value -- it cannot be restored on resume"
                              % (k, N, c, gs, hk, miss), what=_what(miss), **mech))
                break
        # ---- resume from the file on disk in a fresh world
        try:
            rs = H.run_real(spec, N, ckpt_path=ck)
        except Exception as e:
            V.append(viol("exception", "k=%d N=%d c=%d: resuming from the checkpoint written at step %d raised %r"
                          % (k, N, c, j, e), site=exc_site(e), phase="resume", exc=type(e).__name__, **mech))
            continue
        C["fits"] += 1
        C["resumes"] = C.get("resumes", 0) + 1
        C["resumed_steps_trained"] = C.get("resumed_steps_trained", 0) + len(rs.rec.end_states)
        w = dict(stage=None, **mech)
        if rs.global_step != N:
            V.append(viol("resume_step_count", "k=%d N=%d c=%d: resumed run (checkpoint of step %d) stopped at "
                          "global_step %d" % (k, N, c, j, rs.global_step), **mech))
        # state right after restoring == state when the file was written
        if rs.rec.start_states:
            g0 = min(rs.rec.start_states)
            n_, bad = _cmp_states(names, state_j, rs.rec.start_states[g0])
            res["judged"] += n_
            if bad:
                w["stage"] = "restored"
                V.append(viol("resume_state_differs", "k=%d N=%d c=%d: after restoring the checkpoint of step %d, %s "
                              "differs from its value when the file was written by %.3g" % (k, N, c, j, bad[0], bad[1]),
                              what=_what(bad[0]), **w))
        # trajectory and final state == uninterrupted
        bad_final = None
        for s_ in sorted(rs.rec.end_states):
            if s_ in full.rec.end_states:
                n_, bad = _cmp_states(names, full.rec.end_states[s_], rs.rec.end_states[s_])
                res["judged"] += n_
                if bad and bad_final is None:
                    bad_final = (s_,) + bad
        n_, bad = _cmp_states(names, full.final, rs.final)
        res["judged"] += n_
        if bad and bad_final is None:
            bad_final = (N,) + bad
        if bad_final:
            w["stage"] = "after_training"
            V.append(viol("resume_state_differs", "k=%d N=%d c=%d: resumed from the checkpoint of step %d; after step %d "
                          "%s differs from the uninterrupted run by %.3g (uninterrupted run moved %.3g)"
                          % (k, N, c, j, bad_final[0], bad_final[1], bad_final[2], moved), what=_what(bad_final[1]), **w))
        n_, bad = _cmp_opt(names, full.opt_state, rs.opt_state)
        res["judged"] += n_
        if bad:
            V.append(viol("resume_optimizer_state_differs", "k=%d N=%d c=%d: resumed from step %d; optimizer state %s "
                          "differs from the uninterrupted run by %.3g after step %d" % (k, N, c, j, bad[0], bad[1], N),
                          **mech))
        res["judged"] += 1
        if rs.lrs is None or len(rs.lrs) != len(full.lrs) or any(abs(a - b) > 1e-12 for a, b in zip(full.lrs, rs.lrs)):
            V.append(viol("resume_learning_rate_differs", "k=%d N=%d c=%d: resumed from step %d; learning rates %s vs "
                          "uninterrupted %s" % (k, N, c, j, rs.lrs, full.lrs), **mech))
        if cfg["sched"]:
            res["judged"] += 1
            if rs.sched_last_epoch != full.sched_last_epoch:
                V.append(viol("resume_scheduler_differs", "k=%d N=%d c=%d: resumed from step %d; scheduler counter %s vs "
                              "uninterrupted %s" % (k, N, c, j, rs.sched_last_epoch, full.sched_last_epoch), **mech))
        done += 1
        shutil.rmtree(d, ignore_errors=True)
    C["interruption_points"] = N - 1
    C["interruption_points_resumed"] = done
    res["nontrivial"] = done == N - 1


# ---------------------------------------------------------------------------------------------
# WeightSaveCallback
# ---------------------------------------------------------------------------------------------

def _target(kind):
    def pick(world, solver):
        if kind == "model":
            return world.models[0]
        if kind == "cond":
            return world.train[0]
        return solver
    return pick


def _sd_equal(a, b):
    if set(a) != set(b):
        return "keys differ: %s" % sorted(set(a) ^ set(b))[:4]
    for k in a:
        if a[k].shape != b[k].shape or not torch.equal(a[k].double(), b[k].double()):
            d = float((a[k].double() - b[k].double()).abs().max()) if a[k].shape == b[k].shape and a[k].numel() else float("inf")
            return "%s differs by %.3g" % (k, d)
    return None


def _wsave_case(case, res, tmp):
    from .. import c07_harness as H, c07_world as W
    import torchphysics as tp
    cfg, N, c = case["cfg"], case["N"], case["c"]
    V, C = res["viol"], res["counters"]
    spec = stable_world_spec(cfg, case["seed"], C)
    if case.get("precision"):
        # the Trainer converts the modules when the fit starts (after the callback was constructed)
        spec = dict(spec, trainer=dict(spec.get("trainer", {}), precision=case["precision"]))
    mech = {"callback": "WeightSaveCallback", "feat": cfg["feat"], "opt": cfg["opt"], "model": cfg["model"],
            "saved": case["target"], "precision": case.get("precision", "32")}
    pick = _target(case["target"])
    name = case.get("name", "w")
    mech["name_class"] = ("dots" if name.count(".") > 1 else "dot" if "." in name else "plain") + ("+dash" if "-" in name else "")
    files = {s: os.path.join(tmp, "%s_%s.pt" % (name, s)) for s in ("init", "min_loss", "final")}

    if case.get("stale_files"):
        # an earlier, unrelated training left its three files under the same name in the same folder
        w0 = W.build(spec)
        s0 = tp.solver.Solver(w0.train, w0.val, optimizer_setting=H.optimizer_setting(spec))
        old_sd = {k: v.detach().clone() + 1.0 for k, v in pick(w0, s0).state_dict().items()}
        for label, f in files.items():
            # only the files this run has to write again (a file it does not write legitimately stays what it was)
            if (label == "init" and case["init"]) or (label == "final" and case["final"]) or (label == "min_loss" and N >= c + 2):
                torch.save(old_sd, f)
        mech["stale_files"] = True

    def cbs(world, solver):
        return [tp.utils.WeightSaveCallback(pick(world, solver), tmp, name, check_interval=c,
                                            save_initial_model=case["init"], save_final_model=case["final"])]
    try:
        run = H.run_real(spec, N, lib_callbacks=cbs, watch=files, probe=pick)
    except Exception as e:
        V.append(viol("exception", "N=%d c=%d init=%s final=%s: training with WeightSaveCallback raised %r"
                      % (N, c, case["init"], case["final"], e), site=exc_site(e), phase="saving", exc=type(e).__name__,
                      **mech))
        return
    C["fits"] = 1
    if run.global_step != N:
        raise Inconclusive("run stopped at %d instead of %d" % (run.global_step, N))
    if not all(bool(torch.isfinite(t).all()) for t in run.probe_after.values()):
        raise Inconclusive("training diverged (non-finite state of the saved module)")
    if _sd_equal(run.probe_before, run.probe_after) is None:
        raise Inconclusive("training did not change the saved module")

    def fresh_loaded(path):
        w2 = W.build(spec)
        solver2 = tp.solver.Solver(w2.train, w2.val, optimizer_setting=H.optimizer_setting(spec))
        tgt = pick(w2, solver2)
        if case.get("precision") == "64-true":
            tgt.double()
        blob = torch.load(path, map_location="cpu")
        tgt.load_state_dict(blob)
        return {k: v.detach().clone() for k, v in tgt.state_dict().items()}

    # exactly the documented files may appear in the callback's directory
    documented = {os.path.basename(f) for f in files.values()}
    extra = sorted(f for f in os.listdir(tmp) if f not in documented and not f.endswith(".copy"))
    res["judged"] += 1
    C["directory_listings_judged"] = 1
    C["run_name_" + mech["name_class"]] = 1
    if extra:
        V.append(viol("undocumented_file", "N=%d c=%d name=%r: the callback wrote %s; documented are <name>_init.pt / "
                      "<name>_min_loss.pt / <name>_final.pt, present: %s" % (N, c, name, extra, sorted(
                          f for f in os.listdir(tmp) if f in documented)), **mech))
    boundaries = [(hk, gs, sd) for hk, gs, sd in run.rec.probe_states if hk in ("batch_end", "batch_start", "train_end") and gs >= 1]
    judged_files = 0
    versions = {}
    for label, cp, hook, gs, _ in run.rec.copies:
        versions.setdefault(label, []).append((cp, hook, gs))
    for label in ("init", "min_loss", "final"):
        want = {"init": case["init"], "final": case["final"], "min_loss": None}[label]
        present = os.path.exists(files[label])
        C["files_" + label] = int(present)
        if want and not present:
            V.append(viol("file_missing", "N=%d c=%d: save_%s_model=True but %s was not written"
                          % (N, c, "initial" if label == "init" else "final", os.path.basename(files[label])),
                          file="_" + label, **mech))
            continue
        if not present:
            continue
        todo = [(files[label], "final content", N)] + [(cp, "version written at %s of step %d" % (hk, gs), gs)
                                                       for cp, hk, gs in versions.get(label, [])]
        for path, descr, gs_w in todo:
            try:
                got = fresh_loaded(path)
            except Exception as e:
                V.append(viol("file_does_not_load", "N=%d c=%d: %s (%s) does not load into a freshly built identical "
                              "%s: %r" % (N, c, os.path.basename(files[label]), descr, case["target"], e),
                              file="_" + label, exc=type(e).__name__, **mech))
                break
            judged_files += 1
            res["judged"] += len(got)
            if label == "init":
                bad = _sd_equal(run.probe_before, got)
                if bad:
                    V.append(viol("init_file_differs", "N=%d c=%d: _init file (%s) is not the module before training: %s"
                                  % (N, c, descr, bad), file="_init", **mech))
                    break
            elif label == "final":
                if descr != "final content":
                    continue
                bad = _sd_equal(run.probe_after, got)
                if bad:
                    V.append(viol("final_file_differs", "N=%d c=%d: _final file is not the module after training: %s"
                                  % (N, c, bad), file="_final", **mech))
                    break
            else:
                cand = [(hk, gs) for hk, gs, sd in boundaries if gs <= gs_w and _sd_equal(sd, got) is None]
                C["min_loss_versions_judged"] = C.get("min_loss_versions_judged", 0) + 1
                if not cand:
                    near = ""
                    if _sd_equal(run.probe_before, got) is None:
                        near = " (it equals the module BEFORE training)"
                    V.append(viol("min_loss_file_is_no_step_state", "N=%d c=%d: _min_loss file (%s) equals the module "
                                  "state at none of the step boundaries 1..%d%s" % (N, c, descr, gs_w, near),
                                  file="_min_loss", **mech))
                    break
                else:
                    C["min_loss_matches_step_%d" % cand[0][1]] = C.get("min_loss_matches_step_%d" % cand[0][1], 0) + 1
    C["weight_files_judged"] = judged_files
    expect_min = N >= c + 2
    res["nontrivial"] = (judged_files > 0 and (not expect_min or C.get("files_min_loss", 0) == 1))
    if expect_min and not C.get("files_min_loss"):
        C["min_loss_file_absent"] = 1


# ---------------------------------------------------------------------------------------------

def run_case(case):
    cfg = case["cfg"]
    if case["kind"] == "crash":
        cls = "crash|%s|N%d|c%d" % (cfg_name(cfg), case["N"], case["c"])
    else:
        cls = "wsave%s|%s|c%d|i%d f%d|%s|%s" % ("64" if case.get("precision") else "", cfg_name(cfg), case["c"], case["init"], case["final"], case["target"],
                                              case.get("name", "w"))
    res = {"cls": cls, "judged": 0, "nontrivial": False, "viol": [], "counters": {}}
    os.makedirs(TMP_ROOT, exist_ok=True)
    tmp = tempfile.mkdtemp(prefix="c19-", dir=TMP_ROOT)
    try:
        if case["kind"] == "crash":
            _crash_case(case, res, tmp)
        else:
            _wsave_case(case, res, tmp)
    finally:
        shutil.rmtree(tmp, ignore_errors=True)
    res["counters"]["cases_" + case["kind"]] = 1
    return res


def extra_coverage(results):
    pts = sum(r.get("counters", {}).get("interruption_points", 0) for r in results)
    done = sum(r.get("counters", {}).get("interruption_points_resumed", 0) for r in results)
    return {"exhaustive_space": "(k, N, c) per configuration: every k in 1..N-1 for every generated (N, c)",
            "interruption_points_enumerated": pts, "interruption_points_resumed_and_compared": done}


def sample_of(case, r):
    return {"case": {k: v for k, v in case.items() if k != "cid"}, "class": r.get("cls"),
            "comparisons": r.get("judged"), "counters": r.get("counters"), "status": r.get("status")}
