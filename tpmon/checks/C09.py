"""C09 -- DeepONet output is the branch-trunk inner product; the shared-trunk-input fast path is
observationally equivalent to the plain network.

Two kinds of cases around the real `DeepONet.forward` / `BranchNet.fix_input` / `linear.forward|backward`:

  twin   (float64) two DeepONets from the same spec and seed, one with trunk_input_copied=True (custom autograd
         function `linear`), one plain, plain.load_state_dict(fast.state_dict()); trunk input truly copied along
         the first axis (and the 2-D form).  Compared for several requires_grad patterns: output, d out/d x,
         Laplacian (second derivatives through the custom backward), d loss/d theta for
         loss = sum out^2 + sum (d out/dx)^2 + sum (Laplacian)^2.  Both nets are also compared with the monitor's own
         evaluation of the inner product from the weights, with the einsum of the sub-nets' own outputs, and
         re-evaluated on sub-batches of functions / locations and with the other functions replaced.
  history (float32) one DeepONet object and 3-6 operations from {fix_branch_input(obj)+forward under no_grad | with
         grad | forward(trunk, obj), load_state_dict(other weights), one SGD step, _forward_branch(function set)+forward};
         the SAME input objects (callable, tensor, Points, FunctionSet) are reused across steps; after every forward the
         output must be the monitor's own inner product for the current weights and the current input, with its shape.
  forms  (float32) one DeepONet; the same branch functions supplied as FunctionSet / tensor / Points (3-D batch and
         2-D single function) / callable, through fix_branch_input and through forward(trunk, branch); two different
         function batches alternate so that a stale cached branch output is visible.  Every output is compared with
         the monitor's own evaluation.
"""
import math

import numpy as np
import torch

from ..core import viol, exc_site, Inconclusive
from .. import c09_nets as N

LEVEL = "exploration"
RULE = ("seeded generator over trunk space (1-3 variables, total dim 1-5, declared and permuted presentation) x trunk "
        "depth 1-4/width 1-32 (square and ragged)/7 activations incl. adaptive x optional Sequential(NormalizationLayer, "
        "trunk) x FCBranchNet | ConvBranchNet1D (1-2 conv layers, kernel 1/3/5) x function output dim 1-2 x 2-12 "
        "discretisation points x output space of 1-2 variables with total dim 1-3 x 1-12 neurons per component x 1-6 "
        "functions x 1-40 locations x trunk input rank 2|3 x 6 requires_grad patterns (incl. biases only).  A case is non-trivial when the "
        "deciding comparison of its kind was made (twin: derivatives and parameter gradients of both nets; forms: at "
        "least three input forms); distinct = (kind, branch type, output dim, K class, #functions class, trunk rank, "
        "normalisation, grouped flags); history cases: (branch type, output dim, trunk rank, fast|plain, operation pattern).")
RULE += '; every training step of the history workload evaluates a second function set of the same size in the same iteration'
REQUIRED_REACH = ["DeepONet._forward_branch", "FunctionSetCollection.create_function_batch", "linear.forward", "linear.backward", "TrunkLinear.forward", "TrunkNet._reshape_multidimensional_output",
                  "BranchNet._reshape_multidimensional_output", "BranchNet.fix_input", "DeepONet.forward",
                  "DeepONet.fix_branch_input", "FCTrunkNet.forward", "FCBranchNet.forward", "ConvBranchNet1D.forward",
                  "BranchNet._discretize_function_set", "FunctionSet.create_function_batch",
                  "FunctionSet._create_meshgrid", "CustomFunctionSet._evaluate_function", "Model._fix_points_order"]
MIN_NONTRIVIAL = 30
ASSUMPTIONS = [
    "twin cases in float64 (both nets .double()); equalities judged with 1e-10 relative to max(1, |reference|) per "
    "compared quantity (observed <= 1e-13)",
    "trunk inputs of the fast path are exact copies along the first axis (documented precondition of "
    "trunk_input_copied=True) or 2-D",
    "forms cases in float32; batch forms that hand over the same bits (tensor / Points) are judged with 1e-5; "
    "forms in which the library evaluates the function itself (callable, FunctionSet), single functions evaluated alone "
    "(other BLAS kernels, observed 2e-6) and agreement with the monitor's own float64 "
    "evaluation of the same float32 weights with 1e-4, all relative to max(1, |out|)",
    "neuron c*K+k belongs to output component c (the documented reshape to (.., output_dim, neurons)); a grouping "
    "k*dim+c used consistently by trunk and branch would also be accepted and is counted",
    "the flattening of the discretised branch input (point-major, channel-minor) and of the convolution output is "
    "the library's layout and is reproduced by the reference",
    "discretisation points come from a static GridSampler on an interval; the monitor reads them from the sampler",
]
CASE_TIMEOUT = 180

MODES = ["full", "theta_only", "x_only", "weights_only", "first_layer_frozen", "biases_only"]


# ---------------------------------------------------------------------------------------------
# workload
# ---------------------------------------------------------------------------------------------

def gen_cases(seed, tier):
    rng = np.random.default_rng([seed, 9])
    n_twin, n_forms = (300, 260) if tier == "quick" else (15000, 12000)
    cases = []
    for i in range(n_twin + n_forms):
        kind = "twin" if i < n_twin else "forms"
        big = tier != "quick" and rng.random() < 0.3
        s = N.gen_spec(rng, big)
        F = int(rng.choice([1, 2, 3, 4, 5, 6], p=[0.15, 0.25, 0.2, 0.15, 0.15, 0.1]))
        c = {"kind": kind, "spec": s, "F": F, "n_loc": int(rng.choice([1, 2, int(rng.integers(3, 12)),
                                                                       int(rng.integers(12, 41))])),
             "rank": int(rng.choice([3, 2], p=[0.7, 0.3])), "permute": bool(rng.random() < 0.3),
             "params_a": N.gen_params(rng, F), "params_b": N.gen_params(rng, F),
             "seed": int(rng.integers(0, 2 ** 31))}
        if kind == "forms":
            c["fast"] = bool(rng.random() < 0.6)
        cases.append(c)
    # multi-step histories on ONE DeepONet object (appended, so the streams above do not change)
    n_hist = 200 if tier == "quick" else 6000
    for i in range(n_hist):
        big = tier != "quick" and rng.random() < 0.3
        s = N.gen_spec(rng, big)
        F = int(rng.choice([1, 2, 3, 4, 5], p=[0.1, 0.3, 0.25, 0.2, 0.15]))
        objs = [str(o) for o in rng.choice(HIST_OBJECTS, size=int(rng.integers(2, 4)), replace=False)]
        if "functionset" not in objs and rng.random() < 0.6:
            objs.append("functionset")
        c = {"kind": "history", "spec": s, "F": F, "n_loc": int(rng.choice([1, 2, int(rng.integers(3, 12))])),
             "rank": int(rng.choice([3, 2], p=[0.6, 0.4])), "permute": bool(rng.random() < 0.3),
             "params_a": N.gen_params(rng, F), "params_b": N.gen_params(rng, F), "fast": bool(rng.random() < 0.6),
             "objects": objs, "ops": _gen_history(rng, objs), "seed": int(rng.integers(0, 2 ** 31))}
        cases.append(c)
    return cases


HIST_OBJECTS = ["callable", "tensor3d", "tensor2d", "points3d", "points2d", "functionset"]


def _gen_history(rng, objs):
    """3-6 operations; input objects are reused across steps.  Most histories contain a 'sandwich'
    evaluate(obj) -> something that changes the weights or the cached branch output -> evaluate(same obj)."""
    def ev(obj, grad=None):
        return {"op": "eval", "obj": obj, "grad": bool(rng.random() < 0.3) if grad is None else grad,
                "via_forward": bool(rng.random() < 0.4)}

    def change():
        k = str(rng.choice(["load", "sgd", "train"] if "functionset" in objs else ["load", "sgd"]))
        if k == "load":
            return {"op": "load", "which": int(rng.integers(0, 2))}
        if k == "sgd":
            return {"op": "sgd", "obj": str(rng.choice(objs))}
        return {"op": "train"}
    n = int(rng.integers(3, 7))
    ops = []
    if rng.random() < 0.85:
        o = str(rng.choice(objs))
        ops = [ev(o, grad=bool(rng.random() < 0.15)), change()]
        if rng.random() < 0.3 and n >= 4:
            ops.append(change())
        ops.append(ev(o, grad=bool(rng.random() < 0.15)))
    while len(ops) < n:
        ops.append(ev(str(rng.choice(objs))) if rng.random() < 0.55 else change())
    if ops[-1]["op"] == "load":
        ops.append(ev(str(rng.choice(objs))))
    return ops


def _cls(c):
    s = c["spec"]
    K = s["K"]
    if c["kind"] == "history":
        pat = "".join({"eval": "e", "load": "L", "sgd": "S", "train": "T"}[o["op"]] + ("g" if o.get("grad") else "")
                      for o in c["ops"])
        return "history/%s/o%d/r%d/f%d/%s" % (s["branch"], N.out_dim(s), c["rank"], c["fast"], pat)
    return "%s/%s/o%d/K%s/F%s/r%d/n%d/p%d%s" % (c["kind"], s["branch"], N.out_dim(s), "1" if K == 1 else ("s" if K <= 4 else "l"),
                                                "1" if c["F"] == 1 else "m", c["rank"], 1 if s["norm"] else 0,
                                                int(c["permute"]), "" if c["kind"] == "twin" else "/f%d" % c["fast"])


# ---------------------------------------------------------------------------------------------
# shared pieces
# ---------------------------------------------------------------------------------------------

class _Ctx:
    def __init__(self, c, res):
        self.c, self.res, self.s = c, res, c["spec"]
        self.mech = {"case": c["kind"], "branch": self.s["branch"], "out_dim": N.out_dim(self.s), "rank": c["rank"],
                     "norm": bool(self.s["norm"])}

    def count(self, k, n=1):
        self.res["counters"][k] = self.res["counters"].get(k, 0) + n

    def violate(self, kind, msg, **kw):
        m = dict(self.mech)
        m.update(kw)
        self.res["viol"].append(viol(kind, msg, **m))

    def judge(self, what, got, want, tol, kind, **kw):
        """max-abs comparison relative to max(1,|want|); returns True when it held."""
        self.res["judged"] += 1
        self.count("compared_" + kw.get("quantity", "value"))
        if tuple(got.shape) != tuple(want.shape):
            self.violate(kind, "%s: shape %s, expected %s" % (what, tuple(got.shape), tuple(want.shape)), **kw)
            return False
        scale = max(1.0, float(want.abs().max())) if want.numel() else 1.0
        d = (got - want).abs()
        dm = float(d.max()) if d.numel() else 0.0
        if not (dm <= tol * scale):
            self.violate(kind, "%s: max |difference| %.3g (allowed %.3g, scale %.3g, shape %s)"
                         % (what, dm, tol * scale, scale, tuple(got.shape)), **kw)
            return False
        if dm / (tol * scale) > self.res.get("worst", 0.0):
            self.res["worst"] = dm / (tol * scale)
            self.res["worst_what"] = what[:160]
        return True


def _trunk_rows(c, g, dt):
    """Own location rows {var: (n_loc, dim)}; inside the normalisation domain where there is one."""
    s = c["spec"]
    rows = {}
    fac = {f["var"]: f for f in (s["norm"] or [])}
    for name, dim in s["trunk_space"]:
        u = torch.rand((c["n_loc"], dim), generator=g, dtype=torch.float64)
        f = fac.get(name)
        if f is None:
            x = u * 2 - 1
        elif f["d"] == "interval":
            x = f["a"] + u * (f["b"] - f["a"])
        elif f["d"] == "rect":
            x = torch.tensor(f["o"], dtype=torch.float64) + u * torch.tensor([f["w"], f["h"]], dtype=torch.float64)
        else:
            x = torch.tensor(f["c"], dtype=torch.float64) + (u * 2 - 1) * f["r"] / math.sqrt(2)
        rows[name] = x.to(dt)
    return rows


def _order(c):
    names = [n for n, _ in c["spec"]["trunk_space"]]
    if c["permute"] and len(names) > 1:
        return names[1:] + names[:1]
    return names


def _trunk_points(c, rows, F, rank, requires_grad):
    """Library Points of the locations: (F, n, d) exact copies along the first axis, or (n, d); variables in the
    presented order.  Returns (Points, leaf tensor)."""
    from torchphysics.problem.spaces import Points
    dims = dict((n, d) for n, d in c["spec"]["trunk_space"])
    order = _order(c)
    x = torch.cat([rows[v] for v in order], dim=-1)
    if rank == 3:
        x = x.unsqueeze(0).repeat(F, 1, 1)
    x = x.clone().requires_grad_(requires_grad)
    return Points(x, N.space_of([[v, dims[v]] for v in order])), x


def _declared(c, rows):
    return torch.cat([rows[n] for n, _ in c["spec"]["trunk_space"]], dim=-1)


def _disc_values(c, sampler, params, dt):
    """Own discretisation V[i, m, :] = f(s_m; k_i) at the sampler's points (read from the static sampler)."""
    spts = sampler.sample_points().as_tensor.detach()                      # (n_disc, 1) float32
    k = torch.tensor(params, dtype=spts.dtype)
    V = N.fn_family(k.unsqueeze(1), spts.unsqueeze(0), c["spec"]["fn_ch"])  # (F, n_disc, ch)
    return V.to(dt), spts


def _own_reference(ctx, net, rows, V):
    """Own float64 evaluation of out[i,j,c] from the state dict (weights upcast to float64)."""
    sd = {k: v.detach().to(torch.float64) for k, v in net.state_dict().items()}
    T = N.own_trunk_features(ctx.s, sd, _declared(ctx.c, rows).to(torch.float64))
    B = N.own_branch_features(ctx.s, sd, V.to(torch.float64))
    return N.own_output(ctx.s, T, B)


def _check_vs_own(ctx, what, out, ref, tol, **kw):
    blocks, strided = ref
    got = out.detach().to(torch.float64)
    if tuple(got.shape) == tuple(blocks.shape):
        scale = max(1.0, float(blocks.abs().max()))
        if float((got - blocks).abs().max()) > tol * scale and float((got - strided).abs().max()) <= tol * scale \
                and N.out_dim(ctx.s) > 1 and ctx.s["K"] > 1:
            ctx.count("alternative_consistent_feature_grouping")
            ctx.res["judged"] += 1
            return True
    return ctx.judge(what, got, blocks, tol, "not_inner_product", quantity="own_reference", **kw)


def _einsum_subnets(ctx, model, pts, out, tol, **kw):
    """out[i,j,c] == sum_k branch[i,c,k] * trunk[(i,)j,c,k] from the sub-nets' own outputs."""
    with torch.no_grad():
        t = model.trunk(pts)
    t = t if isinstance(t, torch.Tensor) else t.as_tensor
    b = model.branch.current_out.detach()
    ctx.count("trunk_output_rank_%d" % t.dim())
    dim = N.out_dim(ctx.s)
    try:
        if t.dim() == 4:
            if t.shape[0] == 1:
                ref = torch.einsum("ick,jck->ijc", b, t[0])
            else:
                ref = torch.einsum("ick,ijck->ijc", b, t)
        else:
            ref = torch.einsum("ick,jck->ijc", b, t.reshape(-1, dim, t.shape[-1]))
    except Exception as e:
        ctx.violate("subnet_shapes", "sub-net outputs cannot be contracted: trunk %s, branch %s (%r)"
                    % (tuple(t.shape), tuple(b.shape), e), quantity="einsum", **kw)
        return False
    return ctx.judge("DeepONet.forward vs einsum of the sub-nets' own outputs (trunk %s, branch %s)"
                     % (tuple(t.shape), tuple(b.shape)), out.detach(), ref, tol, "not_inner_product",
                     quantity="einsum", **kw)


def _lib(ctx, what, fn, **kw):
    """Runs a library call; an exception on these in-contract inputs is a violation."""
    try:
        return fn()
    except Inconclusive:
        raise
    except Exception as e:
        ctx.violate("exception", "%s raised %r" % (what, e), site=exc_site(e), exc=type(e).__name__, **kw)
        return None


# ---------------------------------------------------------------------------------------------
# twin cases
# ---------------------------------------------------------------------------------------------

def _set_mode(net, mode):
    names = []
    for k, p in net.named_parameters():
        req = True
        if mode == "x_only":
            req = False
        elif mode == "weights_only" and k.endswith("bias"):
            req = False
        elif mode == "biases_only" and not k.endswith("bias"):
            req = False             # bias-only fine-tuning: the gradient of a bias must not depend on its weight being trainable
        elif mode == "first_layer_frozen" and "trunk" in k and ".sequential.0." in k:
            req = False
        p.requires_grad_(req)
        if req:
            names.append(k)
    return names


def _evaluate(ctx, net, rows, V, mode, rank):
    """One differentiated evaluation. Returns dict of detached tensors."""
    c, s = ctx.c, ctx.s
    xgrad = mode in ("full", "x_only")
    pnames = _set_mode(net, mode)
    pts, X = _trunk_points(c, rows, c["F"], rank, xgrad)
    net.fix_branch_input(V)
    out = net(pts).as_tensor
    r = {"out": out.detach()}
    loss = (out ** 2).sum()
    if xgrad:
        G, L = [], []
        for comp in range(out.shape[-1]):
            g = torch.autograd.grad(out[..., comp].sum(), X, create_graph=True)[0]
            lap = torch.zeros_like(g[..., 0])
            for d in range(X.shape[-1]):
                gd = g[..., d].sum()
                if gd.requires_grad:
                    lap = lap + torch.autograd.grad(gd, X, create_graph=True)[0][..., d]
            G.append(g)
            L.append(lap)
            loss = loss + (g ** 2).sum() + (lap ** 2).sum()
        r["dx"] = torch.stack(G).detach()
        r["lap"] = torch.stack(L).detach()
    if pnames:
        params = dict(net.named_parameters())
        grads = torch.autograd.grad(loss, [params[k] for k in pnames], allow_unused=True)
        r["dtheta"] = {k: (g.detach() if g is not None else torch.zeros_like(params[k])) for k, g in zip(pnames, grads)}
    r["loss"] = loss.detach()
    return r


def _run_twin(ctx):
    c, s, res = ctx.c, ctx.s, ctx.res
    dt = torch.float64
    fast, fsp, sampler = N.build(s, True, c["seed"])
    plain, _, _ = N.build(s, False, c["seed"])
    plain.load_state_dict(fast.state_dict())
    fast.double()
    plain.double()
    g = torch.Generator().manual_seed(c["seed"] + 1)
    rng = np.random.default_rng(c["seed"])
    rows = _trunk_rows(c, g, dt)
    V, _ = _disc_values(c, sampler, c["params_a"], dt)
    own = _own_reference(ctx, fast, rows, V)
    F, n = c["F"], c["n_loc"]
    tol = 1e-10
    decided = 0
    modes = list(MODES)
    for mode in modes:
        ev = {}
        for tag, net in (("fast", fast), ("plain", plain)):
            ev[tag] = _lib(ctx, "%s net, mode %s, trunk rank %d" % (tag, mode, c["rank"]),
                           lambda net=net: _evaluate(ctx, net, rows, V, mode, c["rank"]), net=tag, mode=mode)
        if ev["fast"] is None or ev["plain"] is None:
            continue
        a, b = ev["fast"], ev["plain"]
        ctx.count("mode_" + mode)
        ok = ctx.judge("output fast vs plain (mode %s)" % mode, a["out"], b["out"], tol, "fast_path_differs",
                       quantity="out", mode=mode)
        if mode == modes[0]:
            for tag in ("fast", "plain"):
                _check_vs_own(ctx, "%s net output vs the monitor's own inner product" % tag, ev[tag]["out"], own, tol,
                              net=tag)
        if "dx" in a:
            ok &= ctx.judge("d out/d x fast vs plain (mode %s)" % mode, a["dx"], b["dx"], tol, "fast_path_differs",
                            quantity="dx", mode=mode)
            ok &= ctx.judge("Laplacian fast vs plain (mode %s)" % mode, a["lap"], b["lap"], tol, "fast_path_differs",
                            quantity="laplacian", mode=mode)
        if "dtheta" in a:
            if sorted(a["dtheta"]) != sorted(b["dtheta"]):
                # the two trunk modes are the same network: the same learnable tensors under the same names
                only_f = sorted(set(a["dtheta"]) - set(b["dtheta"]))[:4]
                only_p = sorted(set(b["dtheta"]) - set(a["dtheta"]))[:4]
                ctx.violate("fast_path_differs", "mode %s: the fast and the plain network do not have the same trainable parameters "
                            "(only fast: %s, only plain: %s)" % (mode, only_f, only_p), quantity="parameter_set", mode=mode)
                ok = False
            for k in a["dtheta"]:
                if k not in b["dtheta"]:
                    continue
                ok &= ctx.judge("d loss/d %s fast vs plain (mode %s, loss %s derivative terms)"
                                % (k, mode, "with" if "dx" in a else "without"), a["dtheta"][k], b["dtheta"][k], tol,
                                "fast_path_differs", quantity="dtheta", mode=mode,
                                param="trunk_first" if ".sequential.0." in k and "trunk" in k else
                                ("trunk" if "trunk" in k else "branch"),
                                ptype="bias" if k.endswith("bias") else ("weight" if k.endswith("weight") else "other"))
        if ok:
            decided += 1
    # the other trunk input rank (2-D <-> copied 3-D), outputs and first derivatives
    other = 2 if c["rank"] == 3 else 3
    ev = {}
    for tag, net in (("fast", fast), ("plain", plain)):
        ev[tag] = _lib(ctx, "%s net, trunk rank %d" % (tag, other),
                       lambda net=net: _evaluate(ctx, net, rows, V, "full", other), net=tag, mode="full")
    if ev["fast"] is not None and ev["plain"] is not None:
        ctx.judge("output fast vs plain (trunk rank %d)" % other, ev["fast"]["out"], ev["plain"]["out"], tol,
                  "fast_path_differs", quantity="out", mode="other_rank")
        ctx.judge("d out/d x fast vs plain (trunk rank %d)" % other, ev["fast"]["dx"], ev["plain"]["dx"], tol,
                  "fast_path_differs", quantity="dx", mode="other_rank")
        for k in ev["fast"]["dtheta"]:
            if k not in ev["plain"]["dtheta"]:
                continue            # differing parameter sets are reported above
            ctx.judge("d loss/d %s fast vs plain (trunk rank %d)" % (k, other), ev["fast"]["dtheta"][k],
                      ev["plain"]["dtheta"][k], tol, "fast_path_differs", quantity="dtheta", mode="other_rank",
                      ptype="bias" if k.endswith("bias") else "weight")
        _check_vs_own(ctx, "fast net output (trunk rank %d) vs own inner product" % other, ev["fast"]["out"], own, tol,
                      net="fast")

    # einsum of the sub-nets' own outputs + batch independence, both nets, no grad
    for tag, net in (("fast", fast), ("plain", plain)):
        _set_mode(net, "x_only")
        with torch.no_grad():
            pts, _ = _trunk_points(c, rows, F, c["rank"], False)
            full = _lib(ctx, "%s forward" % tag, lambda: (net.fix_branch_input(V), net(pts).as_tensor)[1], net=tag)
            if full is None:
                continue
            if tuple(full.shape) != (F, n, N.out_dim(s)):
                ctx.violate("shape", "%s net: output shape %s for %d functions x %d locations x %d components"
                            % (tag, tuple(full.shape), F, n, N.out_dim(s)), net=tag)
                continue
            _einsum_subnets(ctx, net, pts, full, tol, net=tag)
            # sub-batch of functions and of locations
            Sf = np.sort(rng.choice(F, size=int(rng.integers(1, F + 1)), replace=False))
            Sl = np.sort(rng.choice(n, size=int(rng.integers(1, n + 1)), replace=False))
            sub_rows = {k: v[torch.as_tensor(Sl)] for k, v in rows.items()}
            c2 = dict(c, n_loc=len(Sl))
            pts2, _ = _trunk_points(c2, sub_rows, len(Sf), c["rank"], False)
            sub = _lib(ctx, "%s forward on a sub-batch" % tag,
                       lambda: (net.fix_branch_input(V[torch.as_tensor(Sf)]), net(pts2).as_tensor)[1], net=tag)
            if sub is not None:
                want = full[torch.as_tensor(Sf)][:, torch.as_tensor(Sl)]
                ctx.judge("%s net: %d of %d functions x %d of %d locations evaluated alone" % (tag, len(Sf), F, len(Sl), n),
                          sub, want, tol, "batch_dependent", quantity="subbatch", net=tag)
            # other functions / other locations replaced
            i, j = int(rng.integers(0, F)), int(rng.integers(0, n))
            V2 = torch.rand(V.shape, generator=g, dtype=dt) * 2 - 1
            V2[i] = V[i]
            rows2 = _trunk_rows(c, g, dt)
            for k in rows2:
                rows2[k][j] = rows[k][j]
            pts3, _ = _trunk_points(c, rows2, F, c["rank"], False)
            rep = _lib(ctx, "%s forward with the other functions and locations replaced" % tag,
                       lambda: (net.fix_branch_input(V2), net(pts3).as_tensor)[1], net=tag)
            if rep is not None and tuple(rep.shape) == tuple(full.shape):
                ctx.judge("%s net: out[%d,%d] after replacing every other function and location" % (tag, i, j),
                          rep[i, j], full[i, j], tol, "batch_dependent", quantity="replaced", net=tag)
    res["nontrivial"] = decided >= 3
    ctx.count("twin_modes_fully_equal", decided)


# ---------------------------------------------------------------------------------------------
# forms cases
# ---------------------------------------------------------------------------------------------

def _run_forms(ctx):
    from torchphysics.problem.spaces import Points, Space
    from torchphysics.problem.domains import CustomFunctionSet
    from torchphysics.problem.samplers import DataSampler
    c, s, res = ctx.c, ctx.s, ctx.res
    dt = torch.float32
    net, fsp, sampler = N.build(s, c["fast"], c["seed"])
    net.eval()
    for p in net.parameters():
        p.requires_grad_(False)
    g = torch.Generator().manual_seed(c["seed"] + 1)
    rng = np.random.default_rng(c["seed"])
    rows = _trunk_rows(c, g, dt)
    F, n, ch = c["F"], c["n_loc"], s["fn_ch"]
    var = s["fn_in"]["var"]
    tol_eq, tol_ref = 1e-5, 1e-4
    # forms in which the library evaluates the function itself may differ from the monitor's discretisation by one
    # unit of float32 rounding (vectorised vs scalar sin/cos); the branch net amplifies that
    same_bits = ("tensor3d", "points3d")
    forms_ok = 0
    ctx.mech["fast"] = c["fast"]

    def fwd(rank, nf, branch_inputs=None):
        pts, _ = _trunk_points(c, rows, nf, rank, False)
        with torch.no_grad():
            return net(pts) if branch_inputs is None else net(pts, branch_inputs)

    sequence = [("a", c["params_a"]), ("b", c["params_b"]), ("a", c["params_a"])]
    for rnd, (tag, params) in enumerate(sequence):
        V, spts = _disc_values(c, sampler, params, dt)
        own = _own_reference(ctx, net, rows, V)
        k_t = torch.tensor(params, dtype=dt)
        fset = CustomFunctionSet(fsp, DataSampler({"k": k_t.clone()}), _named_fn(["k", var], ch))
        forms = [("tensor3d", lambda: (net.fix_branch_input(V.clone()), fwd(c["rank"], F))[1]),
                 ("points3d", lambda: (net.fix_branch_input(Points(V.clone(), Space({"f": ch}))), fwd(c["rank"], F))[1]),
                 ("functionset_fix", lambda: (net.fix_branch_input(fset), fwd(c["rank"], F))[1]),
                 ("functionset_forward", lambda: fwd(c["rank"], F, fset)),
                 # the path the DeepONet conditions use during training
                 ("functionset_training", lambda: (net._forward_branch(fset, iteration_num=rnd), fwd(c["rank"], F))[1])]
        if F >= 2:
            m = int(rng.integers(1, F))
            parts = [CustomFunctionSet(fsp, DataSampler({"k": k_t[:m].clone()}), _named_fn(["k", var], ch)),
                     CustomFunctionSet(fsp, DataSampler({"k": k_t[m:].clone()}), _named_fn(["k", var], ch))]
            forms.append(("functionset_sum", lambda: (net.fix_branch_input(parts[0] + parts[1]), fwd(c["rank"], F))[1]))
        if rnd == 2:
            forms = forms[2:] + forms[:1]
        idx = [int(i) for i in rng.permutation(len(forms))] if rnd else list(range(len(forms)))
        outs = {}
        for ii in idx:
            name, call = forms[ii]
            o = _lib(ctx, "branch input as %s (round %d)" % (name, rnd), call, form=name)
            if o is None:
                continue
            ctx.count("form_" + name)
            if [[k, int(o.space[k])] for k in o.space.keys()] != s["out_space"]:
                ctx.violate("output_space", "output space %s, expected %s" % (dict(o.space), s["out_space"]), form=name)
            outs[name] = o.as_tensor
            if _check_vs_own(ctx, "round %d (functions %s): output for the branch input given as %s vs the monitor's own "
                                  "inner product" % (rnd, tag, name), o.as_tensor, own, tol_ref, form=name, round=rnd):
                forms_ok += 1
            if rnd == 0 and name == "tensor3d":
                pts, _ = _trunk_points(c, rows, F, c["rank"], False)
                _einsum_subnets(ctx, net, pts, o.as_tensor, tol_eq, form=name)
        base = outs.get("tensor3d")
        if base is None and outs:
            base = list(outs.values())[0]
        for name, o in outs.items():
            if o is not base:
                ctx.judge("round %d: branch input as %s vs as tensor" % (rnd, name), o, base,
                          tol_eq if name in same_bits else tol_ref,
                          "input_form_dependent", quantity="forms", form=name)
        # single functions: callable / 2-D tensor / 2-D Points, each against row i of the batch result
        if base is not None and rnd < 2:
            for i in ([int(x) for x in rng.choice(F, size=min(F, 2), replace=False)]):
                ki = k_t[i]
                singles = [("callable", lambda ki=ki: (net.fix_branch_input(_named_fn([var], ch, ki)), fwd(c["rank"], 1))[1]),
                           ("tensor2d", lambda i=i: (net.fix_branch_input(V[i].clone()), fwd(c["rank"], 1))[1]),
                           ("points2d", lambda i=i: (net.fix_branch_input(Points(V[i].clone(), Space({"f": ch}))),
                                                     fwd(2, 1))[1])]
                for name, call in singles:
                    o = _lib(ctx, "single function %d given as %s" % (i, name), call, form=name)
                    if o is None:
                        continue
                    ctx.count("form_" + name)
                    if base.dim() != 3 or base.shape[0] != F:
                        continue                                   # already reported as a wrong shape / reference mismatch
                    if ctx.judge("round %d: function %d alone given as %s vs row %d of the batch result" % (rnd, i, name, i),
                                 o.as_tensor, base[i:i + 1], tol_ref,      # batch of one: other BLAS kernels
                                 "input_form_dependent", quantity="forms", form=name):
                        forms_ok += 1
    res["nontrivial"] = forms_ok >= 3
    ctx.count("forms_agreeing_with_reference", forms_ok)


# ---------------------------------------------------------------------------------------------
# history cases
# ---------------------------------------------------------------------------------------------

def _run_history(ctx):
    """One DeepONet object, 3-6 operations, the same input objects reused across steps.  After every forward the
    output must be the inner product for the CURRENT weights and the CURRENT branch input (value and shape)."""
    from torchphysics.problem.spaces import Points, Space
    from torchphysics.problem.domains import CustomFunctionSet
    from torchphysics.problem.samplers import DataSampler
    c, s, res = ctx.c, ctx.s, ctx.res
    dt = torch.float32
    net, fsp, sampler = N.build(s, c["fast"], c["seed"])
    others = [{k: v.clone() for k, v in N.build(s, c["fast"], c["seed"] + 101 + j)[0].state_dict().items()}
              for j in range(2)]
    g = torch.Generator().manual_seed(c["seed"] + 1)
    rows = _trunk_rows(c, g, dt)
    F, ch, var = c["F"], s["fn_ch"], s["fn_in"]["var"]
    ctx.mech["fast"] = c["fast"]
    Va, _ = _disc_values(c, sampler, c["params_a"], dt)
    Vb, _ = _disc_values(c, sampler, c["params_b"], dt)
    ka, kb = torch.tensor(c["params_a"], dtype=dt), torch.tensor(c["params_b"], dtype=dt)
    j2 = F - 1
    # persistent input objects and the monitor's own discretisation of each
    pool = {"callable": (_named_fn([var], ch, ka[0]), Va[0:1]),
            "tensor3d": (Va.clone(), Va),
            "tensor2d": (Vb[j2].clone(), Vb[j2:j2 + 1]),
            "points3d": (Points(Vb.clone(), Space({"f": ch})), Vb),
            "points2d": (Points(Va[j2].clone(), Space({"f": ch})), Va[j2:j2 + 1]),
            "functionset": (CustomFunctionSet(fsp, DataSampler({"k": kb.clone()}), _named_fn(["k", var], ch)), Vb),
            # the function set of a second condition that trains the same model in the same iteration
            "functionset2": (CustomFunctionSet(fsp, DataSampler({"k": ka.clone()}), _named_fn(["k", var], ch)), Va)}
    opt = torch.optim.SGD(net.parameters(), lr=0.02)
    tol = 1e-4
    iteration = 0
    last_eval = {}          # object name -> index of the step that last evaluated it
    changed_since = {}      # object name -> list of changing ops since then
    prev = "start"
    sandwiches = 0
    all_ok = True

    def forward(name, grad, via_forward, step):
        obj, V = pool[name]
        nf = V.shape[0]
        pts, _ = _trunk_points(c, rows, nf, c["rank"], False)
        with (torch.enable_grad() if grad else torch.no_grad()):
            if via_forward:
                out = net(pts, obj)
            else:
                net.fix_branch_input(obj)
                out = net(pts)
        return out, V, nf

    def check(out, V, nf, step, op, name, history, changes=""):
        nonlocal all_ok
        t = out.as_tensor.detach()
        want_shape = (nf, c["n_loc"], N.out_dim(s))
        mech = dict(op=op, form=name, prev_op=prev.split(":")[0], same_object_reused_after=changes)
        if tuple(t.shape) != want_shape:
            ctx.res["judged"] += 1
            ctx.violate("stale_or_wrong_branch_output", "step %d (%s %s after %s): output shape %s, the current input has "
                        "%d function(s) x %d locations x %d components" % (step, op, name, history or prev, tuple(t.shape),
                                                                            nf, c["n_loc"], N.out_dim(s)), **mech)
            all_ok = False
            return False
        own = _own_reference(ctx, net, rows, V)
        if not bool(torch.isfinite(own[0]).all()):
            ctx.count("degenerate_nonfinite_skipped")
            return False
        ok = _check_vs_own(ctx, "step %d (%s %s after %s): output vs the monitor's own inner product for the current "
                                "weights and the current input" % (step, op, name, history or prev), t, own, tol, **mech)
        all_ok &= ok
        return ok

    for step, o in enumerate(c["ops"]):
        op = o["op"]
        ctx.count("history_op_" + op + ("_grad" if o.get("grad") else ""))
        if op == "load":
            _lib(ctx, "load_state_dict", lambda: net.load_state_dict(others[o["which"]]), op=op)
            for k in changed_since:
                changed_since[k].append("load")
        elif op == "train":
            iteration += 1
            fset, V = pool["functionset"]
            pts, _ = _trunk_points(c, rows, V.shape[0], c["rank"], False)
            out = _lib(ctx, "_forward_branch + forward", lambda: (net._forward_branch(fset, iteration_num=iteration),
                                                                  net(pts))[1], op=op)
            if out is not None:
                check(out, V, V.shape[0], step, op, "functionset", "")
            # a second condition with its own function set (same size) in the SAME iteration
            fset2, V2 = pool["functionset2"]
            out = _lib(ctx, "_forward_branch + forward (second function set, same iteration)",
                       lambda: (net._forward_branch(fset2, iteration_num=iteration), net(pts))[1], op=op)
            if out is not None:
                ctx.count("history_second_function_set_same_iteration")
                check(out, V2, V2.shape[0], step, op, "functionset2", "another function set evaluated in the same iteration")
            for k in changed_since:
                changed_since[k].append("train")
        else:
            name = o["obj"]
            grad = True if op == "sgd" else o["grad"]
            r = _lib(ctx, "%s with the branch input %s" % (op, name),
                     lambda: forward(name, grad, o.get("via_forward", False), step), op=op, form=name)
            if r is not None:
                out, V, nf = r
                hist = "+".join(changed_since.get(name, [])) if name in last_eval else ""
                ok = check(out, V, nf, step, op, name, ("same object evaluated at step %d, then %s" % (last_eval[name], hist))
                           if hist else "", hist)
                if hist and not grad:
                    ctx.count("history_reevaluations_same_object_no_grad_after_" + hist.split("+")[0])
                    if ok:
                        sandwiches += 1
                last_eval[name] = step
                changed_since[name] = []
                if op == "sgd" and tuple(out.as_tensor.shape) == (nf, c["n_loc"], N.out_dim(s)):
                    loss = (out.as_tensor ** 2).mean()
                    if bool(torch.isfinite(loss)):
                        opt.zero_grad()
                        loss.backward()
                        torch.nn.utils.clip_grad_norm_(net.parameters(), 1.0)
                        opt.step()
                        ctx.count("history_sgd_steps_taken")
                    for k in changed_since:
                        changed_since[k].append("sgd")
        prev = op + (":" + o["obj"] if "obj" in o else "")
    ctx.count("history_sandwiches_held", sandwiches)
    res["nontrivial"] = sandwiches >= 1 and all_ok


def _named_fn(argnames, ch, ki=None):
    """A plain Python function with the given positional argument names, as a user would pass it:
    f(k, s) for a function set, f(s) with fixed parameters for a single callable."""
    ns = {}
    if ki is None:
        src = "def f(%s):\n    return fam(%s, %s, ch)\n" % (", ".join(argnames), argnames[0], argnames[1])
    else:
        src = "def f(%s):\n    return fam(ki, %s, ch)\n" % (argnames[0], argnames[0])
    exec(src, {"fam": N.fn_family, "ki": ki, "ch": ch}, ns)
    return ns["f"]


# ---------------------------------------------------------------------------------------------
# driver
# ---------------------------------------------------------------------------------------------

def run_case(c):
    res = {"cls": _cls(c), "judged": 0, "nontrivial": False, "viol": [], "counters": {}}
    ctx = _Ctx(c, res)
    ctx.count("cases_" + c["kind"])
    if c["kind"] == "twin":
        _run_twin(ctx)
    elif c["kind"] == "history":
        _run_history(ctx)
    else:
        _run_forms(ctx)
    return res


def extra_coverage(results):
    w = [r.get("worst", 0.0) for r in results]
    return {"max_observed_difference_over_allowed": float("%.3g" % max(w)) if w else None}


def sample_of(case, r):
    s = case.get("spec", {})
    return {"kind": case.get("kind"), "trunk_space": s.get("trunk_space"), "trunk_hidden": s.get("trunk_hidden"),
            "trunk_act": s.get("trunk_act"), "branch": s.get("branch"), "branch_hidden": s.get("branch_hidden"),
            "out_space": s.get("out_space"), "K": s.get("K"), "functions": case.get("F"), "locations": case.get("n_loc"),
            "trunk_rank": case.get("rank"), "normalised": bool(s.get("norm")), "seed": case.get("seed"),
            "class": r.get("cls"), "comparisons": r.get("judged"), "counters": r.get("counters"),
            "status": r.get("status")}
