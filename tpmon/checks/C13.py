"""C13 -- user functions receive their arguments by name.

Recording functions + history monitor.  Every case generates one Python function (0-6
positional-or-keyword parameters, any suffix with declared defaults: numbers, None, tensors, mutable
lists) whose body records the keyword arguments it receives, wraps it in `UserFunction` /
`DomainUserFunction` and drives a seeded history of

    call (dict / Points, supersets in random order) . call with a required name missing .
    partially_evaluate . set_default . remove_default . copy.deepcopy . re-wrap . wrap the function again

against an immutable reference of every wrapper's state (fun, args, defaults).  The binding oracle is
Python's own `inspect.signature(f).bind(...)` + `apply_defaults()` for untouched wrappers and the reference
state (declared defaults overridden by set_default / partial evaluation) otherwise.
"""
import collections
import copy
import inspect
import types

import numpy as np
import torch

from ..core import viol, exc_site, Inconclusive

LEVEL = "exploration"
RULE = ("seeded generator over signatures (0-6 positional-or-keyword parameters x number of trailing declared defaults "
        "x default kinds number/None/tensor/list x def|lambda) x wrapper class (UserFunction, DomainUserFunction) x "
        "construction (introspected | explicit args/defaults containers | constant instead of callable) x variable dims "
        "1-3 x histories of 6-14 (quick) / 10-30 (thorough) operations: call with dict or Points holding a random "
        "superset of the needed names in random order, call lacking a required name, partially_evaluate (value / "
        "wrapper branch, then completion), set_default, remove_default, deepcopy, re-wrap, second wrapper of the same "
        "function; optional 'accumulating default' variant whose function mutates its own mutable default; in about a "
        "quarter of the cases the user's function is a FAMILY of 2-4 function objects that share one code object "
        "(closures of one factory / defined in a loop / types.FunctionType copies) with identical signatures and "
        "different default values (numbers, None, tensors, lists), wrapped one after the other as UserFunction and "
        "DomainUserFunction in random order and interleaved with calls, each judged by inspect.signature of its own "
        "function object. "
        "A case is non-trivial when at least one call was judged argument by argument; distinct = (class, #params, "
        "#defaults, default kinds, construction, variant)")
REQUIRED_REACH = ["UserFunction._set_input_args_for_function", "UserFunction.__call__", "DomainUserFunction.__call__",
                  "UserFunction.partially_evaluate", "UserFunction.__deepcopy__", "UserFunction.set_default",
                  "UserFunction.remove_default", "UserFunction.necessary_args"]
MIN_NONTRIVIAL = 20
ASSUMPTIONS = [
    "positional-or-keyword parameters only (keyword-only, *args, **kwargs are outside the quantifier); plain functions "
    "and lambdas (bound methods are seen by the library with their 'self'); parameter names avoid 'self' and, unless "
    "INCLUDE_RESERVED_NAMES is set, 'device' (collides with DomainUserFunction.evaluate_function's own keyword)",
    "values are compared by content (shape, dtype, entries), not by identity: the library may pass views or copies",
    "re-wrapping shares the defaults dict on the pinned tree; the reference accepts both sharing and not sharing after "
    "set_default / remove_default on a member of such a group (DESIGN 5.1)",
    "after remove_default of a declared default the name is always supplied again (whether Python's own default may "
    "then be used is not fixed by the statement)",
    "the 'accumulating default' variant follows Python semantics: a mutable default object belongs to the wrapper "
    "that holds it; deep copies (deepcopy, partial evaluation) own independent copies; no re-wrapping in that variant",
    "DomainUserFunction results are compared with value[:, None] (documented extra axis)",
    "mappings are dict, OrderedDict and MappingProxyType; the per-row mode (vectorize=True) is exercised by its own workload (tensor-valued defaults of a length other than the batch size, as its docstring assumes)",
]
CASE_TIMEOUT = 60

# A parameter called `device` cannot be routed by DomainUserFunction on the pinned tree (its evaluate_function has a
# keyword of that name: TypeError "got multiple values for keyword argument 'device'").  Set to True to generate such
# signatures (violations carry mech reserved_name="device").
INCLUDE_RESERVED_NAMES = False
PNAMES = ["x", "t", "u", "k", "D", "w", "alpha", "v", "f0", "args", "n", "y", "fun", "defaults"] + (
    ["device"] if INCLUDE_RESERVED_NAMES else [])
EXTRA = ["zz", "q1", "other", "beta"]
MAX_VIOL = 6


def gen_cases(seed, tier):
    rng = np.random.default_rng([seed, 13])
    rng_f = np.random.default_rng([seed, 13, 1])          # shared-code families (independent stream)
    n = 400 if tier == "quick" else 20000
    cases = []
    for i in range(n):
        npar = int(rng.choice([0, 1, 2, 3, 4, 5, 6], p=[0.04, 0.12, 0.2, 0.22, 0.18, 0.14, 0.1]))
        ndef = int(rng.integers(0, npar + 1))
        names = [str(x) for x in rng.choice(PNAMES, size=npar, replace=False)]
        kinds = [str(rng.choice(["num", "int", "none", "tensor", "tensor0", "list"], p=[0.3, 0.1, 0.1, 0.25, 0.05, 0.2]))
                 for _ in range(ndef)]
        construct = str(rng.choice(["plain", "explicit", "const"], p=[0.82, 0.13, 0.05]))
        variant = "accumulate" if ("list" in kinds or "tensor" in kinds) and rng.random() < 0.35 else "pure"
        if construct != "plain":
            variant = "pure"
        lo, hi = (6, 14) if tier == "quick" else (10, 30)
        cases.append({"names": names, "ndef": ndef, "kinds": kinds, "dims": [int(rng.integers(1, 4)) for _ in names],
                      "cls": "Domain" if rng.random() < 0.4 else "User", "construct": construct, "variant": variant,
                      "lam": bool(rng.random() < 0.25), "n": int(rng.integers(1, 6)),
                      "nb2": bool(rng.random() < 0.12), "n_ops": int(rng.integers(lo, hi + 1)),
                      "seed": int(rng.integers(0, 2**31))})
        fam, fam_n = str(rng_f.choice(["factory", "loop", "copy"])), int(rng_f.integers(2, 5))
        use = rng_f.random() < (0.5 if ndef >= 1 else 0.08)
        if use and construct == "plain" and variant == "pure":
            cases[-1]["family"], cases[-1]["fam_n"] = fam, fam_n
    # the per-row mode of __call__ (vectorize=True): one invocation per batch row, still bound by name
    rng_r = np.random.default_rng([seed, 13, 2])
    for i in range(40 if tier == "quick" else 2000):
        npar = int(rng_r.integers(2, 6))
        cases.append({"rowwise": True, "names": [str(x) for x in rng_r.choice(PNAMES, size=npar, replace=False)],
                      "ndef": int(rng_r.integers(1, npar)), "set_default": bool(rng_r.random() < 0.4),
                      "partial": bool(rng_r.random() < 0.3), "points": bool(rng_r.random() < 0.4), "seed": int(rng_r.integers(0, 2**31))})
    return cases


def run_rowwise(case):
    from torchphysics.utils.user_fun import UserFunction
    from torchphysics.problem.spaces import Points
    rng = np.random.default_rng(case["seed"])
    names, ndef = case["names"], case["ndef"]
    B = 5
    res = {"cls": "rowwise/p%d/d%d/%s%s%s" % (len(names), ndef, "s" if case["set_default"] else "-", "p" if case["partial"] else "-",
                                              "P" if case["points"] else "D"),
           "judged": 0, "nontrivial": False, "viol": [], "counters": {}, "trace": [], "signature": ""}
    mech = {"op": "call(vectorize=True)", "cls": "User", "npar": len(names), "ndef": ndef}
    tag = [0]

    def tens(shape):
        tag[0] += 1
        n_ = int(np.prod(shape))
        return torch.tensor((tag[0] * 64 + np.arange(n_)) / 4.0, dtype=torch.float64).reshape(shape)
    # declared defaults: tensors of length 2 (never the batch size), one per trailing parameter
    declared = {n: tens((2,)) for n in names[len(names) - ndef:]}
    log = []
    ns = {"hook": lambda rec: (log.append({k: v.clone() for k, v in rec.items()}) or sum(float(v.sum()) for v in rec.values())), "DEF": declared}
    sig = ", ".join(n if n not in declared else "%s=DEF[%r]" % (n, n) for n in names)
    exec("def f(%s):\n    return hook(dict(%s))" % (sig, ", ".join("%s=%s" % (n, n) for n in names)), ns)
    res["signature"] = "f(%s)" % sig
    w = UserFunction(ns["f"])
    defaults = dict(declared)
    required = [n for n in names if n not in declared]
    try:
        if case["set_default"] and len(required) >= 2:
            n0 = required[int(rng.integers(0, len(required) - 1))]           # not the last required one: a supplied name follows
            defaults[n0] = tens((2,))
            w.set_default(**{n0: defaults[n0]})
            required.remove(n0)
        if case["partial"] and len(required) >= 2:
            n0 = required[0]
            defaults[n0] = tens((2,))
            w = w.partially_evaluate(**{n0: defaults[n0]})
            required.remove(n0)
        optional = [n for n in names if n in defaults]
        # supply all required names and the LATER optional ones (an absent default precedes a supplied name)
        supplied = list(required) + [n for j, n in enumerate(optional) if j >= 1 and rng.random() < 0.7]
        env = {n: tens((B, int(rng.integers(1, 3)))) for n in rng.permutation(supplied)}
        arg = Points.from_coordinates({k: v.clone() for k, v in env.items()}) if case["points"] and env else dict(env)
        out = w(arg, vectorize=True)
    except Exception as e:
        res["viol"].append(viol("exception", "row-wise call of %s with names %s raised %s: %s (at %s)" % (res["signature"], list(env) if "env" in dir() else "?",
                                type(e).__name__, str(e)[:150], exc_site(e)), exc=type(e).__name__, site=exc_site(e), **mech))
        return res
    res["counters"]["rowwise_calls"] = 1
    res["judged"] += 1
    if len(log) != B or not isinstance(out, list) or len(out) != B:
        res["viol"].append(viol("call_count", "row-wise call over %d rows invoked the function %d times and returned %s" %
                                (B, len(log), type(out).__name__ if not isinstance(out, list) else "a list of %d" % len(out)), **mech))
        return res
    for i, rec in enumerate(log):
        if sorted(rec) != sorted(names):
            res["viol"].append(viol("wrong_parameters", "row %d: the function received %s, declared %s" % (i, sorted(rec), names), **mech))
            return res
        for n in names:
            want = env[n][i] if n in env else defaults[n]
            res["judged"] += 1
            if rec[n].shape != want.shape or not torch.equal(rec[n], want):
                src = [m for m in names if m != n and ((m in env and env[m][i].shape == rec[n].shape and torch.equal(env[m][i], rec[n])) or
                                                       (m in defaults and defaults[m].shape == rec[n].shape and torch.equal(defaults[m], rec[n])))]
                res["viol"].append(viol("wrong_binding", "row %d of the row-wise call of %s (given %s): parameter %r received %s, expected %s%s" %
                                        (i, res["signature"], list(env), n, rec[n].tolist(), want.tolist(),
                                         "; that is the value stored under %r" % src[0] if src else ""), given=n in env, has_default=n in defaults,
                                        **mech))
                return res
    res["counters"]["rowwise_rows_judged"] = B
    res["nontrivial"] = True
    return res


# ---------------------------------------------------------------------------------------------
# values: content snapshots and comparison
# ---------------------------------------------------------------------------------------------

def snap(v):
    """immutable content snapshot of a value"""
    if isinstance(v, torch.Tensor):
        return ("tensor", str(v.dtype), tuple(v.shape), tuple(v.detach().reshape(-1).tolist()))
    if isinstance(v, np.ndarray):
        return ("ndarray", str(v.dtype), tuple(v.shape), tuple(v.reshape(-1).tolist()))
    if isinstance(v, list):
        return ("list", tuple(snap(x) for x in v))
    if isinstance(v, dict):
        return ("dict", tuple((k, snap(x)) for k, x in v.items()))
    if v is None:
        return ("none",)
    if isinstance(v, (bool, int, float, str)):
        return (type(v).__name__, v)
    return ("object", type(v).__name__, id(v))


def short(s):
    r = repr(s)
    return r if len(r) < 90 else r[:87] + "..."


class RefWrapper:
    """immutable-by-convention reference of one wrapper value: updated only by operations on that wrapper"""

    def __init__(self, args, defaults, group, pristine, cls, const=None, is_const=False, fidx=0):
        self.fidx = fidx                        # which function object of the case's family is wrapped
        self.args = list(args)
        self.defaults = dict(defaults)          # name -> content snapshot
        self.group = group
        self.pristine = pristine
        self.cls = cls
        self.removed = set()
        self.const = const
        self.is_const = is_const

    def clone(self, group, cls=None):
        r = RefWrapper(self.args, self.defaults, group, self.pristine, cls or self.cls, self.const, self.is_const,
                       self.fidx)
        r.removed = set(self.removed)
        return r

    @property
    def required(self):
        return [a for a in self.args if a not in self.defaults]


class Monitor:
    def __init__(self, case):
        from torchphysics.utils.user_fun import UserFunction, DomainUserFunction
        from torchphysics.problem.spaces import Points
        self.UF, self.DUF, self.Points = UserFunction, DomainUserFunction, Points
        self.c = case
        self.rng = np.random.default_rng(case["seed"])
        self.names = list(case["names"])
        self.dims = dict(zip(self.names, case["dims"]))
        for e in EXTRA:
            self.dims[e] = int(self.rng.integers(1, 4))
        self.batch = (case["n"], 2) if case["nb2"] and case["cls"] == "User" else (case["n"],)
        self.coef = {n: float(i + 2) + 0.25 for i, n in enumerate(self.names)}
        self.base = torch.arange(1, int(np.prod(self.batch)) + 1, dtype=torch.float64).reshape(self.batch) / 16.0
        self.log = []
        self.viol = []
        self.counters = {}
        self.judged = 0
        self.calls_judged = 0
        self.group_counter = 0
        self.tagc = 0
        self.pool = []                # [lib wrapper, RefWrapper, lib-side identity snapshot]
        self.containers = []          # (description, object, content snapshot, allowed_to_change_by)
        self.trace = []
        self.acc = None               # name of the accumulating default (variant "accumulate")

    # ---- bookkeeping ------------------------------------------------------------------------
    def count(self, k, n=1):
        self.counters[k] = self.counters.get(k, 0) + n

    def flag(self, kind, msg, **mech):
        self.count("violations_" + kind)
        if len(self.viol) < MAX_VIOL:
            mech.setdefault("cls", self.c["cls"])
            mech.setdefault("construct", self.c["construct"])
            mech.setdefault("variant", self.c["variant"])
            mech.setdefault("npar", len(self.names))
            mech.setdefault("ndef", self.c["ndef"])
            if "device" in self.names:
                mech.setdefault("reserved_name", "device")
            self.viol.append(viol(kind, msg + " | signature %s" % self.sigtext, **mech))

    def note(self, op, **kw):
        if len(self.trace) < 10:
            d = {"op": op}
            d.update(kw)
            self.trace.append(d)

    # ---- the user's function --------------------------------------------------------------------------
    def tensor_for(self, name, shape=None):
        self.tagc += 1
        shape = shape if shape is not None else self.batch + (self.dims[name],)
        size = int(np.prod(shape))
        vals = (self.tagc * 64 + np.arange(size)) / 4.0
        return torch.tensor(vals, dtype=torch.float64).reshape(shape)

    def make_default(self, name, kind):
        self.tagc += 1
        if kind == "num":
            return float(self.tagc) + 0.5
        if kind == "int":
            return int(self.tagc) * 3
        if kind == "none":
            return None
        if kind == "tensor":
            return self.tensor_for(name, (self.dims[name],))
        if kind == "tensor0":
            return torch.tensor(float(self.tagc) + 0.125, dtype=torch.float64)
        if kind == "list":
            return [float(self.tagc), float(self.tagc) + 0.25]
        raise ValueError(kind)

    def value_of(self, rec):
        out = self.base.clone()
        for n in self.names:
            v = rec[n]
            c = self.coef[n]
            if isinstance(v, torch.Tensor):
                if v.ndim == len(self.batch) + 1 and tuple(v.shape[:-1]) == self.batch:
                    out = out + c * v.sum(-1)
                else:
                    out = out + c * v.sum()
            elif isinstance(v, list):
                out = out + c * float(sum(v))
            elif v is None:
                pass
            else:
                out = out + c * float(v)
        return out

    def hook(self, rec):
        """runs inside the user's function: records what arrived, computes the value, (variant) mutates"""
        self.log.append({"keys": list(rec.keys()), "snap": {k: snap(v) for k, v in rec.items()},
                         "ids": {k: id(v) for k, v in rec.items()}})
        out = self.value_of(rec)
        if self.acc is not None:
            a = rec[self.acc]
            if isinstance(a, list):
                a.append(float(len(a)))
            elif isinstance(a, torch.Tensor):
                a.add_(1.0)
        return out

    def build_function(self):
        """the user's function(s).  `family`: 2-4 function OBJECTS that share one code object (closures of one factory,
        functions defined in a loop, types.FunctionType copies) with identical signatures and different default values;
        otherwise one function from its own exec'd source.  self.fam[j] = {"f", "sig", "declared", "snapshot"}"""
        c = self.c
        names = self.names
        nreq = len(names) - c["ndef"]
        family = c.get("family")
        m = int(c.get("fam_n", 1)) if family else 1

        def defaults_for(j):
            out = []
            for i in range(nreq, len(names)):
                kind = c["kinds"][i - nreq]
                if j > 0 and kind == "none" and self.rng.random() < 0.5:
                    kind = "num"                  # None in one sibling, a number in another: same signature
                out.append(self.make_default(names[i], kind))
            return out
        defs = [defaults_for(j) for j in range(m)]
        body = "_HOOK({%s})" % ", ".join("%r: %s" % (n, n) for n in names)
        fname = "user_fn_%d" % (c["seed"] % 1000)

        def params(expr):
            return ", ".join([n for n in names[:nreq]] + ["%s=%s" % (n, expr(i - nreq)) for i, n in
                                                          enumerate(names) if i >= nreq])
        ns = {"_HOOK": self.hook}
        if family == "factory":
            inner = ("    return lambda %s: %s\n" % (params(lambda k: "_d[%d]" % k), body)) if c["lam"] else (
                "    def %s(%s):\n        return %s\n    return %s\n" % (fname, params(lambda k: "_d[%d]" % k), body, fname))
            src = "def _make(_HOOK, _d):\n" + inner
            exec(compile(src, "<generated user function factory>", "exec"), ns)
            fs = [ns["_make"](self.hook, tuple(d)) for d in defs]
        elif family == "loop":
            ns["_DEFS"] = [tuple(d) for d in defs]
            ns["_FS"] = []
            one = ("    _FS.append(lambda %s: %s)\n" % (params(lambda k: "_d[%d]" % k), body)) if c["lam"] else (
                "    def %s(%s):\n        return %s\n    _FS.append(%s)\n" % (fname, params(lambda k: "_d[%d]" % k), body, fname))
            exec(compile("for _d in _DEFS:\n" + one, "<generated user functions in a loop>", "exec"), ns)
            fs = list(ns["_FS"])
        else:
            for k, d in enumerate(defs[0]):
                ns["_d%d" % k] = d
            if c["lam"]:
                src = "%s = lambda %s: %s\n" % (fname, params(lambda k: "_d%d" % k), body)
            else:
                src = "def %s(%s):\n    return %s\n" % (fname, params(lambda k: "_d%d" % k), body)
            exec(compile(src, "<generated user function>", "exec"), ns)
            fs = [ns[fname]]
            for d in defs[1:]:                    # family == "copy": same code object, other __defaults__
                fs.append(types.FunctionType(fs[0].__code__, fs[0].__globals__, fs[0].__name__, tuple(d) or None,
                                             fs[0].__closure__))
        if family and len({id(f.__code__) for f in fs}) != 1:
            raise Inconclusive("the generated family does not share one code object")
        self.sigtext = "(%s)" % ", ".join("%s=<%s>" % (n, c["kinds"][i - nreq]) if i >= nreq else n
                                           for i, n in enumerate(names))
        if family:
            self.sigtext += " [%d functions sharing one code object: %s]" % (m, family)
        self.fam = []
        for f, d in zip(fs, defs):
            sig = inspect.signature(f)
            if list(sig.parameters) != names or {p.kind for p in sig.parameters.values()} - {
                    inspect.Parameter.POSITIONAL_OR_KEYWORD}:
                raise Inconclusive("generated function has another signature than planned")
            got = [p.default for p in sig.parameters.values() if p.default is not inspect.Parameter.empty]
            if len(got) != len(d) or any(a is not b for a, b in zip(got, d)):
                raise Inconclusive("generated function does not declare the planned default objects")
            self.fam.append({"f": f, "sig": sig, "declared": dict(zip(names[nreq:], d)),
                             "snapshot": (f.__code__, f.__defaults__, tuple(f.__defaults__ or ()), f.__kwdefaults__,
                                          dict(f.__dict__), f.__name__)})
        self.declared = self.fam[0]["declared"]          # same names in every member
        self.wrapped_order = []
        if family:
            self.count("family_cases_" + family)
            self.count("family_functions", m)
        if c["variant"] == "accumulate":
            cands = [n for i, n in enumerate(names) if i >= nreq and c["kinds"][i - nreq] in ("list", "tensor")]
            self.acc = str(self.rng.choice(cands)) if cands else None

    # ---- wrappers ---------------------------------------------------------------------------------------
    def cls_of(self, name):
        return self.DUF if name == "Domain" else self.UF

    def ident(self, w):
        return {"fun": w.fun, "args_obj": w.args, "args": list(w.args), "defaults_obj": w.defaults,
                "values": dict(w.defaults)}

    def add(self, w, ref):
        self.pool.append([w, ref, self.ident(w)])
        if len(self.pool) > 6:
            self.pool.pop(int(self.rng.integers(1, len(self.pool) - 1)))

    def new_group(self):
        self.group_counter += 1
        return self.group_counter

    def pristine_ref(self, cls, fidx=0):
        """reference of a fresh wrapper: Python's own view (inspect.signature) of THAT function object"""
        sig = self.fam[fidx]["sig"]
        dflt = {}
        for n, p in sig.parameters.items():
            if p.default is not inspect.Parameter.empty:
                dflt[n] = snap(p.default)
        self.wrapped_order.append(fidx)
        return RefWrapper(list(sig.parameters), dflt, self.new_group(), True, cls, fidx=fidx)

    def check_wrapper(self, w, ref, ident, op, touched=False, fresh=False):
        """lib wrapper state against the reference (content) and against its identity snapshot; for a wrapper that
        was just created only the set of argument names is fixed by the statement (its order is adopted)"""
        bad = []
        try:
            if fresh and not ref.is_const and sorted(w.args) == sorted(ref.args):
                ref.args = list(w.args)
            if ref.is_const:
                if snap(w.fun) != ref.const:
                    bad.append("constant changed: %s" % short(snap(w.fun)))
                return bad
            if w.fun is not self.fam[ref.fidx]["f"]:
                bad.append("fun is not the user's function object that was wrapped")
            if list(w.args) != ref.args:
                bad.append("args %s, expected %s" % (list(w.args), ref.args))
            keys = set(w.defaults.keys())
            exp = set(ref.defaults)
            if {k for k in keys if k in ref.args} != exp:
                bad.append("defaults for %s, expected %s" % (sorted(keys), sorted(exp)))
            for k in exp & keys:
                if snap(w.defaults[k]) != ref.defaults[k]:
                    bad.append("default %r is %s, expected %s" % (k, short(snap(w.defaults[k])), short(ref.defaults[k])))
            if not touched:
                if w.args is not ident["args_obj"]:
                    bad.append("args list object replaced")
                if w.defaults is not ident["defaults_obj"]:
                    bad.append("defaults dict object replaced")
                for k, v in ident["values"].items():
                    if k in w.defaults and w.defaults[k] is not v:
                        bad.append("default %r is another object than before" % k)
        except Exception as e:
            bad.append("state not readable: %r" % e)
        return bad

    def check_world(self, op, target=None, touched_group=None, touched_keys=()):
        """after every operation: every wrapper, the user's function and the user's containers"""
        for entry in self.pool:
            w, ref, ident = entry
            if touched_group is not None and ref.group == touched_group and w is not target:
                # a wrapper that shares its defaults dict with the target of set_default / remove_default:
                # both outcomes (shared, not shared) are within the statement -> adopt what is observed
                for k in touched_keys:
                    if k in w.defaults:
                        ref.defaults[k] = snap(w.defaults[k])
                    else:
                        ref.defaults.pop(k, None)
                entry[2] = self.ident(w)
                ref.pristine = False
                self.count("shared_defaults_adopted")
                continue
            bad = self.check_wrapper(w, ref, ident, op, touched=(w is target))
            if bad and getattr(ref, "known_bad", False):
                # already reported when it was created; from now on follow the library's state of this wrapper
                entry[1] = self.resync(w, ref)
                bad = []
            if bad:
                self.flag("wrapper_changed" if w is not target else "wrapper_state",
                          "after %s %s wrapper: %s" % (op, "another (untouched)" if w is not target else "the target",
                                                       "; ".join(bad[:3])), op=op)
                entry[1] = self.resync(w, ref)
            entry[2] = self.ident(w)
        for member in self.fam:
            f = member["f"]
            code, dobj, dvals, kwd, fdict, fname = member["snapshot"]
            if f.__code__ is not code or f.__kwdefaults__ != kwd or dict(f.__dict__) != fdict or f.__name__ != fname:
                self.flag("user_function_changed", "after %s the user's function object changed (code/kwdefaults/dict/name)" % op, op=op)
            if f.__defaults__ is not dobj or any(a is not b for a, b in zip(f.__defaults__ or (), dvals)):
                self.flag("user_function_changed", "after %s the user's function has other __defaults__ objects" % op, op=op)
        for desc, obj, content, kind in self.containers:
            if snap(obj) != content:
                self.flag("user_container_changed", "after %s the user's %s changed: %s, before %s"
                          % (op, desc, short(snap(obj)), short(content)), op=op, container=kind)
        self.containers = [c for c in self.containers if c[3] in ("explicit_defaults", "explicit_args")]

    def resync(self, w, ref):
        r = ref.clone(ref.group)
        r.pristine = False
        try:
            r.args = list(w.args)
            r.defaults = {k: snap(v) for k, v in w.defaults.items() if k in r.args}
        except Exception:
            pass
        return r

    def refresh_container(self, kind, obj):
        self.containers = [(d, o, snap(o) if o is obj else c, k) for d, o, c, k in self.containers]

    # ---- environments -------------------------------------------------------------------------------------
    def make_env(self, ref, drop_required=False, only_required=False):
        """-> ordered dict name -> tensor: all required names (minus one or more if drop_required), a random subset
        of the optional ones, random extra names; random order"""
        req = list(ref.required)
        opt = [a for a in ref.args if a not in req and a != self.acc]
        names = list(req)
        if drop_required:
            true_req = [r for r in req if r not in ref.removed]
            first = str(self.rng.choice(true_req))
            names.remove(first)
            for d in req:
                if d in names and self.rng.random() < 0.3:
                    names.remove(d)
        if not only_required:
            names += [o for o in opt if self.rng.random() < 0.45]
            names += [e for e in EXTRA if self.rng.random() < 0.3]
        names = [str(x) for x in self.rng.permutation(names)] if names else []
        return {n: self.tensor_for(n) for n in names}

    def expected_kwargs(self, ref, env):
        out = {}
        for a in ref.args:
            if a in env:
                out[a] = snap(env[a])
            elif a in ref.defaults:
                out[a] = ref.defaults[a]
            else:
                return None
        return out

    def expected_value(self, ref, env_objs):
        """value of one full evaluation, computed by the harness from objects (not snapshots)"""
        rec = {}
        for a in ref.args:
            if a in env_objs:
                rec[a] = env_objs[a]
            else:
                rec[a] = unsnap(ref.defaults[a])
        return self.value_of(rec)

    def judge_record(self, op, ref, env, n_before, w):
        """exactly one new record, with exactly the declared parameters bound by name"""
        new = self.log[n_before:]
        if len(new) != 1:
            self.flag("call_count", "%s invoked the user's function %d times" % (op, len(new)), op=op)
            return False
        rec = new[0]
        exp = self.expected_kwargs(ref, env)
        self.calls_judged += 1
        self.judged += len(exp)
        if ref.pristine and self.acc is None:
            # Python's own binding semantics as the oracle for untouched wrappers
            try:
                sig = self.fam[ref.fidx]["sig"]
                ba = sig.bind(**{k: env[k] for k in sig.parameters if k in env})
                ba.apply_defaults()
                pyexp = {k: snap(v) for k, v in ba.arguments.items()}
            except TypeError as e:
                raise Inconclusive("python rejects a call the reference accepts: %s" % e)
            if pyexp != exp:
                raise Inconclusive("reference binding differs from inspect.signature binding")
            self.count("bindings_judged_by_inspect_signature")
            if self.c.get("family") and ref.fidx != self.wrapped_order[0] and any(k not in env for k in ref.defaults):
                self.count("family_later_member_default_bindings_judged")
        ok = True
        if sorted(rec["keys"]) != sorted(exp):
            extra = sorted(set(rec["keys"]) - set(exp))
            missing = sorted(set(exp) - set(rec["keys"]))
            self.flag("wrong_parameters", "%s: the function received %s, declared %s (extra %s, missing %s)"
                      % (op, rec["keys"], ref.args, extra, missing), op=op)
            ok = False
        for k in exp:
            if k in rec["snap"] and rec["snap"][k] != exp[k]:
                src = [n for n, v in env.items() if snap(v) == rec["snap"][k] and n != k]
                src += ["default of %r" % n for n, v in ref.defaults.items() if v == rec["snap"][k] and n != k]
                how = "given" if k in env else "absent (default expected)"
                self.flag("wrong_binding", "%s: parameter %r (%s) received %s, expected %s%s"
                          % (op, k, how, short(rec["snap"][k]), short(exp[k]),
                             "; that is the value stored under %s" % src[0] if src else ""), op=op,
                          given=k in env, has_default=k in ref.defaults, pristine=ref.pristine)
                ok = False
        if self.acc is not None and self.acc in ref.defaults and self.acc not in env:
            ref.defaults[self.acc] = mutate_snap(ref.defaults[self.acc])
        return ok

    # ---- operations -----------------------------------------------------------------------------------------
    def pick(self, pred=None):
        c = [e for e in self.pool if pred is None or pred(e[1])]
        if not c:
            return None
        return c[int(self.rng.integers(0, len(c)))]

    def as_argument(self, env, ref):
        """dict or Points carrying the environment"""
        as_points = self.rng.random() < 0.45 and (len(env) > 0 or self.rng.random() < 0.3)
        if as_points:
            if env:
                arg = self.Points.from_coordinates({k: v.clone() for k, v in env.items()})
            else:
                arg = self.Points.empty()
            self.containers.append(("Points argument", arg.as_tensor, snap(arg.as_tensor), "points"))
            return arg, "points"
        arg = dict(env)
        self.containers.append(("argument dict", arg, snap(arg), "dict"))
        u = self.rng.random()
        if u < 0.12:
            return collections.OrderedDict(arg), "dict"
        if u < 0.2:
            return types.MappingProxyType(arg), "dict"
        if u < 0.3:
            # a mapping with __missing__: looking an absent name up would invent a value (and insert the name)
            dd = collections.defaultdict(lambda: torch.zeros(1, dtype=torch.float64), arg)
            self.containers.append(("argument defaultdict", dd, snap(dict(dd)), "dict"))
            return dd, "dict"
        return arg, "dict"

    def op_call(self, entry=None):
        entry = entry or self.pick()
        w, ref, _ = entry
        if ref.is_const:
            return self.op_const(entry)
        env = self.make_env(ref)
        arg, how = self.as_argument(env, ref)
        n0 = len(self.log)
        op = "call(%s)" % how
        self.count("op_call_" + how)
        self.note("call", how=how, given=list(env), cls=ref.cls)
        exp_val = self.expected_value(ref, env)
        try:
            out = w(arg)
        except Exception as e:
            self.judged += 1
            self.flag("exception", "%s with names %s raised %s: %s (at %s); required %s" %
                      (op, list(env), type(e).__name__, str(e)[:150], exc_site(e), ref.required), op=op,
                      exc=type(e).__name__, site=exc_site(e), pristine=ref.pristine)
            self.check_world(op)
            return
        if self.judge_record(op, ref, env, n0, w):
            want = exp_val[:, None] if ref.cls == "Domain" else exp_val
            self.judged += 1
            if not (isinstance(out, torch.Tensor) and out.shape == want.shape and torch.equal(out, want)):
                self.flag("wrong_value", "%s returned %s, expected the function value %s" % (op, short(snap(out)), short(snap(want))), op=op)
        self.check_world(op)

    def op_call_missing(self):
        entry = self.pick(lambda r: any(q not in r.removed for q in r.required) and not r.is_const)
        if entry is None:
            return self.op_call()
        w, ref, _ = entry
        env = self.make_env(ref, drop_required=True)
        arg, how = self.as_argument(env, ref)
        n0 = len(self.log)
        op = "call_missing(%s)" % how
        self.count("op_call_missing")
        self.note("call_missing", how=how, given=list(env), required=ref.required)
        self.judged += 1
        try:
            out = w(arg)
        except Exception:
            self.count("missing_name_rejected")
            if len(self.log) != n0:
                self.flag("called_despite_missing", "%s: the function body ran although %s were missing"
                          % (op, sorted(set(ref.required) - set(env))), op=op)
            self.check_world(op)
            return
        self.flag("missing_accepted", "%s: required %s, given %s, yet the call returned %s"
                  % (op, ref.required, list(env), short(snap(out))), op=op, pristine=ref.pristine)
        if self.acc is not None and len(self.log) > n0 and self.acc in ref.defaults:
            ref.defaults[self.acc] = mutate_snap(ref.defaults[self.acc])
        self.check_world(op)

    def op_const(self, entry):
        w, ref, _ = entry
        self.count("op_call_const")
        self.judged += 1
        env = {e: self.tensor_for(e) for e in EXTRA if self.rng.random() < 0.5}
        try:
            out = w(dict(env))
            pe = w.partially_evaluate(**env)
        except Exception as e:
            self.flag("exception", "constant wrapper raised %r" % e, op="call_const", exc=type(e).__name__, site=exc_site(e))
            return
        c = unsnap(ref.const)
        if ref.cls == "Domain":
            want = c if isinstance(c, torch.Tensor) else torch.tensor(c).float()
            good = isinstance(out, torch.Tensor) and out.shape == want.shape and torch.equal(out.double(), want.double())
        else:
            good = snap(out) == ref.const
        if not good or snap(pe) != ref.const:
            self.flag("wrong_value", "constant wrapper returned %s / partially_evaluate %s, constant is %s"
                      % (short(snap(out)), short(snap(pe)), short(ref.const)), op="call_const")
        self.check_world("call_const")

    def bound_values(self, names):
        out = {}
        for n in names:
            u = self.rng.random()
            self.tagc += 1
            if u < 0.5 and n in self.dims:
                out[n] = self.tensor_for(n)
            elif u < 0.8:
                out[n] = float(self.tagc) + 0.75
            elif u < 0.9 and n in self.dims:
                out[n] = self.tensor_for(n, (self.dims[n],))
            else:
                out[n] = [float(self.tagc)]
        return out

    def op_partial(self, entry=None):
        entry = entry or self.pick(lambda r: not r.is_const)
        if entry is None:
            return
        w, ref, _ = entry
        cand = [a for a in ref.args if a != self.acc]
        must = [r for r in ref.args if r in ref.removed]      # see ASSUMPTIONS: always supplied again
        free = [r for r in ref.required if r not in must]
        if self.rng.random() < 0.4 or not free:             # everything required (value branch)
            names = list(ref.required) + [a for a in cand if a not in ref.required and self.rng.random() < 0.4]
        else:                                               # leave at least one required name open
            names = [a for a in cand if self.rng.random() < 0.5]
            if all(r in names for r in free):
                names.remove(str(self.rng.choice(free)))
        names = list(dict.fromkeys(names + must))
        extras = [e for e in EXTRA if self.rng.random() < 0.25]
        order = [str(x) for x in self.rng.permutation(names + extras)] if names + extras else []
        bound = self.bound_values(order)
        for k, v in bound.items():
            self.containers.append(("value bound in partially_evaluate(%s=...)" % k, v, snap(v), "bound"))
        n0 = len(self.log)
        value_expected = all(r in bound for r in ref.required)
        op = "partially_evaluate"
        self.count("op_partial")
        self.note("partial", bound=list(bound), required=ref.required, value_expected=value_expected)
        exp_val = self.expected_value(ref, bound) if value_expected else None
        self.judged += 1
        try:
            out = w.partially_evaluate(**bound)
        except Exception as e:
            self.flag("exception", "partially_evaluate(%s) raised %s: %s (at %s)" % (list(bound), type(e).__name__,
                      str(e)[:150], exc_site(e)), op=op, exc=type(e).__name__, site=exc_site(e), branch="value" if value_expected else "wrapper")
            self.check_world(op)
            return
        is_wrapper = isinstance(out, (self.UF, self.DUF))
        if value_expected:
            self.count("partial_value_branch")
            if is_wrapper:
                self.flag("partial_too_late", "partially_evaluate(%s) returned a wrapper although every required name %s "
                          "is bound" % (list(bound), ref.required), op=op, pristine=ref.pristine)
            else:
                env = {k: v for k, v in bound.items()}
                if self.judge_record(op, ref, env, n0, w):
                    self.judged += 1
                    if not (isinstance(out, torch.Tensor) and out.shape == exp_val.shape and torch.equal(out, exp_val)):
                        self.flag("wrong_value", "partially_evaluate returned %s, expected the function value %s"
                                  % (short(snap(out)), short(snap(exp_val))), op=op)
            self.check_world(op)
            return
        self.count("partial_wrapper_branch")
        if not is_wrapper:
            self.flag("partial_too_early", "partially_evaluate(%s) returned %s although required %s are not all bound"
                      % (list(bound), short(snap(out)), ref.required), op=op, pristine=ref.pristine)
            if self.acc is not None and len(self.log) > n0 and self.acc in ref.defaults:
                ref.defaults[self.acc] = mutate_snap(ref.defaults[self.acc])
            self.check_world(op)
            return
        if len(self.log) != n0:
            self.flag("call_count", "partially_evaluate called the function although names were missing", op=op)
        if out is w:
            self.flag("wrapper_changed", "partially_evaluate returned the original wrapper itself", op=op)
            self.check_world(op)
            return
        r2 = ref.clone(self.new_group(), cls="Domain" if isinstance(out, self.DUF) else "User")
        r2.pristine = False
        for k, v in bound.items():
            if k in r2.args:
                r2.defaults[k] = snap(v)
                r2.removed.discard(k)
        if type(out) is not type(w):
            self.flag("wrapper_state", "partially_evaluate of a %s returned a %s" % (type(w).__name__, type(out).__name__), op=op)
        self.check_world(op)
        self.add(out, r2)
        bad = self.check_wrapper(out, r2, self.pool[-1][2], op, fresh=True)
        if bad:
            self.flag("wrapper_state", "the wrapper returned by partially_evaluate(%s): %s" % (list(bound), "; ".join(bad[:3])), op=op)
            self.pool[-1][1] = self.resync(out, r2)
        # completion: the remaining names give the value of one full evaluation
        self.count("law_partial_then_call_equals_full_evaluation")
        self.op_call(self.pool[-1])

    def op_set_default(self):
        entry = self.pick(lambda r: not r.is_const and len(r.args) > 0)
        if entry is None:
            return
        w, ref, _ = entry
        cand = [a for a in ref.args if a != self.acc]
        names = [a for a in cand if self.rng.random() < 0.4] or ([str(self.rng.choice(cand))] if cand else [])
        extras = [e for e in EXTRA if self.rng.random() < 0.25]
        vals = self.bound_values([str(x) for x in self.rng.permutation(names + extras)] if names + extras else [])
        self.count("op_set_default")
        self.note("set_default", names=list(vals))
        op = "set_default"
        try:
            w.set_default(**vals)
        except Exception as e:
            self.flag("exception", "set_default(%s) raised %r" % (list(vals), e), op=op, exc=type(e).__name__, site=exc_site(e))
            return
        for k, v in vals.items():
            if k in ref.args:
                ref.defaults[k] = snap(v)
                ref.removed.discard(k)
        ref.pristine = False
        self.refresh_explicit()
        self.check_world(op, target=w, touched_group=ref.group, touched_keys=[k for k in vals if k in ref.args])

    def op_remove_default(self):
        entry = self.pick(lambda r: not r.is_const and any(k != self.acc for k in r.defaults))
        if entry is None:
            return
        w, ref, _ = entry
        k = str(self.rng.choice([k for k in ref.defaults if k != self.acc]))
        self.count("op_remove_default")
        self.note("remove_default", name=k)
        op = "remove_default"
        try:
            if self.rng.random() < 0.5:
                w.remove_default(k)
            else:
                w.remove_default(**{k: None})
        except Exception as e:
            self.flag("exception", "remove_default(%r) raised %r" % (k, e), op=op, exc=type(e).__name__, site=exc_site(e))
            return
        del ref.defaults[k]
        if k in self.declared:
            ref.removed.add(k)
        ref.pristine = False
        self.refresh_explicit()
        self.check_world(op, target=w, touched_group=ref.group, touched_keys=[k])
        for e in self.pool:
            if e[1].group == ref.group and e[1] is not ref and k not in e[1].defaults and k in self.declared:
                e[1].removed.add(k)

    def op_deepcopy(self):
        entry = self.pick()
        w, ref, _ = entry
        self.count("op_deepcopy")
        self.note("deepcopy", cls=ref.cls)
        op = "deepcopy"
        try:
            w2 = copy.deepcopy(w)
        except Exception as e:
            self.flag("exception", "copy.deepcopy raised %r" % e, op=op, exc=type(e).__name__, site=exc_site(e))
            return
        self.judged += 1
        if w2 is w or type(w2) is not type(w) or (not ref.is_const and w2.defaults is w.defaults):
            self.flag("wrapper_state", "deepcopy returned %s sharing=%s" % (type(w2).__name__,
                      (not ref.is_const and w2.defaults is w.defaults)), op=op)
        self.check_world(op)
        r2 = ref.clone(self.new_group())
        self.add(w2, r2)
        bad = self.check_wrapper(w2, r2, self.pool[-1][2], op, fresh=True)
        if bad:
            self.flag("wrapper_state", "the deep copy differs from its original: %s" % "; ".join(bad[:3]), op=op)
            self.pool[-1][1] = self.resync(w2, r2)

    def op_rewrap(self):
        if self.acc is not None:
            return self.op_deepcopy()
        entry = self.pick()
        w, ref, _ = entry
        cls2 = "Domain" if self.rng.random() < 0.4 else "User"
        self.count("op_rewrap")
        self.note("rewrap", frm=ref.cls, to=cls2)
        op = "rewrap"
        try:
            w2 = self.cls_of(cls2)(w)
        except Exception as e:
            self.flag("exception", "%s(wrapper) raised %r" % (cls2, e), op=op, exc=type(e).__name__, site=exc_site(e))
            return
        self.judged += 1
        self.check_world(op)
        r2 = ref.clone(ref.group, cls=cls2)
        self.add(w2, r2)
        bad = self.check_wrapper(w2, r2, self.pool[-1][2], op, fresh=True)
        if bad:
            self.flag("wrapper_state", "the re-wrapped function differs from its original: %s" % "; ".join(bad[:3]), op=op)
            self.pool[-1][1] = self.resync(w2, r2)

    def op_wrap_again(self, fidx=None):
        """another, independent wrapper around (a member of the family of) the user's function"""
        if self.c["construct"] != "plain" or self.acc is not None:
            return self.op_call()
        if fidx is None:
            fidx = int(self.rng.integers(0, len(self.fam)))
        cls2 = "Domain" if self.rng.random() < 0.4 else "User"
        self.count("op_wrap_again")
        if len(self.fam) > 1:
            self.count("family_members_wrapped")
        self.note("wrap_again", to=cls2, member=fidx)
        try:
            w2 = self.cls_of(cls2)(self.fam[fidx]["f"])
        except Exception as e:
            self.flag("exception", "%s(function) raised %r" % (cls2, e), op="wrap", exc=type(e).__name__, site=exc_site(e))
            return None
        self.judged += 1
        self.check_world("wrap")
        first = not self.wrapped_order or self.wrapped_order[0] == fidx
        r2 = self.pristine_ref(cls2, fidx)
        self.add(w2, r2)
        bad = self.check_wrapper(w2, r2, self.pool[-1][2], "wrap", fresh=True)
        if bad:
            self.flag("wrapper_state", "a fresh wrapper of %s: %s"
                      % ("the function" if len(self.fam) == 1 else "member %d of the family (wrapped so far: members %s)"
                         % (fidx, self.wrapped_order[:-1]), "; ".join(bad[:3])), op="wrap", pristine=True,
                      shared_code_family=self.c.get("family"), first_of_its_code=first)
            # the next call is still judged against Python's own signature of this function object;
            # afterwards the reference follows the library's state (no second report for the same wrapper)
            r2.known_bad = True
        return self.pool[-1]

    def refresh_explicit(self):
        """set_default / remove_default may legitimately write into a defaults dict the user handed in"""
        self.containers = [(d, o, snap(o) if k == "explicit_defaults" else c, k) for d, o, c, k in self.containers]

    # ---- driver ---------------------------------------------------------------------------------------------
    def first_wrapper(self):
        c = self.c
        cls = self.cls_of(c["cls"])
        if c["construct"] == "const":
            self.tagc += 1
            const = [float(self.tagc) + 0.5, self.tensor_for("x", (2,)), int(self.tagc)][int(self.rng.integers(0, 3))]
            w = cls(const)
            ref = RefWrapper([], {}, self.new_group(), False, c["cls"], const=snap(const), is_const=True)
            return w, ref
        if c["construct"] == "explicit" and self.names:
            args = [str(x) for x in self.rng.permutation(self.names)] if self.rng.random() < 0.5 else list(self.names)
            dflt = dict(self.declared)
            for n in self.names:
                if n not in dflt and self.rng.random() < 0.3:
                    dflt[n] = self.bound_values([n])[n]
            self.containers.append(("defaults dict given to the constructor", dflt, snap(dflt), "explicit_defaults"))
            self.containers.append(("args list given to the constructor", args, snap(args), "explicit_args"))
            w = cls(self.fam[0]["f"], defaults=dflt, args=args)
            ref = RefWrapper(args, {k: snap(v) for k, v in dflt.items()}, self.new_group(), False, c["cls"])
            return w, ref
        j0 = int(self.rng.integers(0, len(self.fam)))
        w = cls(self.fam[j0]["f"])
        return w, self.pristine_ref(c["cls"], j0)

    OPS = [("call", 0.36), ("call_missing", 0.1), ("partial", 0.2), ("set_default", 0.1), ("remove_default", 0.05),
           ("deepcopy", 0.07), ("rewrap", 0.07), ("wrap_again", 0.05)]

    def run(self):
        self.build_function()
        try:
            w, ref = self.first_wrapper()
        except Exception as e:
            self.flag("exception", "wrapping raised %s: %s (at %s)" % (type(e).__name__, e, exc_site(e)), op="wrap",
                      exc=type(e).__name__, site=exc_site(e))
            return
        self.add(w, ref)
        bad = self.check_wrapper(w, ref, self.pool[-1][2], "wrap", fresh=True)
        self.judged += 1
        if bad:
            self.flag("wrapper_state", "the fresh wrapper: %s" % "; ".join(bad[:3]), op="wrap", pristine=True)
            self.pool[-1][1] = self.resync(w, ref)
        self.check_world("wrap")
        names = [o for o, _ in self.OPS]
        p = np.array([x for _, x in self.OPS])
        p = p / p.sum()
        self.op_call()
        if len(self.fam) > 1:
            # the other members of the shared-code family are wrapped one after the other, each used at once
            # (defaults only / random superset / full partial evaluation), interleaved with the random history
            p[names.index("wrap_again")] *= 3.0
            p = p / p.sum()
            j0 = self.pool[0][1].fidx
            for j in [int(x) for x in self.rng.permutation([k for k in range(len(self.fam)) if k != j0])]:
                e = self.op_wrap_again(j)
                if e is not None:
                    self.op_call(e)
                    if self.rng.random() < 0.5:
                        self.op_partial(e)
                for _ in range(int(self.rng.integers(0, 3))):
                    getattr(self, "op_" + str(self.rng.choice(names, p=p)))()
        for _ in range(self.c["n_ops"]):
            getattr(self, "op_" + str(self.rng.choice(names, p=p)))()


def unsnap(s):
    k = s[0]
    if k == "tensor":
        return torch.tensor(list(s[3]), dtype=getattr(torch, s[1].split(".")[1])).reshape(s[2])
    if k == "list":
        return [unsnap(x) for x in s[1]]
    if k == "none":
        return None
    if k in ("int", "float", "bool", "str"):
        return s[1]
    raise Inconclusive("cannot rebuild %r" % (s,))


def mutate_snap(s):
    """what the accumulating function does to its default"""
    if s[0] == "list":
        return ("list", s[1] + (("float", float(len(s[1]))),))
    if s[0] == "tensor":
        return ("tensor", s[1], s[2], tuple(x + 1.0 for x in s[3]))
    return s


def run_case(case):
    torch.manual_seed(case["seed"])
    if case.get("rowwise"):
        return run_rowwise(case)
    m = Monitor(case)
    m.run()
    kinds = "".join(sorted({k[0] + k[-1] for k in case["kinds"]}))
    cls = "%s/p%d/d%d/%s/%s/%s%s%s" % (case["cls"], len(case["names"]), case["ndef"], kinds or "-", case["construct"],
                                      case["variant"], "/lam" if case["lam"] else "",
                                      "/fam-%s%d" % (case["family"], case["fam_n"]) if case.get("family") else "")
    return {"cls": cls, "judged": m.judged, "nontrivial": m.calls_judged >= 1, "viol": m.viol, "counters": m.counters,
            "trace": m.trace[:10], "signature": getattr(m, "sigtext", "")}


def sample_of(case, r):
    return {"case": case, "class": r.get("cls"), "signature": r.get("signature"), "events_judged": r.get("judged"),
            "status": r.get("status"), "first_operations": r.get("trace", [])[:10]}
