"""C03 -- differential operators equal the analytic derivatives, row by row.

Post-condition monitor on the return tensors of the real `torchphysics.utils.differentialoperators`:
every scalar / vector / matrix field is built from one random expression tree twice (torch function and
sympy twin, see c03_exprgen); the operator result is compared row by row with sympy.diff of the twin
(validated at run time against 4th-order finite differences in float64 -- a disagreement there is
*inconclusive*, never a violation), its shape and dtype are checked, and the same call is repeated on
batches whose other rows were permuted / dropped / replaced (row independence).
"""
import numpy as np
import torch

from ..core import viol, exc_site, Inconclusive
from .. import c03_exprgen as X

LEVEL = "exploration"
RULE = ("seeded generator over operator (grad, laplacian without/with grad=, div, jac, rot, partial orders 1-4 "
        "incl. mixed/repeated, normal_derivative, convective, sym_grad, matrix_div) x 1-3 named variables of "
        "dimension 1-3 x ordered non-empty subset of them as derivative variables x batch shape (b,d) | (b1,b2,d) "
        "(two batch axes only for grad/laplacian/div/partial/normal_derivative) x float32|float64 x variables as own "
        "tensors | as column views of one point tensor x one random "
        "expression tree per field component (ops + - * sin cos exp tanh, integer powers, constants k/4, depth<=4) "
        "following a dependence template (generic | constant | not involving the derivative variables | linear "
        "with constant coefficients | linear with coefficients depending on the other variables | bilinear | "
        "separable | product | only one of the derivative variables); non-derivative variables with and without "
        "requires_grad; plus composed second-order calls div(grad(u)) and jac(grad(u)); plus the class 'stationary "
        "batches': "
        "fields that are even in one or all derivative variables (G(x_i**2,..), c(other)*sum a_i x_i**2, "
        "cos(c.x)*g(other), exp(x)+exp(-x), x_i*x_j*g + a*x_k**2) evaluated on batches of 1-4 rows (also 2 batch axes) "
        "in which EVERY row has those variables exactly 0.0, so the first gradient vanishes exactly over the whole batch "
        "while second derivatives do not (laplacian all modes, partial orders 2-4, div(grad), jac(grad), and the "
        "first-order operators). Row independence: the call is repeated with the other rows permuted / dropped / "
        "replaced and with 1-3 fresh (non-stationary) rows appended. A case is non-trivial when every row of the "
        "result was compared with the validated "
        "analytic value; distinct = (operator, laplacian mode, dims of the derivative variables in call order, "
        "presence of other variables, partial order, batch rank, dtype, strongest dependence template of the field).")
RULE += '; every fifth case calls the operator, scales the field tensor in place and calls the operator again on the same tensor object'
REQUIRED_REACH = ["grad", "laplacian", "div", "jac", "rot", "partial", "normal_derivative", "convective",
                  "sym_grad", "matrix_div"]
MIN_NONTRIVIAL = 60
ASSUMPTIONS = [
    "evaluation points in [-1,1]^d, constants k/4 with |k|<=8, no node of an expression exceeds magnitude 8 "
    "(exp arguments <= 2): the claim is for this conditioning regime",
    "tolerance 2e-4 (float32) / 1e-9 (float64) relative to the magnitude of the terms of the analytic "
    "derivative (sum of |terms|, first-order propagated through sin/cos/tanh/exp) plus 1e-2",
    "row independence judged with 1e-6 (float32) / 1e-12 (float64) relative to the same magnitude",
    "documented exclusions not generated: jac/rot/convective/sym_grad/matrix_div with more than one batch axis, "
    "partial with multi-dimensional variables; the identity function passed as the leaf tensor itself "
    "(no tensor operation) is not generated",
    "float32 inputs are rounded first and the float64 reference is evaluated at the rounded points",
]
CASE_TIMEOUT = 120

OPS = ["grad", "laplacian", "div", "jac", "rot", "partial", "normal_derivative", "convective", "sym_grad",
       "matrix_div"]
COMPOSITE_OPS = ["div_grad", "jac_grad"]          # div(grad(u, *v), *v) and jac(grad(u, *v), *v)
MULTI_BATCH_OPS = ("grad", "laplacian", "div", "partial", "normal_derivative", "div_grad")
NAMES = ["x", "t", "y", "p", "w"]
RTOL = {"float32": 2e-4, "float64": 1e-9}
RI_TOL = {"float32": 1e-6, "float64": 1e-12}
FLOOR = 1e-2


def warmup():
    """Heavy imports and first-use costs (sympy, lambdify, autograd) before any per-case watchdog is armed."""
    import sympy as sp
    from torchphysics.utils import differentialoperators  # noqa: F401
    ref = X.Reference([("x", 1)])
    i = ref.add_base(["sin", ["mul", ["v", "x", 0], ["v", "x", 0]]])
    ref.d(ref.d(i, ("x", 0)), ("x", 0))
    ref.compile()
    ref.validate({("x", 0): np.linspace(-1.0, 1.0, 5)})
    x = torch.ones(2, 1, requires_grad=True)
    torch.autograd.grad((x * x).sum(), x, create_graph=True)


# ---------------------------------------------------------------------------------------------
# workload
# ---------------------------------------------------------------------------------------------

def _templates(rng, n, has_other, n_dvars):
    """dependence template for each of n components."""
    base = ["generic"] * 5 + ["lin_coef"] * 2 + ["lin_const", "separable", "product", "bilinear", "constant"]
    if has_other:
        base += ["const_in"] * 3 + ["lin_coef"]
    if n_dvars > 1:
        base += ["one_var"] * 2
    return [str(rng.choice(base)) for _ in range(n)]


def _gen_one(rng, op, tier, i, stationary=False):
    deep = tier != "quick"
    names = list(rng.permutation(NAMES)[:3])
    nvars = int(rng.choice([1, 2, 3], p=[0.25, 0.4, 0.35]))
    dims = [int(rng.integers(1, 4)) for _ in range(nvars)]
    order = None
    if op == "partial":
        order = int(rng.choice([1, 2, 3, 4], p=[0.3, 0.35, 0.2, 0.15]))
        if stationary:
            order = int(rng.choice([2, 3, 4], p=[0.6, 0.25, 0.15]))
        k1 = int(rng.integers(1, nvars + 1))           # at least one one-dimensional variable
        for j in rng.permutation(nvars)[:k1]:
            dims[int(j)] = 1
    if op == "rot":
        split = [[3], [3], [3], [2, 1], [1, 2], [1, 1, 1]][int(rng.integers(6))]
        nvars = max(nvars, len(split))
        dims = split + [int(rng.integers(1, 4)) for _ in range(nvars - len(split))]
    vars_ = [[str(names[j]), dims[j], True] for j in range(nvars)]
    if op == "partial":
        ones = [v[0] for v in vars_ if v[1] == 1]
        deriv = [str(rng.choice(ones)) for _ in range(order)]
    elif op == "rot":
        deriv = [vars_[j][0] for j in range(len(split))]
    else:
        k = nvars if rng.random() < 0.45 else int(rng.integers(1, nvars + 1))
        deriv = [vars_[int(j)][0] for j in rng.permutation(nvars)[:k]]
        if op in ("sym_grad", "matrix_div") and rng.random() < 0.5:
            # keep the total dimension moderate for the matrix valued operators
            while sum(v[1] for v in vars_ if v[0] in deriv) > 5 and len(deriv) > 1:
                deriv.pop()
    for v in vars_:
        if v[0] not in deriv and rng.random() < 0.3:
            v[2] = False                                # a parameter-like input without requires_grad
    dorder = []                                         # derivative variables, in call order, no repetition
    for n in deriv:
        if n not in dorder:
            dorder.append(n)
    dim_of = {v[0]: v[1] for v in vars_}
    groups = [[[n, j] for j in range(dim_of[n])] for n in dorder]
    dleaves = [l for g in groups for l in g]
    oleaves = [[v[0], j] for v in vars_ if v[0] not in dorder for j in range(v[1])]
    ntot = len(dleaves) if op != "partial" else 1
    stat = []
    if stationary:
        # variables whose coordinates are exactly 0.0 in EVERY row; the field is even in them
        stat = list(dorder) if rng.random() < 0.3 else [dorder[int(rng.integers(len(dorder)))]]
        if op == "partial" and rng.random() < 0.7:
            deriv[0] = deriv[1] = stat[0]            # second derivative w.r.t. the stationary variable first
            stat = [n for n in stat if n in deriv]
    if op in ("grad", "laplacian", "partial", "normal_derivative", "div_grad", "jac_grad"):
        shape = [1, 1]
    elif op in ("div", "sym_grad"):
        shape = [1, ntot]
    elif op == "rot":
        shape = [1, 3]
    elif op in ("jac", "convective"):
        shape = [1, int(rng.integers(1, 4))]
    else:
        shape = [int(rng.integers(1, 4)), ntot]
    ncomp = shape[0] * shape[1]
    maxdepth = 4 if (deep or rng.random() < 0.35) else 3
    if op == "partial" and order >= 3:
        maxdepth = 3
    if ncomp > 4:
        maxdepth = min(maxdepth, 3)
    comps = []
    if stationary:
        sleaves = [l for l in dleaves if l[0] in stat]
        rest = [l for l in dleaves if l[0] not in stat] + oleaves
        tmpl = [str(rng.choice(X.EVEN_TEMPLATES)) for _ in range(ncomp)]
        for tname in tmpl:
            comps.append(X.gen_even_component(rng, tname, sleaves, rest, int(rng.integers(2, min(maxdepth, 3) + 1))))
    else:
        tmpl = _templates(rng, ncomp, bool(oleaves), len(dorder))
        for tname in tmpl:
            depth = int(rng.integers(2, maxdepth + 1))
            comps.append(X.gen_component(rng, tname, dleaves, oleaves, depth, groups))
    if stationary:
        if op in MULTI_BATCH_OPS and rng.random() < 0.25:
            batch = [int(rng.integers(1, 3)), int(rng.integers(1, 3))]
        else:
            batch = [int(rng.choice([1, 1, 2, 3, 4]))]
    elif op in MULTI_BATCH_OPS and rng.random() < 0.35:
        batch = [int(rng.integers(1, 5)), int(rng.integers(1, 5))]
    else:
        batch = [int(rng.choice([1, 2, 3, 4, 5, 6, 7, 9, 12]))]
    c = {"op": op, "vars": vars_, "deriv": deriv, "batch": batch,
         "dtype": "float32" if rng.random() < 0.5 else "float64",
         "shape": shape, "field": comps, "templates": tmpl, "seed": int(rng.integers(0, 2 ** 31))}
    c["layout"] = "view" if rng.random() < 0.3 else "own"   # "view": variables are column slices of one tensor
    if op == "laplacian":
        c["mode"] = str(rng.choice(["plain", "grad=", "grad=autograd"], p=[0.45, 0.35, 0.2]))
    if stat:
        c["stationary"] = stat
    return c


def gen_cases(seed, tier):
    rng = np.random.default_rng([seed, 3])
    n = 640 if tier == "quick" else 20000
    weights = {"grad": 1.2, "laplacian": 2.0, "div": 1.3, "jac": 1.0, "rot": 0.8, "partial": 1.6,
               "normal_derivative": 0.7, "convective": 0.7, "sym_grad": 0.7, "matrix_div": 0.8}
    w = np.array([weights[o] for o in OPS])
    w = w / w.sum()
    cases = []
    for i in range(n):
        op = OPS[i % len(OPS)] if i < 3 * len(OPS) else str(rng.choice(OPS, p=w))
        cases.append(_gen_one(rng, op, tier, i))
        if i % 5 == 3:
            # history on one tensor object: operator(u), u changed in place, operator(u) again (all operators are linear in u)
            cases[-1]["history"] = [-1.75, 0.5, 2.5][i % 3]
    # composed second-order calls: div(grad(u, ..), ..) and jac(grad(u, ..), ..)
    rng2 = np.random.default_rng([seed, 3, 1])
    for i in range(40 if tier == "quick" else 1000):
        cases.append(_gen_one(rng2, COMPOSITE_OPS[i % 2], tier, i))
    # stationary batches: ALL rows exactly at a stationary point of the field in the chosen variable(s)
    rng3 = np.random.default_rng([seed, 3, 2])
    sops = ["laplacian"] * 8 + ["partial"] * 4 + ["div_grad"] * 2 + ["jac_grad"] * 2 + \
           ["grad", "div", "jac", "normal_derivative", "sym_grad", "convective", "matrix_div", "rot"]
    for i in range(160 if tier == "quick" else 4000):
        op = sops[i % len(sops)] if i < len(sops) else str(rng3.choice(sops))
        cases.append(_gen_one(rng3, op, tier, i, stationary=True))
    return cases


# ---------------------------------------------------------------------------------------------
# one case
# ---------------------------------------------------------------------------------------------

def _cls(c):
    dim_of = {v[0]: v[1] for v in c["vars"]}
    dd = "".join(str(dim_of[n]) for n in c["deriv"])
    other = sum(1 for v in c["vars"] if v[0] not in c["deriv"])
    order = len(c["deriv"]) if c["op"] == "partial" else 0
    dep = _zero_class(c)
    if c.get("stationary"):
        dep = "stationary%d of %d, %s" % (len(c["stationary"]), len(set(c["deriv"])),
                                          "1row" if int(np.prod(c["batch"])) == 1 else "rows")
    return "%s/%s/d%s+%d/o%d/b%d/%s/%s" % (c["op"], c.get("mode", "-"), dd if not order else "1" * len(set(c["deriv"])),
                                            min(other, 1), order, len(c["batch"]), c["dtype"][-2:], dep)


def _points(c, rng, batch):
    P = {v[0]: rng.uniform(-1.0, 1.0, size=(*batch, v[1])) for v in c["vars"]}
    for name in c.get("stationary", []):             # every row exactly at the stationary point
        P[name] = np.zeros_like(P[name])
    return P


def _round(P, dtype):
    if dtype == "float32":
        return {k: v.astype(np.float32).astype(np.float64) for k, v in P.items()}
    return P


def _flat(P, c):
    return {(v[0], j): np.ascontiguousarray(P[v[0]][..., j].reshape(-1)) for v in c["vars"] for j in range(v[1])}


def _build_reference(c):
    """Registers everything the operator of this case needs; returns (ref, plan)."""
    ref = X.Reference([(v[0], v[1]) for v in c["vars"]])
    dim_of = {v[0]: v[1] for v in c["vars"]}
    S = [(n, j) for n in c["deriv"] for j in range(dim_of[n])]        # flat derivative symbols in call order
    m, n = c["shape"]
    F = [[ref.add_base(c["field"][a * n + b]) for b in range(n)] for a in range(m)]
    op = c["op"]
    plan = {"S": S, "F": F}
    if op in ("grad", "normal_derivative"):
        plan["G"] = [ref.d(F[0][0], s) for s in S]
    elif op in ("laplacian", "div_grad"):
        plan["G"] = [ref.d(F[0][0], s) for s in S]
        plan["H"] = [ref.d(g, s) for g, s in zip(plan["G"], S)]
    elif op == "jac_grad":
        plan["G"] = [ref.d(F[0][0], s) for s in S]
        plan["J"] = [[ref.d(g, s) for s in S] for g in plan["G"]]          # Hessian
    elif op == "div":
        plan["D"] = [ref.d(F[0][k], S[k]) for k in range(len(S))]
    elif op in ("jac", "rot", "convective", "sym_grad"):
        plan["J"] = [[ref.d(F[0][a], s) for s in S] for a in range(n)]
    elif op == "matrix_div":
        plan["D"] = [[ref.d(F[a][k], S[k]) for k in range(len(S))] for a in range(m)]
    elif op == "partial":
        chain = [F[0][0]]
        for nme in c["deriv"]:
            chain.append(ref.d(chain[-1], (nme, 0)))
        plan["chain"] = chain
    ref.compile()
    return ref, plan


def _expected(c, plan, vals, majs, extra):
    """(expected, magnitude) as arrays (N, *result_shape_without_batch)."""
    op = c["op"]
    V = lambda idx: vals[idx]
    M = lambda idx: majs[idx]
    if op == "grad":
        return np.stack([V(g) for g in plan["G"]], -1), np.stack([M(g) for g in plan["G"]], -1)
    if op == "normal_derivative":
        nrm = extra["normals"]                                        # (N, n)
        e = sum(V(g) * nrm[:, k] for k, g in enumerate(plan["G"]))
        mg = sum(M(g) * np.abs(nrm[:, k]) for k, g in enumerate(plan["G"]))
        return e[:, None], mg[:, None]
    if op in ("laplacian", "div_grad"):
        return sum(V(h) for h in plan["H"])[:, None], sum(M(h) for h in plan["H"])[:, None]
    if op == "div":
        return sum(V(d) for d in plan["D"])[:, None], sum(M(d) for d in plan["D"])[:, None]
    if op == "partial":
        return V(plan["chain"][-1])[:, None], M(plan["chain"][-1])[:, None]
    if op == "matrix_div":
        e = np.stack([sum(V(d) for d in row) for row in plan["D"]], -1)
        mg = np.stack([sum(M(d) for d in row) for row in plan["D"]], -1)
        return e, mg
    J = np.stack([np.stack([V(j) for j in row], -1) for row in plan["J"]], -2)      # (N, m, n)
    JM = np.stack([np.stack([M(j) for j in row], -1) for row in plan["J"]], -2)
    if op in ("jac", "jac_grad"):
        return J, JM
    if op == "sym_grad":
        return 0.5 * (J + np.swapaxes(J, 1, 2)), 0.5 * (JM + np.swapaxes(JM, 1, 2))
    if op == "convective":
        v = extra["conv"]                                             # (N, n)
        return np.einsum("bmn,bn->bm", J, v), np.einsum("bmn,bn->bm", JM, np.abs(v))
    if op == "rot":
        e = np.stack([J[:, 2, 1] - J[:, 1, 2], J[:, 0, 2] - J[:, 2, 0], J[:, 1, 0] - J[:, 0, 1]], -1)
        mg = np.stack([JM[:, 2, 1] + JM[:, 1, 2], JM[:, 0, 2] + JM[:, 2, 0], JM[:, 1, 0] + JM[:, 0, 1]], -1)
        return e, mg
    raise AssertionError(op)


def _call(c, P, extra, batch, no_history=False):
    """Builds fresh leaf tensors and the field with torch operations and calls the real operator.
    Returns (result tensor, forward field as numpy float64)."""
    from torchphysics.utils import differentialoperators as D
    dt = torch.float32 if c["dtype"] == "float32" else torch.float64
    env = {}
    if c.get("layout") == "view":
        # the way the library itself hands variables to user code (Points.track_coord_gradients): column
        # slices of one point tensor, each made a leaf that requires grad
        big = torch.tensor(np.concatenate([P[v[0]] for v in c["vars"]], axis=-1), dtype=dt)
        col = 0
        for v in c["vars"]:
            tns = big[..., col:col + v[1]]
            col += v[1]
            if v[2]:
                tns.requires_grad = True
            env[v[0]] = tns
    else:
        for v in c["vars"]:
            tns = torch.tensor(P[v[0]], dtype=dt)
            if v[2]:
                tns.requires_grad_(True)
            env[v[0]] = tns
    like = env[c["vars"][0][0]]
    m, n = c["shape"]
    comps = [X.eval_torch(t, env, like) for t in c["field"]]
    op = c["op"]
    if op == "matrix_div":
        u = torch.stack([torch.cat(comps[a * n:(a + 1) * n], dim=-1) for a in range(m)], dim=-2)
    elif n == 1:
        u = comps[0]
    else:
        u = torch.cat(comps, dim=-1)
    dv = [env[nme] for nme in c["deriv"]]
    fwd = u.detach().clone().to(torch.float64).numpy()
    hist = bool(c.get("history")) and c.get("mode", "-") == "-" and not no_history
    if hist:
        u = u * 1.0                  # a tensor whose in-place change autograd permits (tanh etc. need their own output)
    out = _apply(c, D, u, dv, extra, batch, dt)
    if hist:
        a = float(c["history"])
        u.mul_(a)                    # the same tensor object now holds a * u
        out = (out, _apply(c, D, u, dv, extra, batch, dt) / a)
    return out, fwd


def _apply(c, D, u, dv, extra, batch, dt):
    op = c["op"]
    if op == "div_grad":
        return D.div(D.grad(u, *dv), *dv)
    if op == "jac_grad":
        return D.jac(D.grad(u, *dv), *dv)
    f = getattr(D, op)
    if op == "laplacian" and c.get("mode") == "grad=":
        g = D.grad(u, *dv)
        out = f(u, *dv, grad=g)
    elif op == "laplacian" and c.get("mode") == "grad=autograd":
        # gradient "computed somewhere else": plain autograd, zeros for variables u does not involve
        gs = []
        for xv in dv:
            gi = torch.autograd.grad(u.sum(), xv, create_graph=True, allow_unused=True)[0] if u.requires_grad else None
            gs.append(torch.zeros_like(xv) if gi is None else gi)
        out = f(u, *dv, grad=torch.cat(gs, dim=-1))
    elif op == "normal_derivative":
        out = f(u, torch.tensor(extra["normals"].reshape(*batch, -1), dtype=dt), *dv)
    elif op == "convective":
        out = f(u, torch.tensor(extra["conv"].reshape(*batch, -1), dtype=dt), *dv)
    else:
        out = f(u, *dv)
    return out


def _zero_class(c):
    """why (part of) the expected value is structurally zero -- used as mechanism key."""
    t = set(c["templates"])
    for k in ("constant", "const_in", "lin_const", "lin_coef", "bilinear", "one_var"):
        if k in t:
            return k
    return "generic"


def run_case(c):
    res = {"cls": _cls(c), "judged": 0, "nontrivial": False, "viol": [], "counters": {}}
    cnt = res["counters"]
    op = c["op"]
    rng = np.random.default_rng(c["seed"])
    torch.manual_seed(c["seed"])
    batch = tuple(c["batch"])
    N = int(np.prod(batch))
    dim_of = {v[0]: v[1] for v in c["vars"]}
    ntot = sum(dim_of[nme] for nme in c["deriv"])
    mech = {"op": op, "mode": c.get("mode", "-"), "layout": c.get("layout", "own"),
            "n_deriv_vars": len(c["deriv"]), "batch_rank": len(batch), "stationary_batch": bool(c.get("stationary")),
            "dtype": c["dtype"], "dependence": _zero_class(c),
            "deriv_dims": "".join(str(dim_of[nme]) for nme in c["deriv"])}

    P = _round(_points(c, rng, batch), c["dtype"])
    extra = {}
    if op == "normal_derivative":
        nr = rng.normal(size=(N, ntot))
        nr = nr / np.linalg.norm(nr, axis=1, keepdims=True)
        extra["normals"] = _round({"n": nr}, c["dtype"])["n"]
    if op == "convective":
        extra["conv"] = _round({"v": rng.uniform(-1.5, 1.5, size=(N, ntot))}, c["dtype"])["v"]

    # ---- reference (sympy, validated by finite differences) -------------------------------
    ref, plan = _build_reference(c)
    vals, majs = ref.validate(_flat(P, c))
    exp, mag = _expected(c, plan, vals, majs, extra)
    cnt["fd_relations_validated"] = ref.stats["fd_relations"]
    cnt["sympy_expressions"] = ref.stats["exprs"]
    res["fd_max_ratio"] = ref.stats["fd_max_ratio"]
    m, n = c["shape"]
    fexp = np.stack([vals[plan["F"][a][b]] for a in range(m) for b in range(n)], -1)
    fmag = np.stack([majs[plan["F"][a][b]] for a in range(m) for b in range(n)], -1)
    tail = exp.shape[1:]
    want_shape = (*batch, *tail)

    # ---- the real call ----------------------------------------------------------------------
    cnt["calls_" + op] = 1
    try:
        out, fwd = _call(c, P, extra, batch)
    except Exception as e:
        res["viol"].append(viol("exception", "%s(%s) raised %r for field %s" % (
            op, ",".join(c["deriv"]), e, c["field"]), site=exc_site(e), exc=type(e).__name__, **mech))
        return res
    out_again = None
    if isinstance(out, tuple):
        out, out_again = out
    # the torch function must be the same function as the reference's (else the harness is wrong)
    ferr = np.abs(fwd.reshape(N, -1) - fexp)
    if not np.all(ferr <= 50 * RTOL[c["dtype"]] * (fmag + FLOOR)):
        raise Inconclusive("torch evaluation of the generated function differs from the reference evaluation")
    if not isinstance(out, torch.Tensor):
        res["viol"].append(viol("type", "%s returned %s" % (op, type(out).__name__), **mech))
        return res
    if tuple(out.shape) != want_shape:
        res["viol"].append(viol("shape", "%s(%s): result shape %s, expected %s (batch %s)" % (
            op, ",".join(c["deriv"]), tuple(out.shape), want_shape, batch), **mech))
        return res
    if str(out.dtype) != "torch." + c["dtype"]:
        res["viol"].append(viol("dtype", "%s: inputs %s, result %s" % (op, c["dtype"], out.dtype), **mech))
    got = out.detach().to(torch.float64).numpy().reshape(N, *tail)
    tol = RTOL[c["dtype"]] * (mag + FLOOR)
    err = np.abs(got - exp)
    bad = ~(err <= tol)                     # catches NaN as well
    res["judged"] += int(err.size)
    cnt["values_compared"] = int(err.size)
    cnt["rows_compared"] = N
    cnt["expected_zero_entries"] = int(np.sum(exp == 0.0))
    cnt["expected_nonzero_entries"] = int(np.sum(exp != 0.0))
    res["max_err_over_tol"] = float(np.max(np.where(np.isfinite(err), err, np.inf) / tol)) if err.size else 0.0
    if bad.any():
        idx = np.unravel_index(int(np.argmax(np.where(np.isnan(err), np.inf, err / tol))), err.shape)
        res["viol"].append(viol(
            "value", "%s(%s) row %d entry %s: got %.9g, analytic %.9g (|diff| %.3g > tol %.3g); %d of %d entries off; "
            "batch %s %s; field %s" % (op, ",".join(c["deriv"]), idx[0], list(idx[1:]), got[idx], exp[idx],
                                      err[idx], tol[idx], int(bad.sum()), err.size, batch, c["dtype"], c["field"]),
            **mech))
    _count_branches(c, cnt, exp)
    if out_again is not None and isinstance(out_again, torch.Tensor) and tuple(out_again.shape) == want_shape:
        got2 = out_again.detach().to(torch.float64).numpy().reshape(N, *tail)
        err2 = np.abs(got2 - exp)
        bad2 = ~(err2 <= 2 * tol)
        res["judged"] += int(err2.size)
        cnt["history_second_calls"] = 1
        if bad2.any():
            idx = np.unravel_index(int(np.argmax(np.where(np.isnan(err2), np.inf, err2 / tol))), err2.shape)
            res["viol"].append(viol(
                "value_after_inplace_change", "%s(%s) called again after u was scaled in place by %g: row %d entry %s: got %.9g / %g, "
                "analytic %.9g; %d of %d entries off; field %s" % (op, ",".join(c["deriv"]), c["history"], idx[0], list(idx[1:]),
                                                                  got2[idx] * c["history"], c["history"], exp[idx], int(bad2.sum()), err2.size,
                                                                  c["field"]), history=True, **mech))
    elif out_again is not None:
        res["viol"].append(viol("shape", "%s called again after an in-place change of u returned %s" % (
            op, tuple(out_again.shape) if hasattr(out_again, "shape") else type(out_again).__name__), history=True, **mech))

    # ---- row independence -------------------------------------------------------------------
    # (also when the values are off: a result that depends on the other rows is a separate observation)
    _row_independence(c, rng, P, extra, batch, got, mag, res, mech)
    res["nontrivial"] = res["judged"] >= 1 and not bad.any()
    return res


def _count_branches(c, cnt, exp):
    t = set(c["templates"])
    if c["op"] == "laplacian" and t <= {"lin_const", "constant", "const_in"}:
        cnt["laplacian_gradient_without_graph_cases"] = 1
    if c["op"] == "laplacian" and t & {"lin_coef", "bilinear"}:
        cnt["laplacian_linear_with_variable_coefficient_cases"] = 1
    if c["op"] == "partial" and t <= {"lin_const", "constant"}:
        cnt["partial_early_return_cases"] = 1
    if t & {"const_in", "constant", "one_var"}:
        cnt["cases_with_unused_derivative_variable"] = 1
    if len(c["deriv"]) > 1:
        cnt["cases_with_several_derivative_variables"] = 1
    if len(c["batch"]) > 1:
        cnt["cases_with_two_batch_axes"] = 1
    if c.get("layout") == "view":
        cnt["cases_with_variables_as_column_views"] = 1
    if c.get("mode", "-").startswith("grad="):
        cnt["laplacian_calls_with_grad_argument"] = 1
    if np.all(exp == 0.0):
        cnt["cases_with_identically_zero_result"] = 1
    if c.get("stationary"):
        cnt["stationary_batch_cases"] = 1
        cnt["stationary_batch_cases_" + c["op"]] = 1
        if int(np.prod(c["batch"])) == 1:
            cnt["stationary_batch_single_row_cases"] = 1
        second = c["op"] in ("laplacian", "div_grad", "jac_grad") or (c["op"] == "partial" and len(c["deriv"]) >= 2)
        if second and np.any(exp != 0.0):
            cnt["stationary_batch_cases_with_nonzero_second_derivative"] = 1


def _row_independence(c, rng, P, extra, batch, got, mag, res, mech):
    """Repeat the call on batches whose other rows are permuted / dropped / replaced / joined by new rows."""
    N = int(np.prod(batch))
    cnt = res["counters"]
    tail = got.shape[1:]
    rtol = RI_TOL[c["dtype"]]

    def flat_rows(A):      # (..batch.., d) -> (N, d)
        return A.reshape(N, A.shape[-1])

    variants = []
    # permutation of all rows
    if N > 1:
        perm = rng.permutation(N)
        Pp = {k: flat_rows(v)[perm].reshape(v.shape) for k, v in P.items()}
        Ep = {k: v[perm] for k, v in extra.items()}
        variants.append(("permuted", Pp, Ep, batch, perm, np.arange(N)))
    # drop: keep a sub-block of the batch
    if N > 1:
        keep_axes = []
        for b in batch:
            k = int(rng.integers(1, b + 1))
            keep_axes.append(np.sort(rng.permutation(b)[:k]))
        if all(len(k) == b for k, b in zip(keep_axes, batch)):     # nothing dropped yet: drop one index
            ax = int(np.argmax(batch))
            keep_axes[ax] = np.delete(keep_axes[ax], int(rng.integers(batch[ax])))
        if True:
            grid = np.arange(N).reshape(batch)[np.ix_(*keep_axes)]
            src = grid.reshape(-1)
            nb = tuple(len(k) for k in keep_axes)
            Pd = {k: flat_rows(v)[src].reshape(*nb, v.shape[-1]) for k, v in P.items()}
            Ed = {k: v[src] for k, v in extra.items()}
            variants.append(("dropped", Pd, Ed, nb, src, np.arange(len(src))))
    # replace: all rows but a retained subset get fresh values
    if N > 1:
        k = int(rng.integers(1, N))
        keep = np.sort(rng.permutation(N)[:k])
        mask = np.zeros(N, bool)
        mask[keep] = True
        Pr = {}
        for name, v in P.items():
            fresh = _round({"a": rng.uniform(-1.0, 1.0, size=(N, v.shape[-1]))}, c["dtype"])["a"]
            Pr[name] = np.where(mask[:, None], flat_rows(v), fresh).reshape(v.shape)
        Er = {}
        for name, v in extra.items():
            fresh = _round({"a": rng.uniform(-1.0, 1.0, size=v.shape)}, c["dtype"])["a"]
            Er[name] = np.where(mask[:, None], v, fresh)
        variants.append(("replaced", Pr, Er, batch, keep, keep))
    # augment: the same rows inside a larger batch (extra rows with fresh, non-stationary values appended)
    k = int(rng.integers(1, 4))
    nb = (batch[0] + k, *batch[1:])
    nextra = k * int(np.prod(batch[1:]))
    Pa = {}
    for name, v in P.items():
        fresh = _round({"a": rng.uniform(-1.0, 1.0, size=(k, *v.shape[1:]))}, c["dtype"])["a"]
        Pa[name] = np.concatenate([v, fresh], axis=0)
    Ea = {}
    for name, v in extra.items():
        fresh = _round({"a": rng.uniform(-1.0, 1.0, size=(nextra, v.shape[1]))}, c["dtype"])["a"]
        Ea[name] = np.concatenate([v, fresh], axis=0)
    variants.append(("augmented", Pa, Ea, nb, np.arange(N), np.arange(N)))
    for (what, P2, E2, b2, src, dst) in variants:
        try:
            out2, _ = _call(c, P2, E2, b2, no_history=True)
        except Exception as e:
            res["viol"].append(viol("exception", "%s on the batch with other rows %s raised %r" % (c["op"], what, e),
                                    site=exc_site(e), exc=type(e).__name__, variant=what, **mech))
            continue
        N2 = int(np.prod(b2))
        if tuple(out2.shape) != (*b2, *tail):
            res["viol"].append(viol("shape", "%s on the batch with other rows %s: shape %s, expected %s" % (
                c["op"], what, tuple(out2.shape), (*b2, *tail)), variant=what, **mech))
            continue
        g2 = out2.detach().to(torch.float64).numpy().reshape(N2, *tail)
        a = got[src]
        b = g2[dst]
        tol = rtol * (mag[src] + FLOOR)
        d = np.abs(a - b)
        res["judged"] += int(d.size)
        cnt["row_independence_values_" + what] = int(d.size)
        cnt["row_independence_calls"] = cnt.get("row_independence_calls", 0) + 1
        ratio = float(np.max(d / tol)) if d.size else 0.0
        res["ri_max_ratio"] = max(res.get("ri_max_ratio", 0.0), ratio if np.isfinite(ratio) else 1e300)
        if not np.all(d <= tol):
            idx = np.unravel_index(int(np.argmax(np.where(np.isnan(d), np.inf, d / tol))), d.shape)
            res["viol"].append(viol(
                "row_dependence", "%s(%s): result of retained row %d changed from %.12g to %.12g when the other rows "
                "were %s (batch %s, %s)" % (c["op"], ",".join(c["deriv"]), int(src[idx[0]]), a[idx], b[idx], what,
                                           batch, c["dtype"]), variant=what, **mech))


def sample_of(case, r):
    return {"case": case, "class": r.get("cls"), "values_judged": r.get("judged"), "status": r.get("status"),
            "max_err_over_tol": r.get("max_err_over_tol"), "fd_max_ratio": r.get("fd_max_ratio")}


def extra_coverage(results):
    def mx(key):
        v = [r.get(key) for r in results if isinstance(r.get(key), (int, float))]
        return max(v) if v else None
    return {"max_error_over_tolerance": mx("max_err_over_tol"),
            "max_row_independence_difference_over_tolerance": mx("ri_max_ratio"),
            "max_finite_difference_disagreement_over_tolerance": mx("fd_max_ratio")}
