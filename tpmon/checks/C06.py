"""C06 -- boundary normals are finite outward unit vectors.

Post-condition on BoundaryDomain.normal at the library's own boundary samples (random and grid), after the
C01 oracle confirmed that a sample lies on the true boundary: the normal is finite, has unit length, a step
eps along it leaves the twin set and a step against it enters; away from corners / other boundary pieces it
also agrees with the gradient of the twin's level function.
"""
import copy
import numpy as np

from .. import geo, gen_geo, sampling, probes
from ..core import viol, exc_site

LEVEL = "exploration"
RULE = ("generated primitives (interval, circle, sphere, parallelogram in both vertex orientations, counter-clockwise "
        "triangle, polygon in both vertex orders) and nested unions / cuts / intersections (depth <= 2 quick, 3 thorough), "
        "constant and parameter dependent with k <= 5 rows; normals queried at the library's own random and grid boundary "
        "samples; non-trivial = at least 10 rows passed the step test oracle; distinct = (expression shape, k class, "
        "parameter dependence, sampler kind)")
RULE += '; a fifth of the cases at length scales 0.01 / 0.05 / 30 / 300; normals re-queried with the columns stored differently (another variable / the parameters in front of or behind the coordinates)'
RULE += '; an eighth of the cases make one normal() call with 1100-5000 rows (forced constant polyhedra with 1100-2500 rows); polygons of size ~1 at coordinates of 100-1000 units'
REQUIRED_REACH = ["IntervalSingleBoundaryPoint.normal", "CircleBoundary.normal", "SphereBoundary.normal", "ParallelogramBoundary.normal", "TriangleBoundary.normal",
                  "IntervalBoundary.normal", "ShapelyBoundary.normal", "UnionBoundaryDomain.normal", "CutBoundaryDomain.normal",
                  "IntersectionBoundaryDomain.normal", "TrimeshBoundary.normal"]
MIN_NONTRIVIAL = 30
ASSUMPTIONS = ["triangles are generated with counter-clockwise corners (documented precondition for outward normals)",
               "rows within 4*eps of a corner or 8*eps of another leaf boundary are counted, not judged (step test ambiguous)",
               "eps = 2e-3 L; unit length within 1e-4"]
CASE_TIMEOUT = 150
TOL = 2e-5
SCALES = [0.01, 0.05, 30.0, 300.0]


def fix_triangles(s):
    """make every triangle counter-clockwise (swap c1/c2 when the constant parts are clockwise)"""
    if not isinstance(s, dict):
        return
    if s.get("prim") == "triangle":
        def base(v):
            return np.asarray(v["a"] if isinstance(v, dict) else v, float)
        o, a, b = base(s["origin"]), base(s["c1"]), base(s["c2"])
        if (a[0] - o[0]) * (b[1] - o[1]) - (a[1] - o[1]) * (b[0] - o[0]) < 0:
            s["c1"], s["c2"] = s["c2"], s["c1"]
    for k in ("a", "b", "d"):
        if k in s:
            fix_triangles(s[k])


def gen_cases(seed, tier):
    rng = np.random.default_rng([seed, 6])
    n = 320 if tier == "quick" else 10000
    depth = 2 if tier == "quick" else 3
    cases = []
    while len(cases) < n:
        if len(cases) % 13 == 7:
            # polygon with a hole (several boundary rings), constant
            ctx = gen_geo.Ctx(rng, False, 0, None, 2)
            for _ in range(50):
                sp = gen_geo.prim2d(ctx, rng.uniform(-2, 2, 2), float(rng.uniform(0.5, 1.5)), kinds=("polygon",))
                if sp.get("holes"):
                    break
            kk_ = int(rng.choice([0, 0, 2]))
            cases.append({"spec": sp, "rows": gen_geo.param_rows(rng, kk_), "k": kk_, "seed": int(rng.integers(0, 2 ** 31)),
                          "info": {"kind": "prim", "dim": 2, "dep": False, "relations": ["hole"], "desc": "Gh"}})
            continue
        if len(cases) % 40 == 23:
            # a large polygon (coordinates of a few hundred units), constant: every seed reaches it
            ctx = gen_geo.Ctx(rng, False, 0, None, 2)
            sp = geo.scale_spec(gen_geo.prim2d(ctx, rng.uniform(-2, 2, 2), float(rng.uniform(0.5, 1.5)), kinds=("polygon",)),
                                float(rng.choice([30.0, 300.0, 300.0])))
            kk_ = int(rng.choice([0, 0, 2]))
            cases.append({"spec": sp, "rows": gen_geo.param_rows(rng, kk_), "k": kk_, "seed": int(rng.integers(0, 2 ** 31)),
                          "info": {"kind": "prim", "dim": 2, "dep": False, "relations": ["large"], "desc": "G", "scale": 300.0}})
            continue
        if len(cases) % 40 == 31:
            # a constant polyhedron queried with one large call (more rows than typical block sizes of vectorised helpers)
            sp = gen_geo.polyhedron(rng, rng.uniform(-2, 2, 3), float(rng.uniform(0.5, 1.5)))
            cases.append({"spec": sp, "rows": {}, "k": 0, "seed": int(rng.integers(0, 2 ** 31)), "nbig": int(rng.choice([1100, 1500, 2500])),
                          "info": {"kind": "prim", "dim": 3, "dep": False, "relations": ["bigcall"], "desc": "H"}})
            continue
        if len(cases) % 40 == 3:
            # a polygon of size ~1 far from the origin (coordinates of a few hundred units): tolerances relative to the
            # coordinate size must stay well below the size of the shape
            off = float(rng.choice([100.0, 300.0, 1000.0]))
            ctx = gen_geo.Ctx(rng, False, 0, None, 2)
            sp = gen_geo.prim2d(ctx, rng.choice([-1.0, 1.0], 2) * rng.uniform(0.5, 1.0, 2) * off, float(rng.uniform(0.5, 1.5)), kinds=("polygon",))
            cases.append({"spec": sp, "rows": {}, "k": 0, "seed": int(rng.integers(0, 2 ** 31)), "nbig": 600,
                          "info": {"kind": "prim", "dim": 2, "dep": False, "relations": ["offset"], "desc": "G", "offset": off}})
            continue
        if len(cases) % 20 == 11:
            # rectangles with collinear edges (corners of one operand on edges of the other): grid samples on both boundaries
            for _ in range(400):
                dom = gen_geo.gen_domain(rng, max_depth=1, allow=("bool",), dep=False, dim=2, k=int(rng.choice([0, 0, 2])))
                if any(r.endswith(":aligned") for r in dom["info"]["relations"]) and dom["spec"].get("op") in ("isect", "cut", "isect", "union"):
                    break
            cases.append({"spec": dom["spec"], "rows": dom["rows"], "info": dom["info"], "k": dom["k"], "seed": int(rng.integers(0, 2 ** 31))})
            continue
        if len(cases) % 9 == 4:
            dom = gen_geo.flip_parallelogram(rng)
            cases.append({"spec": dom["spec"], "rows": dom["rows"], "info": dom["info"], "k": dom["k"],
                          "seed": int(rng.integers(0, 2 ** 31))})
            continue
        dom = gen_geo.gen_domain(rng, max_depth=int(rng.integers(0, depth + 1)), allow=("bool", "bool", "prim"),
                                 k=int(rng.choice([0, 0, 1, 2, 3, 5])))
        spec = copy.deepcopy(dom["spec"])
        fix_triangles(spec)
        if len(cases) % 5 == 2 and "polyhedron" not in geo.spec_ops(spec):
            # the same shapes at other length scales (small and large domains: relative, not absolute, tolerances)
            S = float(rng.choice(SCALES))
            spec = geo.scale_spec(spec, S)
            dom["info"] = dict(dom["info"], scale=S)
        cases.append({"spec": spec, "rows": dom["rows"], "info": dom["info"], "k": dom["k"],
                      "seed": int(rng.integers(0, 2 ** 31))})
        if len(cases) % 8 == 6 and "polyhedron" not in geo.spec_ops(spec):
            cases[-1]["nbig"] = [1100, 1500, 2500, 5000][(len(cases) // 8) % 4]      # one large call instead of 60 rows
            if dom["k"] > 1:
                cases[-1]["nbig"] = min(cases[-1]["nbig"], 1500)                     # n * k rows: keeps the case inside its time budget
    return cases


def _kcls(k):
    return "k0" if k == 0 else ("k1" if k == 1 else "k+")


def _grad(node, X, env, h):
    d = X.shape[1]
    G = np.zeros_like(X)
    for j in range(d):
        e = np.zeros(d)
        e[j] = h
        G[:, j] = (node.phi(X + e, env) - node.phi(X - e, env)) / (2 * h)
    nrm = np.linalg.norm(G, axis=1, keepdims=True)
    return G / np.maximum(nrm, 1e-30), nrm[:, 0]


def _tangents(g):
    d = g.shape[1]
    if d == 1:
        return []
    if d == 2:
        return [np.stack([-g[:, 1], g[:, 0]], 1)]
    a = np.where(np.abs(g[:, :1]) < 0.9, np.array([[1.0, 0, 0]]), np.array([[0, 1.0, 0]]))
    t1 = np.cross(g, a)
    t1 /= np.maximum(np.linalg.norm(t1, axis=1, keepdims=True), 1e-30)
    t2 = np.cross(g, t1)
    return [t1, t2]


def run_case(case):
    import torch
    info = case["info"]
    res = {"cls": "", "judged": 0, "nontrivial": False, "viol": [], "counters": {}}
    info = dict(info, desc=geo.ref(case["spec"]).desc())
    D, node, Pp, env = sampling.build_case(case)
    bnode = geo.ref({"op": "boundary", "d": case["spec"]})
    k = case["k"]
    kk = max(k, 1)
    shape = "".join(c for c in info["desc"] if not c.isdigit())
    res["cls"] = "%s|%s|%s" % (shape, _kcls(k), "dep" if info["dep"] else "const")
    mech0 = {"root": info["kind"], "dep": bool(info["dep"]), "k": _kcls(k), "bcls": None, "scale": info.get("scale", 1.0), "offset": info.get("offset", 0.0)}
    names_dims = node.space()
    try:
        Db = D.boundary
    except Exception as e:
        res["viol"].append(viol("exception", "boundary of %s raised %r" % (info["desc"], e), site=exc_site(e), **mech0))
        return res
    mech0["bcls"] = type(Db).__name__
    rng = np.random.default_rng(case["seed"])
    _single_sides_and_evaluated(case, D, node, Pp, env, k, info, res, mech0, rng)
    for kind in ("random", "grid"):
        if kind == "grid" and k > 1:
            continue
        mech = dict(mech0, sampler=kind)
        try:
            probes.begin_call()
            own = Db.sample_random_uniform(n=case.get("nbig", 60), params=Pp) if kind == "random" else Db.sample_grid(n=40, params=Pp)
            probes.end_call()
        except Exception as e:
            res["counters"]["boundary_sampling_failed"] = res["counters"].get("boundary_sampling_failed", 0) + 1
            continue
        X = np.concatenate([own.coordinates[n].double().numpy().reshape(len(own), -1) for n, _ in names_dims], 1)
        if len(X) == 0:
            continue
        no = max(1, len(X) // kk)
        idx = np.minimum(np.arange(len(X)) // no, kk - 1)
        envr = {pn: env[pn][idx] for pn in env}
        L = max(geo.char_length(node, envr, len(X)), float(np.abs(X).max()))
        okb, amb = bnode.member(X, envr, TOL * L, L)
        # rows near two leaf boundaries (crossings, corners of one operand on an edge of the other) are boundary points as
        # well unless the operands abut (interior seam): their normals must be finite unit vectors, only the step test
        # below leaves them out
        abut_ = any("abut" in r for r in info.get("relations", []))
        onb = okb & ~amb if abut_ else (okb | (amb & (np.abs(bnode.phi(X, envr)) <= TOL * L)))
        res["counters"]["samples_not_on_boundary"] = res["counters"].get("samples_not_on_boundary", 0) + int((~onb).sum())
        res["counters"]["rows_on_two_leaf_boundaries"] = res["counters"].get("rows_on_two_leaf_boundaries", 0) + int((onb & amb).sum())
        if not onb.any():
            continue
        X, envr = X[onb], {pn: v[onb] for pn, v in envr.items()}
        pts, par = _mk(names_dims, X, envr)
        try:
            nrm = Db.normal(pts, par)
        except Exception as e:
            res["viol"].append(viol("exception", "%s.normal raised %s in %s on %s: %s" % (type(Db).__name__, type(e).__name__, exc_site(e),
                                    info["desc"], str(e)[:300]), exc=type(e).__name__, site=exc_site(e), **mech))
            continue
        res["counters"]["normal_calls"] = res["counters"].get("normal_calls", 0) + 1
        if not isinstance(nrm, torch.Tensor) or tuple(nrm.shape) != (len(X), X.shape[1]):
            res["viol"].append(viol("normal_shape", "%s.normal returned shape %s for %d points in dimension %d" % (type(Db).__name__,
                                    tuple(nrm.shape) if hasattr(nrm, "shape") else type(nrm), len(X), X.shape[1]), **mech))
            continue
        Nn = nrm.detach().double().numpy()
        fin = np.isfinite(Nn).all(1)
        if not fin.all():
            i = int(np.where(~fin)[0][0])
            res["viol"].append(viol("normal_not_finite", "%s.normal: %d of %d normals not finite on %s, e.g. at x=%s params=%s" %
                                    (type(Db).__name__, int((~fin).sum()), len(X), info["desc"], X[i].tolist(),
                                     {pn: v[i].tolist() for pn, v in envr.items()}), **mech))
        ln = np.linalg.norm(Nn, axis=1)
        badlen = fin & (np.abs(ln - 1) > 1e-4)
        if badlen.any():
            i = int(np.where(badlen)[0][0])
            res["viol"].append(viol("normal_not_unit", "%s.normal: %d normals with |n| != 1 (e.g. %.5f at x=%s) on %s" %
                                    (type(Db).__name__, int(badlen.sum()), ln[i], X[i].tolist(), info["desc"]), **mech))
        # the normal must not depend on how the columns of the query are stored: another variable (of a product sampler)
        # or the parameters stored in front of / behind the domain coordinates
        from torchphysics.problem.spaces import Points as _P
        extra = _P.from_coordinates({"q0": torch.tensor(rng.uniform(-1, 1, (len(X), 1)).astype(np.float32))})
        layouts = [("extra_front", extra.join(pts), par), ("extra_behind", pts.join(extra), par)]
        if len(par.space.keys() if hasattr(par.space, "keys") else []) > 0:
            layouts += [("params_front", par.join(pts), _P.empty()), ("params_behind", pts.join(par), _P.empty())]
        for lname, lp, lq in layouts:
            try:
                other = Db.normal(lp, lq).detach().double().numpy()
            except Exception as e:
                res["viol"].append(viol("exception", "%s.normal with the query stored as %s (%s) raised %s in %s: %s" % (type(Db).__name__, lname,
                                        list(lp.space.keys()), type(e).__name__, exc_site(e), str(e)[:200]), exc=type(e).__name__, site=exc_site(e),
                                        layout=lname, **mech))
                continue
            res["counters"]["layout_queries"] = res["counters"].get("layout_queries", 0) + 1
            okr = np.isfinite(Nn).all(1)
            if other.shape != Nn.shape or (np.abs(other - Nn)[okr] > 1e-4).any():
                nb_ = int((np.abs(other - Nn)[okr] > 1e-4).any(1).sum()) if other.shape == Nn.shape else len(X)
                res["viol"].append(viol("normal_depends_on_layout", "%s.normal on %s: %d of %d normals change when the query points are stored as %s "
                                        "(space %s)" % (type(Db).__name__, info["desc"], nb_, len(X), lname, list(lp.space.keys())),
                                        layout=lname, **mech))
        # the normal of a row must not depend on the rest of the batch: single rows and small sub-batches
        diffs = 0
        for sel in [np.array([int(j)]) for j in rng.integers(0, len(X), 12)] + [rng.choice(len(X), size=min(3, len(X)), replace=False) for _ in range(3)]:
            ps, qs = _mk(names_dims, X[sel], {pn: v[sel] for pn, v in envr.items()})
            try:
                sub = Db.normal(ps, qs).detach().double().numpy()
            except Exception as e:
                res["viol"].append(viol("exception", "%s.normal on a sub-batch of %d rows raised %s in %s: %s" % (type(Db).__name__, len(sel),
                                        type(e).__name__, exc_site(e), str(e)[:200]), exc=type(e).__name__, site=exc_site(e), **mech))
                break
            ok_rows = np.isfinite(Nn[sel]).all(1) & np.isfinite(sub).all(1)
            diffs += int((np.abs(sub - Nn[sel])[ok_rows] > 1e-4).any(1).sum())
            res["counters"]["sub_batch_normals"] = res["counters"].get("sub_batch_normals", 0) + len(sel)
        if diffs:
            res["viol"].append(viol("normal_depends_on_batch", "%s.normal on %s: %d rows get a different normal when queried alone / in a small "
                                    "batch than inside the full batch" % (type(Db).__name__, info["desc"], diffs), **mech))
        eps = 2e-3 * L
        if "offset" in info.get("relations", []):
            # a small shape far from the origin: the step is relative to the size of the shape (bounded below by the float32
            # resolution of the coordinates), not to the distance from the origin
            bb_ = node.bbox(envr, len(X))
            size_ = float((bb_[:, 1::2] - bb_[:, 0::2]).max()) if bb_ is not None else L
            eps = max(2e-3 * size_, 64 * float(np.spacing(np.float32(np.abs(X).max()))))
        g, gn = _grad(node, X, envr, eps / 8)
        smooth = gn > 0.5
        for t in _tangents(g):
            for sgn in (1, -1):
                smooth &= np.abs(node.phi(X + sgn * 4 * eps * t, envr)) <= 0.5 * eps
        # a second leaf boundary within 4 eps makes the step test ambiguous
        leaves = np.abs(np.stack(node.leaf_phis(X, envr), 0))
        smooth &= (leaves <= 8 * eps).sum(0) <= 1
        smooth &= node.vertex_dist(X, envr) > 6 * eps          # corners of polygonal leaves (averaged / one-sided normals)
        good = fin & ~badlen
        judge = good & smooth
        res["counters"]["rows_skipped_near_corner"] = res["counters"].get("rows_skipped_near_corner", 0) + int((good & ~smooth).sum())
        if judge.any():
            Xj, Nj = X[judge], Nn[judge]
            ej = {pn: v[judge] for pn, v in envr.items()}
            out_f = node.phi(Xj + eps * Nj, ej)
            in_f = node.phi(Xj - eps * Nj, ej)
            bad = (out_f <= 0) | (in_f >= 0)
            res["judged"] += int(judge.sum())
            res["counters"]["rows_step_tested"] = res["counters"].get("rows_step_tested", 0) + int(judge.sum())
            if bad.any():
                i = int(np.where(bad)[0][0])
                res["viol"].append(viol("normal_not_outward", "%s.normal on %s: %d of %d normals fail the step test, e.g. x=%s n=%s params=%s: "
                                        "level(p+eps n)=%.3g (must be >0), level(p-eps n)=%.3g (must be <0)" %
                                        (type(Db).__name__, info["desc"], int(bad.sum()), int(judge.sum()), Xj[i].tolist(), Nj[i].round(4).tolist(),
                                         {pn: v[i].tolist() for pn, v in ej.items()}, out_f[i], in_f[i]),
                                        frac=round(float(bad.mean()), 2), **mech))
            else:
                cosang = (Nj * g[judge]).sum(1)
                off = cosang < 0.9
                if off.any():
                    i = int(np.where(off)[0][0])
                    res["viol"].append(viol("normal_direction", "%s.normal on %s: %d normals deviate from the twin's outward normal "
                                            "(cos %.4f at x=%s, n=%s, twin %s)" % (type(Db).__name__, info["desc"], int(off.sum()), cosang[i],
                                                                                    Xj[i].tolist(), Nj[i].round(4).tolist(), g[judge][i].round(4).tolist()),
                                            **mech))
    res["nontrivial"] = res["judged"] >= 10
    return res


def _single_sides_and_evaluated(case, D, node, Pp, env, k, info, res, mech0, rng):
    """(a) single end points of intervals: normal -1 at the left, +1 at the right end, also after the boundary object was
    (partially) evaluated with __call__; (b) boundaries evaluated at the values of a parameter row: normals of the evaluated
    boundary object pass the step test against the original expression at those values"""
    import torch
    spec = case["spec"]
    kk = max(k, 1)
    names_dims = node.space()
    if spec.get("prim") == "interval":
        j = int(rng.integers(0, kk))
        vals = {pn: torch.tensor(env[pn][j:j + 1].astype(np.float32)) for pn in env}
        for side, want in (("left", -1.0), ("right", 1.0)):
            for evaluated in (False, True):
                m = dict(mech0, bcls="IntervalSingleBoundaryPoint", side=side, evaluated=evaluated)
                try:
                    Bs = D.boundary_left if side == "left" else D.boundary_right
                    par = Pp
                    if evaluated:
                        Bs = Bs(**vals) if vals else Bs(unused_keyword=torch.tensor([[1.0]]))
                        par = type(Pp).empty() if vals else Pp
                    pts = Bs.sample_random_uniform(n=3, params=par)
                    # parameters repeated per point, as the samplers pass them
                    parr = type(Pp)(torch.repeat_interleave(par.as_tensor, 3, dim=0), par.space) if len(par) else par
                    nr = Bs.normal(pts, parr)
                    nr = np.asarray(nr.detach().double().numpy() if hasattr(nr, "detach") else nr, float).reshape(-1)
                except Exception as e:
                    res["viol"].append(viol("exception", "normal of the %s end of %s (evaluated: %s) raised %s in %s: %s" % (side, info["desc"],
                                            evaluated, type(e).__name__, exc_site(e), str(e)[:200]), exc=type(e).__name__, site=exc_site(e), **m))
                    continue
                res["judged"] += len(nr)
                res["counters"]["single_side_normals"] = res["counters"].get("single_side_normals", 0) + len(nr)
                if len(nr) == 0 or not np.all(np.abs(nr - want) < 1e-6):
                    res["viol"].append(viol("normal_not_outward", "interval %s: normal at the %s end point%s is %s, outward is %+d" %
                                            (info["desc"], side, " after evaluating the boundary with __call__" if evaluated else "",
                                             nr.tolist()[:4], int(want)), **m))
    if env and not isinstance(node, geo.Product):
        j = int(rng.integers(0, kk))
        vals = {pn: torch.tensor(env[pn][j:j + 1].astype(np.float32)) for pn in env}
        m = dict(mech0, evaluated=True)
        try:
            Be = D.boundary(**vals)
            pts = Be.sample_random_uniform(n=40)
            X = np.concatenate([pts.coordinates[n].double().numpy().reshape(len(pts), -1) for n, _ in names_dims], 1)
            nr = Be.normal(pts).detach().double().numpy()
        except Exception as e:
            res["viol"].append(viol("exception", "normal of the evaluated boundary of %s raised %s in %s: %s" % (info["desc"], type(e).__name__,
                                    exc_site(e), str(e)[:200]), exc=type(e).__name__, site=exc_site(e), **m))
            return
        envr = {pn: np.repeat(env[pn][j:j + 1], len(X), 0) for pn in env}
        L = max(geo.char_length(node, envr, len(X)), float(np.abs(X).max()))
        bnode = geo.ref({"op": "boundary", "d": spec})
        okb, amb = bnode.member(X, envr, TOL * L, L)
        eps = 2e-3 * L
        leaves = np.abs(np.stack(node.leaf_phis(X, envr), 0))
        g, gn = _grad(node, X, envr, eps / 8)
        smooth = okb & ~amb & np.isfinite(nr).all(1) & ((leaves <= 8 * eps).sum(0) <= 1) & (gn > 0.5) & (node.vertex_dist(X, envr) > 6 * eps)
        for t in _tangents(g):
            for sgn in (1, -1):
                smooth &= np.abs(node.phi(X + sgn * 4 * eps * t, envr)) <= 0.5 * eps
        if smooth.any():
            Xj, Nj = X[smooth], nr[smooth]
            ej = {pn: v[smooth] for pn, v in envr.items()}
            bad = (node.phi(Xj + eps * Nj, ej) <= 0) | (node.phi(Xj - eps * Nj, ej) >= 0)
            res["judged"] += int(smooth.sum())
            res["counters"]["evaluated_boundary_normals"] = res["counters"].get("evaluated_boundary_normals", 0) + int(smooth.sum())
            if bad.any():
                res["viol"].append(viol("normal_not_outward", "boundary of %s evaluated at %s: %d of %d normals fail the step test" %
                                        (info["desc"], {pn: env[pn][j].tolist() for pn in env}, int(bad.sum()), int(smooth.sum())), **m))


def _mk(names_dims, X, envr):
    import torch
    from torchphysics.problem.spaces import Points
    coords, off = {}, 0
    for n, d in names_dims:
        coords[n] = torch.tensor(X[:, off:off + d].astype(np.float32))
        off += d
    P = Points.from_coordinates(coords)
    Q = Points.from_coordinates({k: torch.tensor(v.astype(np.float32)) for k, v in envr.items()}) if envr else Points.empty()
    return P, Q


def sample_of(case, r):
    return {"spec": case.get("spec"), "rows": case.get("rows"), "class": r.get("cls"), "rows_judged": r.get("judged"),
            "status": r.get("status")}
