"""C01 -- every sampled point lies in the domain it was sampled from.

Post-condition on every return of Domain.sample_random_uniform / sample_grid and PointSampler.sample_points
(random, grid, Gaussian, LHS, adaptive, filtered, static): each returned row is judged by the independent
float64 twin geometry evaluated at the parameter row the point is paired with (sampler level: the row's own
parameter columns; domain level: row i // n).  Interior samples must satisfy phi <= tol, boundary samples
must lie on the true boundary (level set within tol AND two-sided), coordinates must be finite, and the call
must return within its logical progress budget.
"""
import math
import numpy as np

from .. import geo, gen_geo, sampling, probes
from ..core import viol

LEVEL = "exploration"
RULE = ("seeded generator (tpmon.gen_geo) of domain expressions: primitives (interval, circle, sphere, parallelogram, "
        "triangle, polygon) in both vertex orientations, nested + - & with planned disjoint/overlap/contained/abutting "
        "relations, products (first factor depending on the second), translate / rotate (constant and parameter "
        "dependent), each with 0-8 unique parameter rows, x 7-9 sampling calls per expression drawn from "
        "{domain,sampler} x {interior,boundary} x {random,grid,lhs,gauss,adaptive} x {n,density} x filter x static; "
        "non-trivial = at least one returned row was judged by the twin; distinct = (expression shape, call kind, "
        "n class, k class, parameter dependence)")
RULE += '; a sixth of the cases at length scales 0.01 / 0.05 / 30 / 300; polygons with up to three holes; 3-D rotations; adaptive samplers are called a second time with the parameter rows in reverse order (kept rows stay paired with the row they were sampled for)'
REQUIRED_REACH = ["_random_points_if_n_eq_1", "_random_points_inside", "_inside_grid_with_n",
                  "_random_boundary_points_if_n_eq_1", "_random_points_boundary", "_boundary_grid_with_n",
                  "UnionDomain._sample_random_with_n", "UnionDomain._sample_random_with_d",
                  "UnionDomain._sample_grid_with_n", "ProductDomain._sample_uniform_b_points",
                  "Translate._translate_points", "Rotate._rotate_grid", "Triangle._handle_sum_greater_1",
                  "LHSSampler._append_random_points", "GaussianSampler._check_inside_domain",
                  "TrimeshPolyhedron.sample_random_uniform", "TrimeshBoundary.sample_random_uniform", "ShapelyPolygon.sample_random_uniform"]
MIN_NONTRIVIAL = 40
ASSUMPTIONS = ["shapes within the conditioning regime of DESIGN.md 3.1 (features >= 0.05 L, angles >= 40 deg)",
               "tolerance 2e-5 * L (float32 library vs float64 twin), L = max(1, box diameter, max |coordinate|)",
               "documented rejections are not generated (DESIGN.md 2.5)",
               "rows whose boundary status is ambiguous (near-tangential contact of two leaf boundaries) are counted, not judged"]
CASE_TIMEOUT = 150
TOL = 2e-5


def gen_cases(seed, tier):
    cases = sampling.gen_cases(seed, tier, 1, 340, 12000, scales=True)
    rng = np.random.default_rng([seed, 101])
    for c in cases:
        for call in c["calls"]:
            if call["fn"].startswith("adaptive"):
                call["p2"] = "reverse"        # the second call of an adaptive sampler gets the rows in reverse order
        if c["k"] > 1 and c["info"]["dep"] and not c["info"].get("stress") and rng.random() < 0.5:
            # every parameter dependent domain with several rows gets adaptive histories with changing rows
            for fn in ("adaptive_thr", "adaptive_rnd"):
                c["calls"].append({"lvl": "sampler", "target": "interior", "fn": fn, "by": "n",
                                   "n": int(rng.choice([3, 8, 20])), "ratio": float(rng.choice([0.3, 0.5, 0.7])),
                                   "p2": "reverse"})
    # a thin bar crossing a disc / rectangle (cut and union): grid sampling on the boundary by n re-scales its grids, the
    # covered boundary piece is shorter than the spacing of the first grid for many n
    rng2 = np.random.default_rng([seed, 102])
    for i in range(12 if tier == "quick" else 400):
        sc = float(rng2.uniform(0.6, 1.6))
        c = rng2.uniform(-2, 2, 2) * sc
        if i % 3 == 2:
            A = {"prim": "parallelogram", "var": "x", "origin": [float(c[0] - sc), float(c[1] - sc)], "c1": [float(c[0] + sc), float(c[1] - sc)],
                 "c2": [float(c[0] - sc), float(c[1] + sc)]}
        else:
            A = {"prim": "circle", "var": "x", "center": [float(c[0]), float(c[1])], "radius": sc}
        ang = float(rng2.uniform(0, math.pi))
        wdt, ln = sc * float(rng2.uniform(0.08, 0.16)), sc * float(rng2.uniform(2.6, 3.2))
        d1 = ln * np.array([math.cos(ang), math.sin(ang)])
        d2 = wdt * np.array([-math.sin(ang), math.cos(ang)])
        o = c - 0.5 * d1 - 0.5 * d2 + rng2.uniform(-0.2, 0.2, 2) * sc
        B = {"prim": "parallelogram", "var": "x", "origin": [float(o[0]), float(o[1])], "c1": [float((o + d1)[0]), float((o + d1)[1])],
             "c2": [float((o + d2)[0]), float((o + d2)[1])]}
        op = "cut" if i % 2 == 0 else "union"
        spec = {"op": op, "a": A, "b": B}
        kk_ = int(rng2.choice([0, 0, 2]))
        # (domain-level sample_grid with several parameter rows is outside the contract, DESIGN.md 2.5: samplers only)
        calls = [{"lvl": "sampler" if kk_ > 1 else str(rng2.choice(["domain", "sampler"])), "target": "boundary", "fn": "grid", "by": "n", "n": int(n_)}
                 for n_ in rng2.choice(np.arange(5, 61), size=14, replace=False)]
        cases.append({"spec": spec, "rows": gen_geo.param_rows(rng2, kk_), "k": kk_, "calls": calls, "seed": int(rng2.integers(0, 2 ** 31)),
                      "info": {"kind": "bool", "dim": 2, "dep": False, "relations": ["%s:thin_bar" % op], "desc": geo.ref(spec).desc() + "~bar"}})
    # a contained cut whose removed part touches the outer boundary (notch): judged against the polygon the set is
    rng3 = np.random.default_rng([seed, 103])
    for i in range(6 if tier == "quick" else 150):
        spec, poly = gen_geo.notch_cut(rng3)
        kk_ = int(rng3.choice([0, 0, 2]))
        calls = [{"lvl": lv, "target": "boundary", "fn": fn, "by": "n", "n": int(rng3.choice([20, 61, 200]))}
                 for lv in (("sampler",) if kk_ > 1 else ("domain", "sampler")) for fn in ("random", "grid")]
        calls += [{"lvl": "sampler", "target": "interior", "fn": "random", "by": "n", "n": 50}]
        cases.append({"spec": spec, "equiv": poly, "rows": gen_geo.param_rows(rng3, kk_), "k": kk_, "calls": calls, "seed": int(rng3.integers(0, 2 ** 31)),
                      "info": {"kind": "bool", "dim": 2, "dep": False, "relations": ["cut:notch!"], "desc": "(P-P)~notch"}})
    return cases


def _kcls(k):
    return "k0" if k == 0 else ("k1" if k == 1 else "k+")


def judge_obs(o, node, bnode, env, k, info, res):
    """membership oracle for one observation; appends violations to res"""
    call = o.call
    mech = {"lvl": call["lvl"], "target": call["target"], "fn": call["fn"], "by": call["by"],
            "root": info["kind"], "dep": bool(info["dep"]), "k": _kcls(k), "n1": call.get("n") == 1,
            "filter": "filter" in call, "scale": info.get("scale", 1.0)}
    if o.budget:
        res["viol"].append(viol("no_bounded_progress", o.budget, **mech))
        return
    if o.exc is not None:
        res["viol"].append(viol("exception", "%s in %s for call %s on %s: %s" % (type(o.exc).__name__, o.site, call,
                                info["desc"], str(o.exc)[:300]), exc=type(o.exc).__name__, site=o.site, **mech))
        return
    pts = o.points
    res["counters"]["calls_returned"] = res["counters"].get("calls_returned", 0) + 1
    if pts is None or len(pts) == 0:
        res["counters"]["empty_results"] = res["counters"].get("empty_results", 0) + 1
        return
    tnode = node if call["target"] == "interior" else bnode
    X, envrows, problems = sampling.split_result(tnode, pts, env, k, call)
    if X is None:
        res["viol"].append(viol("space", problems[0], **mech))
        return
    if not np.isfinite(X).all():
        bad = int((~np.isfinite(X).all(1)).sum())
        res["viol"].append(viol("non_finite", "%d of %d returned rows are not finite (%s, %s)" % (bad, len(X), call,
                                info["desc"]), **mech))
        fin = np.isfinite(X).all(1)
        X = X[fin]
        envrows = {kk: v[fin] for kk, v in envrows.items()}
        if len(X) == 0:
            return
    N = len(X)
    L = geo.char_length(node, envrows, N) if N else 1.0
    L = max(L, float(np.abs(X).max()) if N else 1.0)
    tol = TOL * L
    ok, amb = tnode.member(X, envrows, tol, L)
    if call["target"] == "boundary" and N and any(r.endswith(":aligned") for r in info.get("relations", [])):
        # operands with collinear edges: where two leaf boundaries coincide the point-set A - B keeps measure-zero pieces
        # (a closed edge of the removed operand leaves a whisker of A behind) whose points ARE boundary points of the set as
        # the library defines it, while the twin judges the regularised set.  The twin cannot classify rows on coincident
        # leaf boundaries (DESIGN 9.2): counted, not judged.  Rows off the level set are judged as before.
        lf_ = np.abs(np.stack(node.leaf_phis(X, envrows), 0))
        co_ = ((lf_ <= tol).sum(0) >= 2) & (np.abs(tnode.phi(X, envrows)) <= tol) & ~ok & ~amb
        res["counters"]["rows_on_coincident_leaf_boundaries"] = res["counters"].get("rows_on_coincident_leaf_boundaries", 0) + int(co_.sum())
        amb = amb | co_
    abut = any("abut" in r for r in info.get("relations", []))
    mech["abut"] = abut
    if abut and call["target"] == "boundary" and amb.any():
        # operands that share an edge exactly (by construction): rows on the level set that are two-sided at no scale
        # lie on the interior seam, they are not ambiguous
        res["viol"].append(viol("seam_point", "%d of %d boundary samples of %s lie on the interior seam of abutting operands "
                                "(call %s), e.g. x=%s" % (int(amb.sum()), len(X), info["desc"], call, np.round(X[np.where(amb)[0][0]], 6).tolist()),
                                frac=round(float(amb.mean()), 3), **mech))
    bad = ~ok & ~amb
    res["judged"] += int((~amb).sum())
    res["counters"]["rows_judged"] = res["counters"].get("rows_judged", 0) + int((~amb).sum())
    res["counters"]["rows_ambiguous"] = res["counters"].get("rows_ambiguous", 0) + int(amb.sum())
    res["counters"]["rows_" + call["target"]] = res["counters"].get("rows_" + call["target"], 0) + N
    if o.extra.get("p2") and info["dep"]:
        res["counters"]["adaptive_rows_after_changed_params"] = res["counters"].get("adaptive_rows_after_changed_params", 0) + N
    if bad.any():
        f = tnode.phi(X, envrows)
        i = int(np.argmax(np.where(bad, np.abs(f), -1)))
        onlevel = bool(np.abs(f[i]) <= tol)
        kind = "seam_point" if (call["target"] == "boundary" and onlevel) else "outside"
        res["viol"].append(viol(kind, "%d of %d rows not in the twin set (call %s on %s, k=%d): e.g. row %d x=%s params=%s "
                                "level=%.3g tol=%.3g L=%.3g" % (int(bad.sum()), N, call, info["desc"], k, i,
                                                              np.round(X[i], 6).tolist(),
                                                              {kk: np.round(v[i], 5).tolist() for kk, v in envrows.items()},
                                                              f[i], tol, L), frac=round(float(bad.mean()), 3), **mech))
    if "filter" in call:
        fv = sampling.filter_ref(call["filter"], X, envrows)
        fbad = fv < -tol
        if fbad.any():
            res["viol"].append(viol("filter", "%d of %d rows violate the sampler's filter (min %.3g)" % (int(fbad.sum()), N,
                                    fv.min()), **mech))
    if call["fn"].startswith("adaptive") and "first" in o.extra:
        F = o.extra["first"].double().numpy()
        okf, ambf = tnode.member(_domain_cols(pts, tnode, F), _param_cols(pts, env, F), tol, L)
        if (~okf & ~ambf).any():
            res["viol"].append(viol("outside", "adaptive sampler: %d rows of the first sample are outside" %
                                    int((~okf & ~ambf).sum()), **mech))


def _domain_cols(pts, tnode, F):
    names = list(pts.space.keys())
    dims = [pts.space[n] for n in names]
    offs = np.concatenate([[0], np.cumsum(dims)])
    cols = []
    for n, _ in tnode.space():
        i = names.index(n)
        cols.append(F[:, offs[i]:offs[i + 1]])
    return np.concatenate(cols, 1)


def _param_cols(pts, env, F):
    names = list(pts.space.keys())
    dims = [pts.space[n] for n in names]
    offs = np.concatenate([[0], np.cumsum(dims)])
    out = {}
    for pn in env:
        if pn in names:
            i = names.index(pn)
            out[pn] = F[:, offs[i]:offs[i + 1]]
        else:
            out[pn] = np.repeat(env[pn][:1], len(F), 0)
    return out


def run_case(case):
    info = case["info"]
    res = {"cls": "", "judged": 0, "nontrivial": False, "viol": [], "counters": {}}
    classes = []
    D, node, P, env = sampling.build_case(case)
    bnode = geo.ref({"op": "boundary", "d": case["spec"]})
    if case.get("equiv"):
        node, bnode = geo.ref(case["equiv"]), geo.ref({"op": "boundary", "d": case["equiv"]})
    k = case["k"]
    shape = "".join(c for c in info["desc"] if not c.isdigit())
    for call in case["calls"]:
        o = sampling.run_call(D, call, P)
        before = res["judged"]
        judge_obs(o, node, bnode, env, k, info, res)
        res["counters"]["inner_proposal_calls"] = res["counters"].get("inner_proposal_calls", 0) + (o.inner[0] if o.inner else 0)
        if res["judged"] > before:
            classes.append("%s|%s|%s|%s|%s" % (shape, sampling.call_cls(call, info), sampling.ncls(call.get("n")),
                                               _kcls(k), "dep" if info["dep"] else "const"))
    res["nontrivial"] = res["judged"] > 0
    res["cls"] = "%s|%s|%s" % (shape, _kcls(k), "dep" if info["dep"] else "const")
    res["classes"] = classes
    res["counters"]["calls"] = len(case["calls"])
    return res


def extra_coverage(results):
    cl = set()
    for r in results:
        cl.update(r.get("classes", []))
    return {"distinct_call_classes": len(cl)}


def sample_of(case, r):
    return {"spec": case.get("spec"), "rows": case.get("rows"), "calls": case.get("calls", [])[:3],
            "class": r.get("cls"), "rows_judged": r.get("judged"), "status": r.get("status")}
