"""C05 -- membership tests agree with the set the domain expression denotes.

Post-condition on Domain._contains / __contains__ for generated expressions: query points produced by the
oracle (uniform in the enlarged hull box, the library's own boundary samples displaced by +-{2,5,20}e-3 L,
points of other parameter rows' regions) are judged by the float64 twin with each row's own parameter row.
Agreement is demanded only where the twin level is at least 1e-3 L away from the boundary.  Boundary
membership must accept the boundary's own samples and reject points farther than 1e-3 L; every answer has
exactly one truth value per row.
"""
import numpy as np

from .. import geo, gen_geo, sampling, probes
from ..core import viol, exc_site

LEVEL = "exploration"
RULE = ("generated domain expressions (tpmon.gen_geo, nesting <= 2 quick / 3 thorough, k in {0,1,2,3,5,8} unique "
        "parameter rows given in shuffled order) x query sets (box-uniform, near-boundary shells, own boundary samples); "
        "non-trivial = at least 20 query rows outside the tolerance band were compared; distinct = (expression shape, "
        "target interior/boundary, k class, parameter dependence)")
RULE += '; an eighth of the cases make one membership call with 1100-5000 rows (forced constant polyhedra with 1100-2500 rows)'
RULE += '; a sixth of the cases at length scales 0.01 / 0.05 / 30 / 300; every 40th case a 100-300 unit polyhedron with a user tolerance; every answer is re-queried with the columns stored differently (another variable / the parameters in front of or behind the coordinates)'
REQUIRED_REACH = ["Circle._contains", "CircleBoundary._contains", "Parallelogram._contains", "ParallelogramBoundary._contains",
                  "Triangle._contains", "TriangleBoundary._contains", "Interval._contains", "IntervalBoundary._contains",
                  "Sphere._contains", "SphereBoundary._contains", "ShapelyPolygon._contains", "ShapelyBoundary._contains",
                  "UnionDomain._contains", "CutDomain._contains", "IntersectionDomain._contains", "ProductDomain._contains",
                  "UnionBoundaryDomain._contains", "CutBoundaryDomain._contains", "IntersectionBoundaryDomain._contains",
                  "Translate._contains", "Rotate._contains", "TrimeshPolyhedron._contains", "TrimeshBoundary._contains"]
MIN_NONTRIVIAL = 40
ASSUMPTIONS = ["agreement judged only where |twin level| >= 1e-3 L (the property's 'small tolerance')",
               "shapes within the conditioning regime of DESIGN.md 3.1"]
CASE_TIMEOUT = 150
BAND = 1e-3
TOL = 2e-5


SCALES = [0.01, 0.05, 30.0, 300.0]


def gen_cases(seed, tier):
    rng = np.random.default_rng([seed, 5])
    n = 320 if tier == "quick" else 10000
    depth = 2 if tier == "quick" else 3
    cases = []
    for i in range(n):
        if i % 40 == 17:
            # a large polyhedron away from the origin with a user-set boundary tolerance (documented argument `tol`):
            # float32 surface points are ~1e-4 off the surface, the tolerance is 1e-2
            S = float(rng.choice([100.0, 300.0]))
            sp = gen_geo.polyhedron(rng, rng.uniform(-3, 3, 3) * S, S)
            sp["tol"] = 1e-2
            kk_ = int(rng.choice([0, 0, 2]))
            dom = {"spec": sp, "rows": gen_geo.param_rows(rng, kk_), "k": kk_,
                   "info": {"kind": "prim", "dim": 3, "dep": False, "relations": ["user_tol"], "desc": "H~tol"}}
        elif i % 40 == 33:
            # a constant polyhedron (possibly a triangle soup) queried with one large call (see "nq" below)
            sp = gen_geo.polyhedron(rng, rng.uniform(-2, 2, 3), float(rng.uniform(0.5, 1.5)))
            dom = {"spec": sp, "rows": {}, "k": 0, "nq_big": int(rng.choice([1100, 1500, 2500])),
                   "info": {"kind": "prim", "dim": 3, "dep": False, "relations": ["bigcall"], "desc": "H"}}
        elif i % 25 == 19:
            # a rotation with a constant angle / matrix about a pivot that moves with the parameter, several rows
            for _ in range(400):
                dom = gen_geo.gen_domain(rng, max_depth=int(rng.integers(0, 2)), allow=("rotate",), dep=True, dim=2, k=int(rng.choice([2, 3, 5])))
                sp_ = dom["spec"]
                if sp_.get("op") == "rotate" and isinstance(sp_.get("around"), dict) and not isinstance(sp_.get("angle"), dict) \
                        and not geo.ref(sp_["d"]).free():
                    break
        elif i % 25 == 14:
            # a contained cut whose removed part touches the outer boundary (notch): judged against the polygon the set is
            sp_, poly_ = gen_geo.notch_cut(rng)
            kk_ = int(rng.choice([0, 0, 2]))
            dom = {"spec": sp_, "equiv": poly_, "rows": gen_geo.param_rows(rng, kk_), "k": kk_,
                   "info": {"kind": "bool", "dim": 2, "dep": False, "relations": ["cut:notch!"], "desc": "(P-P)~notch"}}
        elif i % 25 == 8:
            # operands touching from outside in one point (every seed reaches the contact-point monitor)
            for _ in range(400):
                dom = gen_geo.gen_domain(rng, max_depth=1, allow=("bool",), dep=False, dim=int(rng.choice([2, 2, 3])),
                                         k=int(rng.choice([0, 0, 2])))
                if any(r.startswith("contact@") for r in dom["info"]["relations"]) and "prim" in dom["spec"].get("a", {}) \
                        and "prim" in dom["spec"].get("b", {}):
                    break
        elif i % 11 == 5:
            dom = gen_geo.flip_parallelogram(rng, kinds=("parallelogram", "triangle"))
        else:
            dom = gen_geo.gen_domain(rng, max_depth=int(rng.integers(1, depth + 1)))
            if i % 6 == 1 and "product" not in geo.spec_ops(dom["spec"]):
                # the same expression at another length scale (membership must not depend on absolute tolerances)
                S = float(SCALES[(i // 6) % len(SCALES)])
                dom["spec"] = geo.scale_spec(dom["spec"], S)
                dom["info"] = dict(dom["info"], scale=S)
        cases.append({"spec": dom["spec"], "rows": dom["rows"], "info": dom["info"], "k": dom["k"],
                      "seed": int(rng.integers(0, 2 ** 31)), "nq": 300 if tier == "quick" else 600})
        if dom.get("equiv"):
            cases[-1]["equiv"] = dom["equiv"]
        if dom.get("nq_big"):
            cases[-1]["nq"] = dom["nq_big"]
        elif len(cases) % 8 == 6:
            # one membership call with more rows than typical block sizes of vectorised helpers
            cases[-1]["nq"] = [1100, 1500, 2500, 5000 if "polyhedron" not in geo.spec_ops(dom["spec"]) else 2100][(len(cases) // 8) % 4]
    return cases


def _kcls(k):
    return "k0" if k == 0 else ("k1" if k == 1 else "k+")


def _points(names_dims, X, envrows, with_params):
    import torch
    from torchphysics.problem.spaces import Points, Space
    coords = {}
    off = 0
    for n, d in names_dims:
        coords[n] = torch.tensor(X[:, off:off + d].astype(np.float32))
        off += d
    P = Points.from_coordinates(coords)
    if envrows:
        Q = Points.from_coordinates({k: torch.tensor(v.astype(np.float32)) for k, v in envrows.items()})
    else:
        Q = Points.empty()
    return P, Q


def _answer(D, P, Q, res, mech, what):
    """call _contains, check the shape contract, return a boolean numpy vector or None"""
    import torch
    try:
        out = D._contains(P, Q)
    except Exception as e:
        res["viol"].append(viol("exception", "%s._contains raised %s in %s (%s): %s" % (type(D).__name__, type(e).__name__,
                                exc_site(e), what, str(e)[:300]), exc=type(e).__name__, site=exc_site(e), **mech))
        return None
    N = len(P)
    if not isinstance(out, torch.Tensor) or out.numel() != N:
        res["viol"].append(viol("answer_shape", "%s._contains returned %s for %d rows (%s)" % (type(D).__name__,
                                tuple(out.shape) if hasattr(out, "shape") else type(out), N, what), cls=type(D).__name__, **mech))
        return None
    if tuple(out.shape) != (N, 1):
        res["viol"].append(viol("answer_shape", "%s._contains returned shape %s, expected (%d, 1) (%s)" % (type(D).__name__,
                                tuple(out.shape), N, what), cls=type(D).__name__, **mech))
    if out.dtype != torch.bool:
        vals = set(out.reshape(-1).unique().tolist())
        if not vals <= {0, 1, 0.0, 1.0, True, False}:
            res["viol"].append(viol("answer_not_truth_value", "%s._contains returned dtype %s with values %s" %
                                    (type(D).__name__, out.dtype, sorted(vals)[:5]), cls=type(D).__name__, **mech))
            return None
        res["counters"]["non_bool_dtype_answers"] = res["counters"].get("non_bool_dtype_answers", 0) + 1
    return out.reshape(-1).bool().numpy()


def _layouts(Dq, P, Q, base, rows, rng, res, mech, desc):
    import torch
    from torchphysics.problem.spaces import Points
    extra = Points.from_coordinates({"q0": torch.tensor(rng.uniform(-1, 1, (len(P), 1)).astype(np.float32))})
    lay = [("extra_front", extra.join(P), Q), ("extra_behind", P.join(extra), Q)]
    if len(Q):
        lay += [("params_front", Q.join(P), Points.empty())]
    for lname, lp, lq in lay:
        try:
            a = Dq._contains(lp, lq).reshape(-1).bool().numpy()
        except Exception as e:
            res["viol"].append(viol("exception", "%s._contains with the query stored as %s (%s) raised %s in %s: %s" % (type(Dq).__name__, lname,
                                    list(lp.space.keys()), type(e).__name__, exc_site(e), str(e)[:200]), exc=type(e).__name__, site=exc_site(e),
                                    layout=lname, **mech))
            continue
        res["counters"]["layout_queries"] = res["counters"].get("layout_queries", 0) + 1
        res["judged"] += 1
        if a.shape != base.shape or (a != base)[rows].any():
            res["viol"].append(viol("answer_depends_on_layout", "%s: %d of %d membership answers change when the query points are stored as %s "
                                    "(space %s)" % (desc, int((a != base)[rows].sum()) if a.shape == base.shape else -1, int(rows.sum()), lname,
                                                    list(lp.space.keys())), layout=lname, **mech))


def run_case(case):
    import torch
    info = case["info"]
    res = {"cls": "", "judged": 0, "nontrivial": False, "viol": [], "counters": {}}
    D, node, Pp, env = sampling.build_case(case)
    if case.get("equiv"):
        node = geo.ref(case["equiv"])
    rng = np.random.default_rng(case["seed"])
    k = case["k"]
    kk = max(k, 1)
    nq = case["nq"]
    shape = "".join(c for c in info["desc"] if not c.isdigit())
    res["cls"] = "%s|%s|%s" % (shape, _kcls(k), "dep" if info["dep"] else "const")
    mech0 = {"root": info["kind"], "dep": bool(info["dep"]), "k": _kcls(k), "scale": info.get("scale", 1.0)}
    names_dims = node.space()
    dim = node.dim()
    # parameter row of each query row: shuffled (not block-wise) so that row-wise evaluation is observable
    ridx = rng.integers(0, kk, nq)
    envq = {pn: env[pn][ridx] for pn in env}
    box = geo._hull_box(node, envq, nq)
    ext = (box[:, 1::2] - box[:, 0::2])
    L = float(max(1.0, ext.max(), np.abs(box).max()))
    # (a) uniform in the enlarged box of the row's own region
    X = box[:, 0::2] - 0.2 * ext + rng.random((nq, dim)) * 1.4 * ext
    # (b) the library's own boundary samples (row-wise) displaced by +-{2,5,20}e-3 L along random directions
    bsamples = None
    Db = None
    try:
        Db = D.boundary
        probes.begin_call()
        bs = Db.sample_random_uniform(n=max(4, nq // (2 * kk)), params=Pp)
        probes.end_call()
        B = np.concatenate([bs.coordinates[n].double().numpy().reshape(len(bs), -1) for n, _ in names_dims], 1)
        nb = len(B) // kk
        bidx = np.minimum(np.arange(len(B)) // max(nb, 1), kk - 1)
        bsamples = (B, bidx)
    except Exception as e:
        res["counters"]["boundary_sampling_failed"] = 1
    if bsamples is not None and len(bsamples[0]):
        B, bidx = bsamples
        dirs = rng.normal(size=B.shape)
        dirs /= np.maximum(np.linalg.norm(dirs, axis=1, keepdims=True), 1e-12)
        mags = rng.choice([2e-3, 5e-3, 2e-2], size=len(B)) * L * rng.choice([-1, 1], size=len(B))
        X = np.concatenate([X, B + dirs * mags[:, None]], 0)
        for pn in env:
            envq[pn] = np.concatenate([envq[pn], env[pn][bidx]], 0)
        ridx = np.concatenate([ridx, bidx])
    # (c) structured points of polygonal leaves (no transforms in between): vertices shifted along the directions of the
    #     OTHER edges (the far sides of the parallelogram spanned by two edges, edge extensions beyond a corner, ...)
    leaves = []

    def collect(n_):
        if isinstance(n_, geo.Polygonal):
            leaves.append(n_)
        elif isinstance(n_, geo.Bool):
            collect(n_.a)
            collect(n_.b)
    collect(node)
    if leaves and dim == 2:
        m = 60
        sidx = rng.integers(0, kk, m)
        envs = {pn: env[pn][sidx] for pn in env}
        lf = leaves[int(rng.integers(0, len(leaves)))]
        V = lf.verts(envs, m)
        if V.shape[0] == 1:
            V = np.repeat(V, m, 0)
        nv = V.shape[1]
        i_, j_, k_ = rng.integers(0, nv, m), rng.integers(0, nv, m), rng.integers(0, nv, m)
        sc = np.where(rng.random(m) < 0.5, rng.random(m), 1 + rng.random(m))[:, None]
        S = V[np.arange(m), i_] + sc * (V[np.arange(m), j_] - V[np.arange(m), k_])
        X = np.concatenate([X, S], 0)
        for pn in env:
            envq[pn] = np.concatenate([envq[pn], envs[pn]], 0)
        ridx = np.concatenate([ridx, sidx])
        res["counters"]["structured_query_points"] = m
    N = len(X)
    # the library sees float32 coordinates: judge exactly those
    X = X.astype(np.float32).astype(np.float64)
    f = node.phi(X, envq)
    far = np.abs(f) >= BAND * L
    if case.get("equiv"):
        # the library works with the operands: a query within the tolerance band of ANY operand boundary (also the piece
        # that was cut away) is as undecidable for it as one near the boundary of the set
        leaves_ = np.abs(np.stack(geo.ref(case["spec"]).leaf_phis(X, envq), 0)).min(0)
        far &= leaves_ >= BAND * L
    P, Q = _points(names_dims, X, envq, True)
    mech = dict(mech0, target="interior")
    ans = _answer(D, P, Q, res, mech, info["desc"])
    if ans is not None:
        want = f <= 0
        bad = far & (ans != want)
        res["judged"] += int(far.sum())
        res["counters"]["interior_rows_compared"] = int(far.sum())
        res["counters"]["interior_rows_in_band"] = int((~far).sum())
        res["counters"]["interior_true_answers"] = int((ans & far).sum())
        if bad.any():
            i = int(np.where(bad)[0][0])
            res["viol"].append(viol("membership_disagrees", "%s: %d of %d rows differ from the twin, e.g. x=%s params=%s: library %s, "
                                    "twin level %.4g (L=%.3g)" % (info["desc"], int(bad.sum()), int(far.sum()), X[i].tolist(),
                                                                  {pn: v[i].tolist() for pn, v in envq.items()}, bool(ans[i]), f[i], L),
                                    false_pos=int((bad & ans).sum()), false_neg=int((bad & ~ans).sum()), **mech))
        # __contains__ with the parameters joined into the points must give the same answer
        try:
            both = P.join(Q) if len(Q) else P
            a2 = D.__contains__(both)
            a2 = a2.reshape(-1).bool().numpy()
            res["counters"]["dunder_contains_calls"] = 1
            # compared outside the tolerance band only (ray based membership of meshes is not reproducible on the surface)
            if a2.shape != ans.shape or (a2 != ans)[far].any():
                res["viol"].append(viol("dunder_contains_differs", "%s: __contains__(points with parameters) differs from _contains on %d rows"
                                        % (info["desc"], int((a2 != ans)[far].sum()) if a2.shape == ans.shape else -1), **mech))
        except Exception as e:
            res["viol"].append(viol("exception", "%s.__contains__ raised %s in %s: %s" % (type(D).__name__, type(e).__name__, exc_site(e),
                                    str(e)[:300]), exc=type(e).__name__, site=exc_site(e), call="__contains__", **mech))
    # ---- one truth value per row, independent of the rest of the batch: single rows and small sub-batches must get the
    #      same answer as inside the full batch (interior test and boundary test)
    if ans is not None:
        for Dq, name in ((D, "interior"), (Db, "boundary")):
            if Dq is None or not hasattr(Dq, "_contains"):
                continue
            try:
                full = Dq._contains(P, Q).reshape(-1).bool().numpy()
            except Exception:
                continue
            # prefer rows on / near the boundary (own samples sit at the end of the query set)
            cand = np.concatenate([np.arange(max(0, N - 40), N), rng.integers(0, N, 10)])
            picks = [np.array([int(rng.choice(cand))]) for _ in range(6)] + [rng.choice(cand, size=3, replace=False) for _ in range(3)]
            diff = 0
            for sel in picks:
                Ps, Qs = _points(names_dims, X[sel], {pn: v[sel] for pn, v in envq.items()}, True)
                try:
                    sub = Dq._contains(Ps, Qs).reshape(-1).bool().numpy()
                except Exception as e:
                    res["viol"].append(viol("exception", "%s._contains on a sub-batch of %d rows raised %s in %s: %s" % (type(Dq).__name__, len(sel),
                                            type(e).__name__, exc_site(e), str(e)[:200]), exc=type(e).__name__, site=exc_site(e), target=name, **mech0))
                    break
                diff += int((sub != full[sel]).sum())
                res["counters"]["sub_batch_rows"] = res["counters"].get("sub_batch_rows", 0) + len(sel)
            res["judged"] += 1
            if diff:
                res["viol"].append(viol("answer_depends_on_batch", "%s of %s: %d rows get a different membership answer when queried alone / in a "
                                        "small batch than inside the full batch" % (name, info["desc"], diff), target=name, **mech0))
    # ---- the answer must not depend on how the columns of the query are stored: another variable (product samplers) or
    #      the parameters in front of / behind the domain coordinates (compared outside the tolerance band)
    if ans is not None:
        _layouts(D, P, Q, ans, far, rng, res, dict(mech0, target="interior"), info["desc"])
    # ---- boundary membership
    if Db is not None and hasattr(Db, "_contains") and bsamples is not None and len(bsamples[0]):
        mech = dict(mech0, target="boundary")
        bnode = geo.ref({"op": "boundary", "d": case.get("equiv") or case["spec"]})
        fb = np.abs(f)           # distance-like level of the boundary
        ans = _answer(Db, P, Q, res, mech, "boundary of " + info["desc"])
        if ans is not None:
            bad = far & ans
            res["judged"] += int(far.sum())
            res["counters"]["boundary_rows_compared"] = int(far.sum())
            if bad.any():
                i = int(np.where(bad)[0][0])
                res["viol"].append(viol("boundary_accepts_far_point", "boundary of %s accepts %d points farther than %.0e L from the "
                                        "boundary, e.g. x=%s level %.4g L=%.3g" % (info["desc"], int(bad.sum()), BAND, X[i].tolist(), f[i], L),
                                        **mech))
        # own samples (random and grid) must be accepted, row-wise
        for kind in ("random", "grid"):
            try:
                probes.begin_call()
                if kind == "random":
                    own = Db.sample_random_uniform(n=40, params=Pp)
                else:
                    if k > 1 or info["kind"] == "product":
                        continue
                    own = Db.sample_grid(n=40, params=Pp)
                probes.end_call()
            except Exception as e:
                res["counters"]["boundary_sampling_failed"] = res["counters"].get("boundary_sampling_failed", 0) + 1
                continue
            O = np.concatenate([own.coordinates[n].double().numpy().reshape(len(own), -1) for n, _ in names_dims], 1)
            if len(O) == 0:
                continue
            no = max(1, len(O) // kk)
            oidx = np.minimum(np.arange(len(O)) // no, kk - 1)
            envo = {pn: env[pn][oidx] for pn in env}
            # only judge samples the twin confirms to be boundary points (C01 judges the others)
            Lo = max(L, float(np.abs(O).max()))
            okb, amb = bnode.member(O, envo, TOL * Lo, Lo)
            if "polyhedron" in geo.spec_ops(case["spec"]):
                # a sample on the seam of a mesh surface and another leaf surface: whether it belongs to the boundary hangs on
                # the ray based membership of a point ON the mesh, which is not reproducible from call to call (see 279):
                # counted, not judged
                lf_ = np.abs(np.stack(node.leaf_phis(O, envo), 0))
                seam_ = (lf_ <= max(1e-4 * float(ext.max()), 1e-6)).sum(0) >= 2
                res["counters"]["own_samples_on_mesh_seam_skipped"] = res["counters"].get("own_samples_on_mesh_seam_skipped", 0) + int((seam_ & okb & ~amb).sum())
                amb = amb | seam_
            Po, Qo = _points(names_dims, O, envo, True)
            ans = _answer(Db, Po, Qo, res, mech, "own %s samples of boundary of %s" % (kind, info["desc"]))
            if ans is None:
                continue
            rej = okb & ~amb & ~ans
            _layouts(Db, Po, Qo, ans, okb & ~amb, rng, res, dict(mech, sampler=kind), "boundary of " + info["desc"])
            # the same samples queried one at a time (the answer for a row must not depend on the rest of the batch)
            good = np.where(okb & ~amb & ans)[0]
            if len(good):
                alone_rej = 0
                for j in rng.choice(good, size=min(8, len(good)), replace=False):
                    P1, Q1 = _points(names_dims, O[j:j + 1], {pn: v[j:j + 1] for pn, v in envo.items()}, True)
                    try:
                        a1 = Db._contains(P1, Q1).reshape(-1).bool().numpy()
                    except Exception:
                        continue
                    alone_rej += int(not a1[0])
                    res["counters"]["own_samples_queried_alone"] = res["counters"].get("own_samples_queried_alone", 0) + 1
                if alone_rej:
                    res["viol"].append(viol("answer_depends_on_batch", "boundary of %s: %d of its own %s samples are accepted inside the batch "
                                            "but rejected when queried alone" % (info["desc"], alone_rej, kind), sampler=kind, **mech))
            res["judged"] += int((okb & ~amb).sum())
            res["counters"]["own_boundary_samples_judged"] = res["counters"].get("own_boundary_samples_judged", 0) + int((okb & ~amb).sum())
            if rej.any():
                i = int(np.where(rej)[0][0])
                res["viol"].append(viol("boundary_rejects_own_sample", "boundary of %s rejects %d of %d of its own %s samples, e.g. x=%s params=%s"
                                        % (info["desc"], int(rej.sum()), int((okb & ~amb).sum()), kind, O[i].tolist(),
                                           {pn: v[i].tolist() for pn, v in envo.items()}), sampler=kind,
                                        frac=round(float(rej.sum() / max(1, (okb & ~amb).sum())), 2), **mech))
    # ---- operands touching from outside in one point (generated relation "tangent"): the contact point belongs to both
    #      closed operands and every neighbourhood of it leaves the union, so it is a boundary point of the union
    spec = case["spec"]
    if any(r.startswith("contact@") for r in info.get("relations", [])) and spec.get("op") == "union" \
            and "prim" in spec["a"] and "prim" in spec["b"] and Db is not None and not info.get("scale") \
            and any(o["prim"] in ("circle", "sphere") for o in (spec["a"], spec["b"])) \
            and any(r == "union:tangent" for r in info.get("relations", [])[-1:]):
        balls = [o for o in (spec["a"], spec["b"]) if o["prim"] in ("circle", "sphere")]
        other = spec["b"] if balls[0] is spec["a"] else spec["a"]
        c0, r0 = np.asarray(balls[0]["center"], float), float(balls[0]["radius"])
        if other["prim"] in ("circle", "sphere"):
            tgt = np.asarray(other["center"], float)
        else:
            o_, c1_, c2_ = (np.asarray(other[q], float) for q in ("origin", "c1", "c2"))
            lo_, hi_ = np.minimum(np.minimum(o_, c1_), c2_), np.maximum(np.maximum(o_, c1_), c2_ + c1_ - o_)
            tgt = np.clip(c0, lo_, hi_)
        cp = (c0 + r0 * (tgt - c0) / np.linalg.norm(tgt - c0))[None]
        Pc, Qc = _points(names_dims, np.repeat(cp, kk, 0), {pn: env[pn] for pn in env}, True)
        mech = dict(mech0, target="boundary", relation="tangent")
        for Dq, nm in ((Db, "boundary"), (D, "closed set")):
            a_ = _answer(Dq, Pc, Qc, res, mech, "contact point of %s" % info["desc"])
            if a_ is None:
                continue
            res["judged"] += 1
            res["counters"]["contact_points_judged"] = res["counters"].get("contact_points_judged", 0) + 1
            if not a_.all():
                res["viol"].append(viol("contact_point_rejected", "%s: the point %s where the two operands touch from outside is not accepted "
                                        "by the %s of the union" % (info["desc"], cp[0].tolist(), nm), part=nm, **mech))
    res["nontrivial"] = res["judged"] >= 20
    return res


def sample_of(case, r):
    return {"spec": case.get("spec"), "rows": case.get("rows"), "class": r.get("cls"), "rows_judged": r.get("judged"),
            "status": r.get("status")}
