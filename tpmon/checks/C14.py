"""C14 -- conditions are isolated from each other and repeatable.

"Alone vs in company" differential histories.  World A builds every condition of a group alone (fresh dicts, fresh but
identically seeded samplers and models) and evaluates it for several rounds; world B builds the same conditions sharing
the user objects (one data_functions dict, the domain objects, sampler objects, default-argument objects, a model, a
Parameter) in a random construction order and evaluates them in a random order per round.  Every loss in company must
equal the loss of the same evaluation alone; identity/content snapshots of every user-supplied container (and of the
library's own mutable default arguments) are compared before/after every construction and evaluation; conditions whose
samplers are all static must return the same loss in every round; the data arguments a residual receives are compared
with the reference data function on the rows recorded from the condition's own samplers in that call (for periodic
conditions: *_left at the left points, *_right at the right points).  Helpers: tpmon/c04_*.py.
"""
import json

import numpy as np
import torch

from ..core import viol, exc_site, Inconclusive

LEVEL = "exploration"
RULE = ("seeded generator over groups of 2-4 conditions (PINN, SingleModule, Mean, Periodic, IntegroPINN, PIDeepONet, "
        "AdaptiveWeights) over a common set of 1-3 variables x shared objects (data_functions dict with 0-3 functions, "
        "domain objects, static-forever or grid sampler objects, default-argument tensors, model, Parameter) x sampler "
        "trees (static or not, deterministic: every top-level sampler object draws with seed+call count) x random "
        "construction order x random evaluation order in 2-4 rounds; additionally (a) 'samekey' groups: 2-4 conditions on ONE "
        "never-resampled StaticSampler object, each with its own data_functions dict using the SAME keys for DIFFERENT "
        "function bodies (sometimes the same) and residuals with the same parameter names, (b) 'varsets' groups: "
        "user-supplied UserFunction objects / plain functions with declared defaults (data functions f(x, t=default), one "
        "residual body, sampler filter functions) shared by conditions whose samplers provide different variable sets "
        "((x,t) products in both orders or product domains vs x only, partly with equal point counts); fun/args/defaults of "
        "every user-supplied UserFunction are snapshotted, (c) 'staticof' groups: one random base sampler object made "
        "static separately for 2-4 conditions (make_static() and make_static(resample_interval=2|3), random order, 4-6 "
        "rounds, torch seeded per construction / evaluation); periodic conditions without further variables use the "
        "default EmptySampler or the static PointSampler.empty().  A case is non-trivial when at least two conditions "
        "were compared alone vs in company in every round; distinct = (sorted kinds, sharing flags, static pattern, "
        "#data functions, shared sampler, group mode and its variable-set / wrapping pattern)")
REQUIRED_REACH = ["Condition._setup_data_functions", "StaticSampler.sample_points", "PeriodicCondition.__init__",
                  "SingleModuleCondition.__init__", "IntegroPINNCondition.__init__",
                  "DeepONetSingleModuleCondition.__init__", "UserFunction.__call__"]
MIN_NONTRIVIAL = 30
ASSUMPTIONS = ["no optimisation step between evaluations (forward() only)",
               "losses alone vs in company compared with tolerance 1e-6 relative to max(1, |loss|)",
               "sampler objects shared between conditions are static without resampling or pure grids (the use count of "
               "other shared samplers legitimately depends on the company); static samplers with a finite resample "
               "interval are not combined with data functions here (C04's known deviation D24)",
               "random samplers are made deterministic by a user-level wrapper that seeds torch with seed + call count of "
               "that sampler object",
               "DeepONets and function sets are not shared between conditions", "CPU only"]
CASE_TIMEOUT = 180


def warmup():
    import torchphysics  # noqa: F401
    import torchphysics.problem.conditions  # noqa: F401
    from .. import c04_dsl, c04_world, c04_gen  # noqa: F401
    c04_dsl.closed_model_class()


def gen_cases(seed, tier):
    from .. import c04_gen as G
    G.configure(tier)
    rng = np.random.default_rng([seed, 14])
    n = 280 if tier == "quick" else 12000
    cases = []
    for i in range(n):
        u = rng.random()
        if u < 0.52:
            cases.append(G.gen_group_case(rng))
        elif u < 0.70:
            cases.append(G.gen_samekey_group(rng))
        elif u < 0.88:
            cases.append(G.gen_varsets_group(rng))
        else:
            cases.append(G.gen_staticof_group(rng))
    # two conditions on ONE DeepONet object, each with its own function set (evaluated with the same iteration number)
    rng2 = np.random.default_rng([seed, 14, 1])
    for i in range(14 if tier == "quick" else 400):
        cases.append(G.gen_group_case(rng2, force_kinds=["pideeponet", "pideeponet"]))
    return cases


def _cls(g):
    from .. import c04_world as W
    kinds = sorted(c["kind"] for c in g["conds"])
    st = "".join(sorted({"static_inf": "S", "static_finite_interval": "F", "nonstatic": "n", "empty": "e",
                         "static_empty": "E", "adaptive": "a"}[W.sampler_class(c["sampler"])] for c in g["conds"]))
    sh = g["share"]
    nd = len(g.get("data", []))
    shs = any("share" in c["sampler"] for c in g["conds"])
    mode = g.get("mode", "classic")
    extra = ""
    if mode == "varsets":
        extra = "/full%s-res%d-wrap%d%d-flt%d" % ("".join(str(int(c["full"])) for c in g["conds"]), sh.get("residual", False),
                                                  bool(g["data"][0].get("wrapped")), g["conds"][0]["res_wrapped"],
                                                  any("filter" in json.dumps(c["sampler"]) for c in g["conds"]))
    if mode == "samekey":
        nd = len(g["conds"][0].get("data", []))
        extra = "/same%d" % sum(1 for c in g["conds"][1:] if c["data"] == g["conds"][0]["data"])
    return "%s:%s/%s/dict%d-model%d-param%d-dflt%d/d%d/p%d/ss%d%s" % (
        mode, "+".join(kinds), st, sh["dict"], sh["model"], sh["param"], sh["defaults"], nd, len(g.get("params") or []),
        shs, extra)


# ---------------------------------------------------------------------------------------------
# snapshots of user-supplied containers
# ---------------------------------------------------------------------------------------------

def _is_ufun(obj):
    return type(obj).__name__ in ("UserFunction", "DomainUserFunction") and hasattr(obj, "defaults")


def _snap(obj):
    if _is_ufun(obj):
        return ("user_function", id(obj), id(obj.fun), _fn_state(obj.fun), id(obj.args), list(obj.args),
                id(obj.defaults), [(k, id(v), v.detach().clone() if isinstance(v, torch.Tensor) else repr(v)[:50])
                                   for k, v in obj.defaults.items()])
    if isinstance(obj, dict):
        return ("dict", id(obj), [(k, id(v), _fn_state(v)) for k, v in obj.items()])
    if isinstance(obj, torch.Tensor):
        return ("tensor", id(obj), tuple(obj.shape), obj.detach().clone())
    if isinstance(obj, (list, tuple)):
        return ("seq", id(obj), [_snap(x) for x in obj])
    if hasattr(obj, "as_tensor") and hasattr(obj, "space"):
        return ("points", id(obj), list(obj.space.keys()), obj.as_tensor.detach().clone())
    return ("obj", id(obj))


def _fn_state(f):
    if _is_ufun(f):
        return _snap(f)
    d = getattr(f, "__defaults__", None)
    if d is None:
        return None
    return tuple((id(x), x.detach().clone() if isinstance(x, torch.Tensor) else repr(x)[:50]) for x in d)


def _same(a, b):
    if type(a) != type(b):
        return False
    if isinstance(a, torch.Tensor):
        return a.shape == b.shape and bool(torch.equal(a, b))
    if isinstance(a, (list, tuple)):
        return len(a) == len(b) and all(_same(x, y) for x, y in zip(a, b))
    return a == b


def library_defaults():
    """the mutable default-argument objects of the library's own constructors / callables"""
    import inspect
    from torchphysics.problem.conditions import condition, deeponet_condition
    from torchphysics.utils import user_fun
    import types
    out = []

    def take(label, f):
        f = getattr(f, "__func__", f)
        f = getattr(f, "__wrapped__", f)
        kwd = getattr(f, "__kwdefaults__", None) or {}
        for dflt in tuple(getattr(f, "__defaults__", None) or ()) + tuple(kwd.values()):
            if isinstance(dflt, (dict, list, set)) or (hasattr(dflt, "as_tensor") and hasattr(dflt, "space")):
                out.append((label, dflt))
    for mod in (condition, deeponet_condition, user_fun):
        for fname, f in vars(mod).items():
            if isinstance(f, types.FunctionType) and getattr(f, "__module__", "") == mod.__name__:
                take("%s.%s" % (mod.__name__.rsplit(".", 1)[-1], fname), f)
        for cname, cls in inspect.getmembers(mod, inspect.isclass):
            if getattr(cls, "__module__", "") != mod.__name__:
                continue
            # every function defined in the class (helpers included): a mutable default that is written to is state shared
            # by all conditions of the process
            for fname, f in vars(cls).items():
                if isinstance(f, (types.FunctionType, staticmethod, classmethod)):
                    take("%s.%s" % (cname, fname), f)
    return out


class Watch:
    def __init__(self):
        self.items = []          # (label, object)
        self.snaps = []

    def add(self, label, obj):
        if all(o is not obj for _l, o in self.items):
            self.items.append((label, obj))

    def take(self):
        self.snaps = [_snap(o) for _l, o in self.items]

    def changed(self):
        out = []
        for (label, o), before in zip(self.items, self.snaps):
            if not _same(before, _snap(o)):
                out.append(label)
        return out


# ---------------------------------------------------------------------------------------------
# one world
# ---------------------------------------------------------------------------------------------

def _eligible_repeat(c):
    from .. import c04_world as W
    if c["kind"] == "pideeponet":
        return False
    cl = W.sampler_class(c["sampler"])
    if c["kind"] == "periodic":
        return cl in ("static_inf", "empty", "static_empty")
    if c["kind"] == "integro":
        return cl == "static_inf" and W.sampler_class(c["int_sampler"]) == "static_inf"
    return cl == "static_inf"


def _build(g, i, world, shared, watch):
    """construct condition i; shared = {"dict","defaults","param","models","residuals"} objects of this world"""
    from .. import c04_world as W
    from .. import c04_dsl as D
    c = g["conds"][i]
    trace = W.Trace()
    kw = {}
    c = dict(c, share_dict=True)
    kw["shared_data"] = shared["dict"]
    if shared.get("defaults") is not None:
        kw["defaults"] = shared["defaults"]
    if shared.get("param") is not None:
        kw["param"] = shared["param"]
    router = None
    if "res_wrapped" in c:
        # one residual body for the whole group; the object itself is shared when shared["residuals"] is a registry
        reg = shared["residuals"] if shared.get("residuals") is not None else {}
        if "r" not in reg:
            from torchphysics.utils import UserFunction
            router = W.TraceRouter()
            fn, dfl = W.make_residual(c, router, None, shared.get("defaults"))
            if c["res_wrapped"]:
                fn = UserFunction(fn)
                world.user_functions.append(("residual_function", fn))
            reg["r"] = (fn, dfl, router)
        fn, dfl, router = reg["r"]
        kw["residual"] = (fn, dfl)
    if c["kind"] == "pideeponet":
        net, twin, fs = W.build_deeponet(c, world, trace)
        if True:
            # conditions generated on the same architecture share ONE DeepONet object (per world: in company only), each
            # with its own function set
            reg = world.__dict__.setdefault("don_nets", {})
            key = json.dumps([c["model"], {q: c["don"][q] for q in ("fvars", "kvar", "fout", "disc_n", "neurons")}], sort_keys=True)
            if key in reg:
                net, twin = reg[key]
            else:
                reg[key] = (net, twin)
        W.seed_sampler(fs.parameter_sampler, c["seed"] % (2 ** 30))
        kw["model"] = (net, twin)
        kw["fset"] = fs
    else:
        models = shared["models"] if shared.get("models") is not None else {}
        key = json.dumps(c["model"], sort_keys=True)
        if key not in models:
            models[key] = D.build_model(c["model"], c["vars"])
        kw["model"] = models[key]
    if g.get("seed_ops"):
        # after everything that may consume random numbers depending on the company (a shared model is built only once)
        torch.manual_seed(g["seed"] % (2 ** 30) + 1000 * i + 999)
    b = W.build_condition(c, world, trace, **kw)
    b.router = router
    return b


def run_world(g, company, res):
    """-> (losses {i: [..]}, builts {i: b}, violations)"""
    from .. import c04_world as W
    V = []
    n = len(g["conds"])
    sh = g["share"]
    losses = {i: [] for i in range(n)}
    builts = {}
    C = res["counters"]
    libdef = library_defaults()

    wtrace = W.Trace()       # calls of the (possibly shared) data functions
    common_data = bool(g.get("data")) or all(not c.get("data") for c in g["conds"])

    def new_dict(i, registry):
        """the dict handed to condition i: every data function of the group (classic / varsets groups) or the
        condition's own functions under the group's common keys (samekey groups)"""
        src = g if common_data else g["conds"][i]
        return W.make_data_functions(src, wtrace, None, {}, registry)

    def fresh_shared(all_shared):
        s = {}
        s["registry"] = {} if (sh.get("functions") or not company) else None
        s["dict"] = new_dict(0, s["registry"]) if ((sh["dict"] and common_data) or not company) else None
        s["defaults"] = W.make_defaults(g) if (sh["defaults"] or not company) else None
        s["param"] = W.make_parameter(g) if (sh["param"] or not company) else None
        s["models"] = {} if (sh["model"] or not company) else None
        s["residuals"] = {} if (sh.get("residual") or not company) else None
        return s

    def mech(i, **kw):
        c = g["conds"][i]
        m = {"cond": {"periodic": "PeriodicCondition"}.get(c["kind"], c["kind"]),
             "static": W.sampler_class(c["sampler"]).startswith("static"), "sampler": W.sampler_class(c["sampler"]),
             "data_functions": bool(c.get("data")), "world": "company" if company else "alone"}
        m.update(kw)
        return m

    def guarded(i, what, fn, watch, op=999):
        watch.take()
        if g.get("seed_ops"):
            # deterministic user samplers for groups that share a random base sampler: what a condition draws depends on
            # the operation (condition, construction / evaluation number), not on the company
            torch.manual_seed(g["seed"] % (2 ** 30) + 1000 * i + op)
        grad_before = torch.is_grad_enabled()
        try:
            try:
                out = fn()
            finally:
                grad_after = torch.is_grad_enabled()
                torch.set_grad_enabled(True)
            if grad_after != grad_before:
                # process-wide state is company for every later condition: it has to be left as it was found
                V.append(viol("global_state_changed", "%s of condition %d (%s) left torch's gradient mode %s (it was %s before)"
                              % (what, i, g["conds"][i]["kind"], "enabled" if grad_after else "DISABLED", "enabled" if grad_before else "disabled"),
                              **mech(i, what=what, state="grad_mode")))
                return None, False
        except Inconclusive:
            raise
        except Exception as e:
            if exc_site(e) == "?":
                raise
            V.append(viol("exception", "%s of condition %d (%s) %s raised %s: %s"
                          % (what, i, g["conds"][i]["kind"], "in company" if company else "alone", type(e).__name__,
                             str(e)[:150]),
                          **mech(i, exc=type(e).__name__, site=exc_site(e),
                                 phase="construct" if what == "construction" else "forward")))
            return None, False
        ch = watch.changed()
        if ch:
            V.append(viol("user_container_modified", "%s of condition %d (%s) changed: %s"
                          % (what, i, g["conds"][i]["kind"], ", ".join(ch)),
                          **mech(i, what=what, objects=sorted(set(x.split(":")[0] for x in ch)))))
        C["snapshots_compared"] = C.get("snapshots_compared", 0) + len(watch.items)
        return out, True

    def make_watch(shared, bs):
        w = Watch()
        for label, o in libdef:
            w.add("library_default:" + label, o)
        if shared.get("dict") is not None:
            w.add("data_functions_dict", shared["dict"])
        if shared.get("defaults") is not None:
            for k, t in shared["defaults"].items():
                w.add("default_argument:" + k, t)
        if shared.get("param") is not None:
            w.add("parameter", shared["param"])
        for reg in (shared.get("registry") or {}, ):
            for key, f in reg.items():
                if _is_ufun(f):
                    w.add("user_function:data", f)
        for label, f in getattr(shared.get("world"), "user_functions", []):
            w.add("user_function:" + label, f)
        for b in bs:
            for k, f in b.user_dict.items():
                if _is_ufun(f):
                    w.add("user_function:data", f)
            if _is_ufun(b.residual):
                w.add("user_function:residual_function", b.residual)
            w.add("data_functions_dict", b.user_dict)
            for k, t in b.defaults.items():
                w.add("default_argument:" + k, t)
            if b.param is not None:
                w.add("parameter", b.param)
            w.add("residual_function", [b.residual])
            for j, p in enumerate(b.model.parameters()):
                w.add("model_weights:%d" % j, p)
        return w

    def evaluate(i, r, b, watch):
        b.trace.phase = r
        if getattr(b, "router", None) is not None:
            b.router.target = b.trace
        call = (lambda: b.cond(iteration=r)) if g["conds"][i]["kind"] == "pideeponet" else (lambda: b.cond())
        loss, ok = guarded(i, "evaluation %d" % r, call, watch, op=r)
        if not ok:
            return False
        C["evaluations"] = C.get("evaluations", 0) + 1
        if not isinstance(loss, torch.Tensor) or loss.numel() != 1:
            V.append(viol("loss_shape", "condition %d returned %r" % (i, loss), **mech(i)))
            return False
        losses[i].append(float(loss.detach().double().reshape(-1)[0]))
        # a static sampler hands out points that its own inner sampler produced (not another sampler's cache)
        for role, smp in b.samplers.items():
            ev = b.trace.get("sample", r, role=role)
            if ev and not W.from_own_inner(smp, ev[-1]["t"]):
                V.append(viol("foreign_points", "evaluation %d of condition %d (%s): the %s static sampler returned a point "
                              "set (shape %s) that its own inner sampler never produced"
                              % (r, i, g["conds"][i]["kind"], role, tuple(ev[-1]["t"].shape)), **mech(i, role=role)))
                return False
            C["static_returns_checked"] = C.get("static_returns_checked", 0) + (1 if ev else 0)
        # data arguments belong to the rows this condition's own samplers produced in this call
        # (periodic conditions: additionally the loss against the reference recomputed from the recorded points)
        per = g["conds"][i]["kind"] == "periodic"
        dv, j, cnt = W.judge_call(b, r, loss, only=("data",), judge_loss=per)
        C["periodic_losses_judged"] = C.get("periodic_losses_judged", 0) + cnt.get("loss_judged", 0)
        res["judged"] += j
        C["data_args_judged"] = C.get("data_args_judged", 0) + cnt.get("data_args", 0)
        for v in dv:
            v["mech"]["world"] = "company" if company else "alone"
            v["mech"]["static"] = v["mech"].get("sampler", "").startswith("static")
        V.extend(dv)
        return not dv

    if not company:
        for i in range(n):
            world = W.World()
            shared = fresh_shared(False)
            shared["dict"] = new_dict(i, shared["registry"])
            shared["world"] = world
            watch = make_watch(shared, [])
            b, ok = guarded(i, "construction", lambda: _build(g, i, world, shared, watch), watch)
            if not ok:
                return losses, builts, V
            builts[i] = b
            watch = make_watch(shared, [b])
            for r in range(g["rounds"]):
                if not evaluate(i, r, b, watch):
                    return losses, builts, V
    else:
        world = W.World()
        shared = fresh_shared(True)
        shared["world"] = world
        for i in g["build_order"]:
            own = dict(shared)
            if shared.get("dict") is None:
                own["dict"] = new_dict(i, shared["registry"])
            if shared.get("defaults") is None:
                own["defaults"] = W.make_defaults(g)
            if shared.get("param") is None:
                own["param"] = W.make_parameter(g)
            if shared.get("models") is None:
                own["models"] = {}
            watch = make_watch(own, list(builts.values()))
            b, ok = guarded(i, "construction", lambda: _build(g, i, world, own, watch), watch)
            if not ok:
                return losses, builts, V
            builts[i] = b
        watch = make_watch(shared, list(builts.values()))
        for r, order in enumerate(g["eval_orders"]):
            for i in order:
                if not evaluate(i, r, builts[i], watch):
                    return losses, builts, V
    return losses, builts, V


def _diff_args(ba, bb, r):
    """which residual arguments differ between the two worlds in evaluation r"""
    ea = ba.trace.get("residual", r)
    eb = bb.trace.get("residual", r)
    if not ea or not eb:
        return ["?"]
    ka, kb = ea[-1]["kw"], eb[-1]["kw"]
    kinds = {D_[1] if False else None for D_ in []}
    out = []
    kind_of = {}
    from .. import c04_dsl as D
    for a in ba.case["sigargs"]:
        kind_of[D.argname(a[1], a[2])] = a[0]
    for name in ka:
        ta, tb = ka[name]["t"], kb.get(name, {}).get("t")
        if not isinstance(ta, torch.Tensor) or not isinstance(tb, torch.Tensor) or ta.shape != tb.shape or \
                not torch.allclose(ta, tb, rtol=1e-6, atol=1e-7):
            out.append(kind_of.get(name, "?"))
    return sorted(set(out))


def run_case(g):
    from .. import c04_world as W
    torch.manual_seed(g["seed"])
    res = {"cls": _cls(g), "judged": 0, "nontrivial": False, "viol": [], "counters": {}}
    C = res["counters"]
    n = len(g["conds"])
    la, ba, va = run_world(g, False, res)
    res["viol"].extend(va)
    if va:
        return res
    lb, bb, vb = run_world(g, True, res)
    res["viol"].extend(vb)
    if vb:
        return res
    compared = 0
    for i in range(n):
        c = g["conds"][i]
        for r in range(g["rounds"]):
            a, b = la[i][r], lb[i][r]
            res["judged"] += 1
            compared += 1
            if not abs(a - b) <= 1e-6 * max(1.0, abs(a)):
                diff = _diff_args(ba[i], bb[i], r)
                res["viol"].append(viol(
                    "loss_differs_in_company",
                    "condition %d (%s, sampler %s): evaluation %d gives %.9g alone and %.9g in company with %s "
                    "(construction order %s, evaluation orders %s); differing residual arguments: %s"
                    % (i, c["kind"], W.sampler_shape(c["sampler"]), r, a, b,
                       [x["kind"] for j, x in enumerate(g["conds"]) if j != i], g["build_order"], g["eval_orders"], diff),
                    cond=c["kind"], sampler=W.sampler_class(c["sampler"]), data_functions=bool(c.get("data")),
                    differs=diff, shared_dict=g["share"]["dict"], shared_sampler="share" in c["sampler"]))
                break
        if _eligible_repeat(c):
            for name, L in (("alone", la[i]), ("company", lb[i])):
                res["judged"] += 1
                C["repeat_checked"] = C.get("repeat_checked", 0) + 1
                if max(L) - min(L) > 1e-6 * max(1.0, abs(L[0])):
                    res["viol"].append(viol("static_not_repeatable", "condition %d (%s) with static samplers returned %s in "
                                            "consecutive evaluations without an optimisation step (%s)" % (i, c["kind"], L, name),
                                            cond=c["kind"], sampler=W.sampler_class(c["sampler"]), world=name))
                    break
    C["losses_compared"] = compared
    C["groups_" + g.get("mode", "classic")] = 1
    C["user_function_objects_shared"] = sum(1 for b in bb.values() for f in list(b.user_dict.values()) + [b.residual]
                                            if _is_ufun(f))
    C["conditions"] = n
    C["periodic_conditions"] = sum(1 for c in g["conds"] if c["kind"] == "periodic")
    res["nontrivial"] = compared >= 2 * g["rounds"] and n >= 2
    return res


def sample_of(case, r):
    brief = {"kinds": [c["kind"] for c in case.get("conds", [])], "share": case.get("share"),
             "build_order": case.get("build_order"), "eval_orders": case.get("eval_orders"),
             "samplers": [json.dumps(c["sampler"])[:300] for c in case.get("conds", [])],
             "data": [d["name"] for d in (case.get("conds") or [{}])[0].get("data", [])]}
    return {"case": brief, "class": r.get("cls"), "judged": r.get("judged"), "status": r.get("status"),
            "counters": r.get("counters")}
