"""C17 -- partially evaluating a domain is the same as supplying the parameters.

Commuting-diagram monitor around Domain.__call__: for D' = D(**vals) the membership answers, samples,
volume and bounding box of D' (given the remaining parameters) are compared with the float64 twin of the
ORIGINAL expression at env = vals + rest (membership, samples) and with the original domain evaluated at
the full parameters (volume, bounding box); necessary_variables must equal the free variables computed on
the spec; the original domain must be observably unchanged; nested evaluation D(**v1)(**v2) must agree
with D(**v1, **v2); boundaries likewise.
"""
import copy
import numpy as np

from .. import geo, gen_geo, sampling, probes
from ..core import viol, exc_site

LEVEL = "exploration"
RULE = ("generated parameter dependent expressions (primitives, nested + - &, translate, rotate, products whose first factor "
        "depends on the second and on a free variable) with free variables t and (in half of the cases) u, k in {1,2,3,5} "
        "rows; every non-empty subset of the free variables is fixed at the values of a random row (tensors of shape (1,dim)); "
        "non-trivial = at least 30 membership rows / samples of an evaluated domain were judged; distinct = (expression "
        "shape, set of free variables, fixed subset, k class)")
RULE += '; forced Boolean roots whose operands depend on different variable sets; rotation angles depending on two variables (one optionally with a python default); the declared variable set of every part of the expression tree is compared with its own sub-expression (original, evaluated, original after the evaluations)'
REQUIRED_REACH = ["Circle.__call__", "Sphere.__call__", "Parallelogram.__call__", "Triangle.__call__", "Interval.__call__",
                  "UnionDomain.__call__", "CutDomain.__call__", "IntersectionDomain.__call__", "ProductDomain.__call__",
                  "Translate.__call__", "Rotate.__call__", "BoundaryDomain.__call__", "UserFunction.partially_evaluate",
                  "Domain.set_necessary_variables"]
MIN_NONTRIVIAL = 30
ASSUMPTIONS = ["membership judged outside the band |level| >= 1e-3 L; samples with tolerance 2e-5 L",
               "volume / bounding box of the evaluated domain are compared with the original domain at the full parameters "
               "(relative 1e-5); dependent products are excluded there (documented random estimates)",
               "fixing a variable bound by a product factor is slicing, a different feature, and is not generated"]
CASE_TIMEOUT = 150
TOL = 2e-5
BAND = 1e-3


def add_u(s, dim_axis, default=None, amp=0.8):
    """add a rigid co-motion with the second free variable u to every position value of the spec; with `default` the
    generated parameter functions declare u as an optional argument (python default)"""
    if not isinstance(s, dict):
        return
    for key in ("center", "origin", "c1", "c2", "point", "lo", "hi"):
        if key in s and s.get("prim") != "polygon":
            v = s[key]
            m = len(np.atleast_1d(np.asarray(v["a"] if isinstance(v, dict) else v, float)))
            coef = [0.0] * m
            coef[min(dim_axis, m - 1)] = amp
            term = {"var": "u", "col": 0, "kind": "lin", "coef": coef}
            if default is not None:
                term["default"] = float(default)
            if isinstance(v, dict):
                v["terms"].append(term)
            else:
                s[key] = {"a": [float(x) for x in np.atleast_1d(np.asarray(v, float))], "terms": [term]}
    for k in ("a", "b", "d"):
        if k in s and isinstance(s[k], dict):
            add_u(s[k], dim_axis, default, amp)


def has_polygon(s):
    if not isinstance(s, dict):
        return False
    if s.get("prim") == "polygon":
        return True
    return any(has_polygon(s[k]) for k in ("a", "b", "d") if k in s)


def _has_flag(s):
    if not isinstance(s, dict):
        return False
    return bool(s.get("flag")) or any(_has_flag(s[k]) for k in ("a", "b", "d") if k in s)


def _still_fat(spec, rows, rng):
    """the set of every parameter row keeps at least 4 % of its hull box (no nearly empty cut / intersection)"""
    node = geo.ref(spec)
    env = {v: np.asarray(r, float).reshape(len(r), -1) for v, r in rows.items()}
    if not node.free() <= set(env):
        return False
    k = len(next(iter(env.values())))
    for i in range(k):
        e1 = {v: a[i:i + 1] for v, a in env.items()}
        bb = geo._hull_box(node, e1, 1)[0]
        P = bb[0::2] + rng.random((3000, len(bb) // 2)) * (bb[1::2] - bb[0::2])
        if (node.phi(P, {v: np.repeat(a, 3000, 0) for v, a in e1.items()}) <= 0).mean() < 0.04:
            return False
    return True


def _walk(D, node, path="D"):
    """(live object, twin node, path) for every node of the expression tree reachable through public attributes"""
    yield D, node, path
    if isinstance(node, (geo.Bool, geo.Product)):
        subs = (("domain_a", node.a), ("domain_b", node.b))
    elif isinstance(node, (geo.Moved, geo.Boundary)):
        subs = (("domain", node.d),)
    else:
        subs = ()
    for attr, sub in subs:
        Ds = getattr(D, attr, None)
        if Ds is not None and hasattr(Ds, "necessary_variables"):
            yield from _walk(Ds, sub, path + "." + attr)


def check_declared(D, node, fixed, res, mech, stage, desc):
    """every node of the tree declares exactly the free variables of its own sub-expression (minus the fixed ones)"""
    for Ds, sub, path in _walk(D, node):
        want = set(sub.free()) - set(fixed)
        got = getattr(Ds, "necessary_variables", None)
        res["judged"] += 1
        res["counters"]["declared_sets_checked"] = res["counters"].get("declared_sets_checked", 0) + 1
        if got is None or set(got) != want:
            res["viol"].append(viol("necessary_variables", "%s: the part %s (%s) declares necessary_variables=%s, its expression needs %s (%s)" %
                                    (desc, path, type(Ds).__name__, sorted(got) if got is not None else None, sorted(want), stage),
                                    stage=stage, part=("root" if path == "D" else "operand"), **mech))
            return


def gen_cases(seed, tier):
    rng = np.random.default_rng([seed, 17])
    n = 280 if tier == "quick" else 8000
    depth = 2 if tier == "quick" else 3
    cases = []
    tries = 0
    # the first cases are forced: Boolean roots whose operands depend on different variable sets (every seed reaches them)
    forced = ["isect", "cut", "union"] * (4 if tier == "quick" else 40) + ["pivot"] * (4 if tier == "quick" else 40)
    while len(cases) < n and tries < 20 * n:
        tries += 1
        k = int(rng.choice([1, 2, 3, 5]))
        force = forced[0] if forced else None
        if force == "pivot":
            # a rotation whose only parameter dependent part is its pivot (constant angle / matrix, constant inner domain)
            dom = gen_geo.gen_domain(rng, max_depth=int(rng.integers(0, 2)), k=k, dep=True, allow=("rotate",), dim=2)
            sp_ = dom["spec"]
            if sp_.get("op") != "rotate" or not isinstance(sp_.get("around"), dict) or isinstance(sp_.get("angle"), dict) \
                    or geo.ref(sp_["d"]).free():
                continue
            forced.pop(0)
            force = None
        elif force:
            dom = gen_geo.gen_domain(rng, max_depth=1, k=k, dep=True, allow=("bool",))
            if dom["spec"].get("op") != force or _has_flag(dom["spec"]) or has_polygon(dom["spec"]):
                continue
        else:
            dom = gen_geo.gen_domain(rng, max_depth=int(rng.integers(0, depth + 1)), k=k, dep=True,
                                     allow=("bool", "prim", "prim", "translate", "rotate", "product"))
        spec = copy.deepcopy(dom["spec"])
        node = geo.ref(spec)
        if not node.free():
            continue
        rows = dict(dom["rows"])
        optional = {}
        hetero = None
        if dom["info"]["kind"] == "rotate" and isinstance(spec.get("angle"), dict) and rng.random() < 0.6:
            # the rotation angle depends on two variables; u may be an optional argument of the angle function
            default = float(np.float32(rng.uniform(0.2, 0.8))) if rng.random() < 0.4 else None
            term = {"var": "u", "col": 0, "kind": "lin", "coef": [0.5]}
            if default is not None:
                term["default"] = default
                optional = {"u": default}
            else:
                rows["u"] = [[float(np.float32(x))] for x in rng.uniform(0, 1, len(rows["t"]))]
            spec["angle"]["terms"].append(term)
        elif spec.get("op") in ("union", "cut", "isect") and not _has_flag(spec) and not has_polygon(spec) and (force or rng.random() < 0.4):
            # the operands depend on different variable sets: u moves one operand only (a tenth of the size, so that the
            # generated relation of the operands survives; checked on the twin below)
            hetero = "a" if rng.random() < 0.5 else "b"
            if force:
                hetero = "b" if (len(forced) // 3) % 4 else "a"     # mostly the second operand has the larger set
            ext = geo._hull_box(node, {v: np.asarray(r, float).reshape(len(r), -1)[:1] for v, r in rows.items()}, 1)[0]
            amp = 0.1 * float(np.min(ext[1::2] - ext[0::2]))
            add_u(spec[hetero], 1 if node.dim() > 1 else 0, None, amp)
            rows["u"] = [[float(np.float32(x))] for x in rng.uniform(0, 1, len(rows["t"]))]
            if not _still_fat(spec, rows, rng):
                continue
        elif rng.random() < 0.6 and not has_polygon(spec) and dom["info"]["kind"] != "rotate":
            # in a third of these cases u is an OPTIONAL argument of the parameter functions (python default)
            default = float(np.float32(rng.uniform(0.2, 0.8))) if rng.random() < 0.35 else None
            if dom["info"]["kind"] == "product":
                add_u(spec["a"], 1, default)
            else:
                add_u(spec, 1 if node.dim() > 1 else 0, default)
            if default is None:
                rows["u"] = [[float(np.float32(x))] for x in rng.uniform(0, 1, len(rows["t"]))]
            else:
                optional = {"u": default}
        node = geo.ref(spec)
        free = sorted(node.free())
        if not set(free) <= set(rows):
            continue
        rows = {v: rows[v] for v in free}
        info = dict(dom["info"], desc=node.desc(), dep=True)
        if hetero:
            info["hetero"] = hetero
        if force:
            if not hetero:
                continue
            forced.pop(0)
        cases.append({"spec": spec, "rows": rows, "info": info, "k": len(rows[free[0]]), "free": free, "optional": optional,
                      "seed": int(rng.integers(0, 2 ** 31)), "uservol": bool(rng.random() < 0.2) or spec.get("op") in ("union", "cut")})
    # parameter variables with names of several characters (tau, shift): the declared sets hold names, not characters
    ren = {"t": "tau", "u": "shift"}

    def rename(o):
        if isinstance(o, dict):
            return {k: (ren.get(v, v) if k == "var" and isinstance(v, str) else rename(v)) for k, v in o.items()}
        if isinstance(o, list):
            return [rename(v) for v in o]
        return o
    for j, c_ in enumerate(cases):
        if j % 3 == 1:
            c_["spec"] = rename(c_["spec"])
            c_["rows"] = {ren.get(k, k): v for k, v in c_["rows"].items()}
            c_["free"] = sorted(ren.get(k, k) for k in c_["free"])
            c_["optional"] = {ren.get(k, k): v for k, v in c_["optional"].items()}
            c_["info"] = dict(c_["info"], long_names=True)
    # points (0-dimensional domains) in 2-D / 3-D: moving with one or two variables, constant ones given as a tensor, and a
    # moving point as factor of a product (the product hands the values to both factors: the point is evaluated twice)
    rng6 = np.random.default_rng([seed, 17, 6])
    for i in range(16 if tier == "quick" else 400):
        cases.append({"pointcase": ["moving2", "constant_tensor", "product", "moving1"][i % 4], "dim": int(rng6.choice([2, 3])),
                      "seed": int(rng6.integers(0, 2 ** 31)), "info": {"kind": "point", "desc": "pt"}, "k": 1, "free": ["t", "u"]})
    return cases


def run_point_case(case):
    import torch
    import torchphysics as tp
    res = {"cls": "point|%s|d%d" % (case["pointcase"], case["dim"]), "judged": 0, "nontrivial": False, "viol": [], "counters": {}}
    rng = np.random.default_rng(case["seed"])
    d = case["dim"]
    X = tp.spaces.Rn("x", d)
    a = np.round(rng.uniform(-2, 2, d), 3).astype(np.float32)
    bt = np.round(rng.uniform(0.5, 1.5, d), 3).astype(np.float32)
    bu = np.round(rng.uniform(-1.5, -0.5, d), 3).astype(np.float32)
    tv, uv = float(np.float32(rng.uniform(0.2, 1.8))), float(np.float32(rng.uniform(0.2, 1.8)))
    ta, tbt, tbu = torch.tensor(a), torch.tensor(bt), torch.tensor(bu)
    kind = case["pointcase"]
    mech = {"root": "point", "variant": kind, "dim": d}
    T1 = lambda v: torch.tensor([[v]], dtype=torch.float32)
    try:
        if kind == "moving2":
            P = tp.domains.Point(X, lambda t, u: ta + tbt * t + tbu * u)
            want = a + bt * tv + bu * uv
            objs = {"D(t,u)": P(t=T1(tv), u=T1(uv)), "D(t)(u)": P(t=T1(tv))(u=T1(uv)), "D(u)(t)": P(u=T1(uv))(t=T1(tv)),
                    "D(t,u)(t)": P(t=T1(tv), u=T1(uv))(t=T1(tv + 1.0))}
        elif kind == "moving1":
            P = tp.domains.Point(X, lambda t: ta + tbt * t)
            want = a + bt * tv
            objs = {"D(t)": P(t=T1(tv)), "D(t)(u)": P(t=T1(tv))(u=T1(uv)), "D(t)(t)": P(t=T1(tv))(t=T1(tv + 1.0))}
        elif kind == "constant_tensor":
            P = tp.domains.Point(X, torch.tensor(a))
            want = a
            objs = {"D": P, "D(t)": P(t=T1(tv)), "D(t)(u)": P(t=T1(tv))(u=T1(uv))}
        else:
            S = tp.spaces.R1("s")
            P = tp.domains.Point(X, lambda t: ta + tbt * t) * tp.domains.Interval(S, 0.0, lambda u: 1.0 + u)
            want = a + bt * tv
            objs = {"D(t,u)": P(t=T1(tv), u=T1(uv)), "D(t)(u)": P(t=T1(tv))(u=T1(uv)), "D(u)(t)": P(u=T1(uv))(t=T1(tv))}
    except Exception as e:
        res["viol"].append(viol("exception", "partial evaluation of a %s point raised %s in %s: %s" % (kind, type(e).__name__, exc_site(e),
                                str(e)[:200]), exc=type(e).__name__, site=exc_site(e), call="__call__", **mech))
        return res
    for name, Dq in objs.items():
        m2 = dict(mech, evaluation=name)
        try:
            S_ = Dq.sample_random_uniform(n=3)
            got = S_.coordinates["x"].detach().double().numpy().reshape(-1, d)
            res["judged"] += 1
            res["counters"]["point_evaluations"] = res["counters"].get("point_evaluations", 0) + 1
            if got.shape[0] != 3 or np.abs(got - want[None]).max() > 1e-5 * max(1.0, np.abs(want).max()):
                res["viol"].append(viol("evaluated_sample_outside", "%s of a %s point in %d-D: samples %s, the point is %s" %
                                        (name, kind, d, got[:2].round(5).tolist(), want.round(5).tolist()), target="interior", **m2))
            if kind != "product":
                # the library's Point accepts points within 1e-3 (absolute): the far queries differ by at least 0.05
                third = np.full(d, want[0]) if np.abs(np.full(d, want[0]) - want).max() > 0.05 else want + np.array([0.3] + [0.0] * (d - 1))
                q = np.stack([want, want[::-1] if np.abs(want - want[::-1]).max() > 0.05 else want + 0.5, third]).astype(np.float32)
                inside = Dq._contains(tp.spaces.Points(torch.tensor(q), X)).reshape(-1).bool().numpy()
                exp = np.array([True, False, False])
                res["judged"] += 3
                if (inside != exp).any():
                    res["viol"].append(viol("evaluated_membership_differs", "%s of a %s point %s in %d-D: membership of %s is %s, expected %s" %
                                            (name, kind, want.round(5).tolist(), d, q.round(5).tolist(), inside.tolist(), exp.tolist()), **m2))
        except Exception as e:
            res["viol"].append(viol("exception", "%s of a %s point: %s in %s: %s" % (name, kind, type(e).__name__, exc_site(e), str(e)[:200]),
                                    exc=type(e).__name__, site=exc_site(e), call="sample", **m2))
    res["nontrivial"] = res["judged"] >= 3
    return res


def _pts(names_dims, X):
    import torch
    from torchphysics.problem.spaces import Points
    coords, off = {}, 0
    for n, d in names_dims:
        coords[n] = torch.tensor(X[:, off:off + d].astype(np.float32))
        off += d
    return Points.from_coordinates(coords)


def _params(env):
    import torch
    from torchphysics.problem.spaces import Points
    if not env:
        return Points.empty()
    return Points.from_coordinates({k: torch.tensor(v.astype(np.float32)) for k, v in env.items()})


def _subsets(free):
    out = []
    for mask in range(1, 2 ** len(free)):
        out.append([free[i] for i in range(len(free)) if mask >> i & 1])
    return out


def run_case(case):
    import torch
    if case.get("pointcase"):
        return run_point_case(case)
    info = case["info"]
    res = {"cls": "", "judged": 0, "nontrivial": False, "viol": [], "counters": {}}
    D, node, Pfull, env = sampling.build_case(case)
    rng = np.random.default_rng(case["seed"])
    k = case["k"]
    free = case["free"]
    shape = "".join(c for c in info["desc"] if not c.isdigit())
    res["cls"] = "%s|%s|k%d" % (shape, "+".join(free), min(k, 2))
    names_dims = node.space()
    dim = node.dim()
    mech0 = {"root": info["kind"], "free": "+".join(free)}
    is_dep_product = isinstance(node, geo.Product) and node.dependent()
    # --- declared necessary variables of the original
    nv = getattr(D, "necessary_variables", None)
    res["judged"] += 1
    if nv is None or set(nv) != set(free):
        res["viol"].append(viol("necessary_variables", "%s declares necessary_variables=%s, free variables of the expression are %s" %
                                (info["desc"], sorted(nv) if nv is not None else None, free), stage="original", **mech0))
    if not res["viol"]:
        check_declared(D, node, (), res, mech0, "original_parts", info["desc"])
    # --- snapshot of the original (answers on a fixed query set)
    nq = 200
    ridx = rng.integers(0, k, nq)
    envq = {v: env[v][ridx] for v in free}
    box = geo._hull_box(node, envq, nq)
    ext = box[:, 1::2] - box[:, 0::2]
    Xq = (box[:, 0::2] - 0.15 * ext + rng.random((nq, dim)) * 1.3 * ext).astype(np.float32).astype(np.float64)
    L = float(max(1.0, ext.max(), np.abs(box).max()))
    Pq = _pts(names_dims, Xq)

    def snapshot():
        out = {}
        try:
            out["contains"] = D._contains(Pq, _params(envq)).reshape(-1).bool().numpy().copy()
        except Exception as e:
            out["contains"] = "EXC %r" % e
        out["nv"] = sorted(getattr(D, "necessary_variables", None) or [])
        if not is_dep_product:
            try:
                out["vol"] = np.asarray(D.volume(Pfull).detach().double().numpy()).copy()
            except Exception as e:
                out["vol"] = "EXC %r" % e
        return out
    snap0 = snapshot()
    optional = case.get("optional", {})
    if optional:
        # the optional variable is not in the parameter rows: the original uses its declared default; fixing it by
        # partial evaluation must override the default
        env = dict(env)
        mech0["optional_arg"] = True
    for fixed in _subsets(free + sorted(optional)):
        rest = [v for v in free if v not in fixed]
        j = int(rng.integers(0, k))
        mech = dict(mech0, fixed="+".join(fixed))
        for v in optional:
            val = float(np.float32(rng.uniform(1.0, 2.0))) if v in fixed else float(np.float32(optional[v]))
            env[v] = np.full((k, 1), val)
        vals = {v: torch.tensor(env[v][j:j + 1].astype(np.float32)) for v in fixed}
        try:
            Dp = D(**vals)
        except Exception as e:
            res["viol"].append(viol("exception", "%s(**%s) raised %s in %s: %s" % (info["desc"], fixed, type(e).__name__, exc_site(e), str(e)[:300]),
                                    exc=type(e).__name__, site=exc_site(e), call="__call__", **mech))
            continue
        res["counters"]["partial_evaluations"] = res["counters"].get("partial_evaluations", 0) + 1
        nvp = getattr(Dp, "necessary_variables", None)
        res["judged"] += 1
        if nvp is None or set(nvp) != set(rest):
            res["viol"].append(viol("necessary_variables", "%s(**%s) declares necessary_variables=%s, expected %s" %
                                    (info["desc"], fixed, sorted(nvp) if nvp is not None else None, rest), stage="evaluated", **mech))
        else:
            check_declared(Dp, node, fixed, res, mech, "evaluated_parts", "%s(**%s)" % (info["desc"], fixed))
        # environment: fixed values for every query row, remaining variables row-wise
        allv = free + sorted(optional)
        envq_all = dict(envq, **{v: env[v][ridx] for v in optional})
        env_e = {v: (np.repeat(env[v][j:j + 1], nq, 0) if v in fixed else envq_all[v]) for v in allv}
        rest_q = {v: envq[v] for v in rest}
        bx = geo._hull_box(node, env_e, nq)
        ex = bx[:, 1::2] - bx[:, 0::2]
        X = (bx[:, 0::2] - 0.15 * ex + rng.random((nq, dim)) * 1.3 * ex).astype(np.float32).astype(np.float64)
        Le = float(max(1.0, ex.max(), np.abs(bx).max()))
        f = node.phi(X, env_e)
        far = np.abs(f) >= BAND * Le
        try:
            ans = Dp._contains(_pts(names_dims, X), _params(rest_q)).reshape(-1).bool().numpy()
            bad = far & (ans != (f <= 0))
            res["judged"] += int(far.sum())
            res["counters"]["membership_rows"] = res["counters"].get("membership_rows", 0) + int(far.sum())
            if bad.any():
                i = int(np.where(bad)[0][0])
                res["viol"].append(viol("evaluated_membership_differs", "%s(**%s): %d of %d membership answers differ from the original "
                                        "expression at those values, e.g. x=%s env=%s library %s twin level %.4g" %
                                        (info["desc"], fixed, int(bad.sum()), int(far.sum()), X[i].tolist(),
                                         {v: env_e[v][i].tolist() for v in allv}, bool(ans[i]), f[i]), **mech))
        except Exception as e:
            res["viol"].append(viol("exception", "%s(**%s)._contains raised %s in %s: %s" % (info["desc"], fixed, type(e).__name__, exc_site(e),
                                    str(e)[:300]), exc=type(e).__name__, site=exc_site(e), call="_contains", **mech))
        # samples of the evaluated domain and of its boundary lie in the twin at env
        rest_rows = {v: env[v] for v in rest}
        Prest = _params(rest_rows)
        kk = k if rest else 1
        for target in ("interior", "boundary"):
            try:
                Dt = Dp if target == "interior" else D.boundary(**vals)
                probes.begin_call()
                S = Dt.sample_random_uniform(n=15, params=Prest)
                probes.end_call()
            except Exception as e:
                res["viol"].append(viol("exception", "%s of %s(**%s).sample_random_uniform raised %s in %s: %s" % (target, info["desc"], fixed,
                                        type(e).__name__, exc_site(e), str(e)[:300]), exc=type(e).__name__, site=exc_site(e), call="sample", target=target, **mech))
                continue
            Xs = np.concatenate([S.coordinates[n].double().numpy().reshape(len(S), -1) for n, _ in names_dims], 1)
            if len(Xs) != 15 * kk:
                res["viol"].append(viol("count", "%s of %s(**%s): %d samples for n=15 and %d remaining parameter rows" %
                                        (target, info["desc"], fixed, len(Xs), kk if rest else 0), target=target, **mech))
                continue
            sidx = np.arange(len(Xs)) // 15
            env_s = {v: (np.repeat(env[v][j:j + 1], len(Xs), 0) if v in fixed else env[v][sidx]) for v in allv}
            tnode = node if target == "interior" else geo.ref({"op": "boundary", "d": case["spec"]})
            Ls = max(Le, float(np.abs(Xs).max()))
            ok, amb = tnode.member(Xs, env_s, TOL * Ls, Ls)
            res["judged"] += int((~amb).sum())
            res["counters"]["sample_rows_" + target] = res["counters"].get("sample_rows_" + target, 0) + int((~amb).sum())
            if (~ok & ~amb).any():
                i = int(np.where(~ok & ~amb)[0][0])
                res["viol"].append(viol("evaluated_sample_outside", "%s of %s(**%s): %d of %d samples are not in the original expression at "
                                        "those values, e.g. x=%s env=%s" % (target, info["desc"], fixed, int((~ok & ~amb).sum()), len(Xs),
                                                                            Xs[i].tolist(), {v: env_s[v][i].tolist() for v in allv}), target=target, **mech))
        # volume / bounding box commute with evaluation
        if not is_dep_product:
            full_rows = {v: (np.repeat(env[v][j:j + 1], kk, 0) if v in fixed else env[v]) for v in allv if v in free or v in fixed}
            Pf = _params(full_rows)
            for what in ("volume", "bounding_box"):
                try:
                    a = getattr(Dp, what)(Prest)
                    b = getattr(D, what)(Pf)
                except Exception as e:
                    res["viol"].append(viol("exception", "%s of %s(**%s) raised %s in %s: %s" % (what, info["desc"], fixed, type(e).__name__,
                                            exc_site(e), str(e)[:300]), exc=type(e).__name__, site=exc_site(e), call=what, **mech))
                    continue
                a = np.asarray(a.detach().double().numpy() if hasattr(a, "detach") else a, float).reshape(-1)
                b = np.asarray(b.detach().double().numpy() if hasattr(b, "detach") else b, float).reshape(-1)
                res["judged"] += 1
                res["counters"][what + "_compared"] = res["counters"].get(what + "_compared", 0) + 1
                if what == "bounding_box":
                    # both accepted layouts (flat hull / one row per parameter row) are reduced to the hull over the rows
                    a, b = a.reshape(-1, 2 * dim), b.reshape(-1, 2 * dim)
                    a = np.stack([a[:, 0::2].min(0), a[:, 1::2].max(0)], 1).reshape(-1)
                    b = np.stack([b[:, 0::2].min(0), b[:, 1::2].max(0)], 1).reshape(-1)
                if a.size == 1 and b.size > 1 and np.allclose(b, b[0]):
                    b = b[:1]
                if b.size == 1 and a.size > 1 and np.allclose(a, a[0]):
                    a = a[:1]
                if a.shape != b.shape or not np.allclose(a, b, rtol=1e-5, atol=1e-5 * Le):
                    res["viol"].append(viol("evaluated_%s_differs" % what, "%s(**%s).%s(rest) = %s but the original at the full parameters gives %s" %
                                            (info["desc"], fixed, what, np.round(a, 5).tolist()[:8], np.round(b, 5).tolist()[:8]), **mech))
        # nested evaluation
        if len(fixed) == 2:
            try:
                # optional arguments first: once every required name is bound the value is final (absent optional
                # arguments take their defaults, C13), so a later value for an optional argument cannot apply
                order = sorted(fixed, key=lambda v: v not in optional)
                D1 = D(**{order[0]: vals[order[0]]})(**{order[1]: vals[order[1]]})
                a1 = D1._contains(_pts(names_dims, X), _params(rest_q)).reshape(-1).bool().numpy()
                a2 = Dp._contains(_pts(names_dims, X), _params(rest_q)).reshape(-1).bool().numpy()
                res["judged"] += 1
                res["counters"]["nested_evaluations"] = res["counters"].get("nested_evaluations", 0) + 1
                if (a1 != a2).any():
                    res["viol"].append(viol("nested_evaluation_differs", "%s: D(**v1)(**v2) and D(**v1, **v2) disagree on %d of %d points" %
                                            (info["desc"], int((a1 != a2).sum()), len(a1)), **mech))
            except Exception as e:
                res["viol"].append(viol("exception", "nested evaluation of %s raised %s in %s: %s" % (info["desc"], type(e).__name__, exc_site(e),
                                        str(e)[:300]), exc=type(e).__name__, site=exc_site(e), call="nested", **mech))
    # --- original unchanged
    check_declared(D, node, (), res, mech0, "original_parts_after_evaluations", info["desc"])
    snap1 = snapshot()
    res["judged"] += 1
    for key in snap0:
        a, b = snap0[key], snap1[key]
        same = (a == b) if not isinstance(a, np.ndarray) else (isinstance(b, np.ndarray) and a.shape == b.shape and np.array_equal(a, b))
        if not same:
            res["viol"].append(viol("original_changed", "%s: %s of the original domain changed after partial evaluation (%s -> %s)" %
                                    (info["desc"], key, str(a)[:80], str(b)[:80]), what=key, **mech0))
    # --- a user-set volume is a property of the domain and must survive partial evaluation
    if case.get("uservol") and len(free) >= 1 and not is_dep_product:
        try:
            D2 = geo.build(case["spec"])
            v = free[0]
            if case["seed"] % 2:
                # the user volume as a function of the parameter that gets fixed (what the library's warnings recommend)
                D2.set_volume(eval("lambda %s: 7.25 + 0.0 * %s" % (v, v)))
            else:
                D2.set_volume(7.25)
            Dp = D2(**{v: torch.tensor(env[v][:1].astype(np.float32))})
            rest = [w for w in free if w != v]
            got = float(np.asarray(Dp.volume(_params({w: env[w][:1] for w in rest})).detach().double().numpy()).reshape(-1)[0])
            res["judged"] += 1
            res["counters"]["user_volume_checks"] = 1
            if abs(got - 7.25) > 1e-4:
                res["viol"].append(viol("user_volume_lost", "%s: set_volume(7.25) then D(**{%s}) gives volume %.5g" % (info["desc"], v, got),
                                        user_volume=True, **mech0))
        except Exception as e:
            res["viol"].append(viol("exception", "user volume + partial evaluation of %s raised %s in %s: %s" % (info["desc"], type(e).__name__,
                                    exc_site(e), str(e)[:200]), exc=type(e).__name__, site=exc_site(e), call="uservol", user_volume=True, **mech0))
    res["nontrivial"] = res["judged"] >= 30
    return res


def sample_of(case, r):
    return {"spec": case.get("spec"), "rows": case.get("rows"), "free": case.get("free"), "class": r.get("cls"),
            "judged": r.get("judged"), "status": r.get("status")}
