"""C07 -- training through the Solver equals the reference optimisation loop.

Lock-step differential monitor.  For every generated world (JSON spec) two fresh, identical problems are built:

  reference : tpmon.c07_refloop.run -- plain PyTorch loop, loss = sum_i w_i * cond_i(device='cpu', iteration=it),
              backward, optimizer.step, scheduler.step every `frequency` steps; adaptive point weights ascend through
              the harness' own reversal (no autograd.Function of the library)
  real      : torchphysics.solver.Solver + pytorch_lightning.Trainer(max_steps=steps)

and the monitors compare / check

  * the learnable state after EVERY step (all nn.Parameters found by the harness' own attribute walk over the
    training conditions: network weights, inverse-problem Parameters, adaptive point weights, parameters owned by a
    user-defined condition) and, at the end, the optimizer state, learning rates and scheduler counter,
  * the event log: every training condition called exactly once per step, with iteration = 0,1,2,... and device cpu,
    validation conditions only inside validation runs; what the user-defined RecordingCondition logged,
  * every reachable learnable tensor is held by the optimizer,
  * adaptive point weights move upwards in the first step (direct sign probe, optimizers without weight decay),
  * snapshots of learnable + optimizer state before / after each validation run are identical.

Staged worlds run 2-3 fits in ONE world (shared models / Parameters, own Solver + OptimizerSetting per stage, conditions
reused or freshly built, bystander conditions never trained); every monitor above is evaluated per stage, and after
each stage every learnable tensor of the shared objects is compared with the reference as well.
"""
import numpy as np
import torch

from ..core import viol, exc_site, Inconclusive

LEVEL = "exploration"
RULE = ("seeded generator of training worlds: 1-5 training conditions drawn from PINNCondition / DataCondition / "
        "ParameterCondition / AdaptiveWeightsCondition / PeriodicCondition / PIDeepONetCondition / user-defined "
        "RecordingCondition with weights in {0.25..3}, models FCN / QRES / DeepRitzNet / Sequential(NormalizationLayer,"
        "FCN) / DeepONet shared or separate, 0-2 inverse-problem Parameters, optimizers SGD(+momentum, nesterov), Adam, "
        "AdamW, RMSprop, Adagrad (LBFGS on the thorough tier, state equality only), schedulers none / StepLR / "
        "ExponentialLR with frequency 1-3, 1-8 steps, 0-2 validation conditions with val_check_interval 1-3 and 0 or 2 "
        "sanity validation steps, one or several epochs (limit_train_batches), deterministic grid samplers (static or "
        "not); plus STAGED worlds (about a quarter of the cases): 2-3 training stages in one world and one process, each "
        "with its own Solver / Trainer / OptimizerSetting (created with explicit optimizer_args, WITHOUT the optimizer_args "
        "argument, the Solver's default setting, or the previous stage's setting object with .lr changed), different "
        "lr / optimizer / scheduler per stage, shared model and Parameter objects, conditions reused or freshly built, "
        "bystander conditions built with the shared objects before the trained ones and never given to a Solver; nothing "
        "of the library is reset between stages or cases of a worker process; a case is non-trivial when the state after every step was compared with a reference that moved; "
        "distinct = (condition kinds, model kinds, #parameters, optimizer, scheduler, validation, epochs)")
RULE += '; 20 cases per run in which several conditions share one name; long runs (1210-1330 steps) with schedulers every 7 / 300 / 400 steps'
REQUIRED_REACH = ["Solver.training_step", "Solver.on_train_start", "Solver.validation_step",
                  "Solver.configure_optimizers", "AdaptiveWeightLayer.GradReverse.backward", "Parameter.__init__",
                  "AdaptiveWeightsCondition.__init__", "PeriodicCondition.forward", "DataCondition.forward",
                  "ParameterCondition.forward", "DeepONetSingleModuleCondition.forward"]
MIN_NONTRIVIAL = 40
ASSUMPTIONS = ["sampling is deterministic (products of grid samplers, static or not; unshuffled data loaders), so the "
               "reference loop and the Solver see the same points",
               "equality tolerance 1e-6 + 1e-4 * max|theta_s - theta_0| (observed difference on this tree: exactly 0)",
               "CPU, float32, no gradient accumulation / clipping; with several epochs the epoch length is a multiple "
               "of the scheduler frequency",
               "LBFGS (thorough tier): only learnable and optimizer state are compared; per-step call counts and "
               "iteration indices are not judged because the closure is evaluated several times per step",
               "staged worlds: the reference builds a fresh optimizer per stage from the (class, lr, args, scheduler) the "
               "stage was configured with; the iteration index restarts at 0 in every fit; no validation conditions",
               "the reference loop calls the library's condition objects for the individual losses (their value is "
               "property C04); the sum, the weights, the iteration index, the optimizer/scheduler handling and the "
               "ascent of adaptive weights are re-implemented by the harness"]
CASE_TIMEOUT = 120

WEIGHTS = [0.25, 0.5, 1.0, 2.0, 3.0]
PLAIN_MODELS = ["FCN", "QRES", "DeepRitz", "SeqNorm"]


def warmup():
    from .. import c07_harness  # noqa: F401  (imports pytorch_lightning before any watchdog is armed)
    from .. import c07_refloop  # noqa: F401


# ---------------------------------------------------------------------------------------------
# generator
# ---------------------------------------------------------------------------------------------

def _gen_model(rng, kind):
    h = lambda: [int(rng.integers(3, 7)) for _ in range(int(rng.integers(1, 3)))]
    if kind in ("FCN", "QRES", "SeqNorm"):
        return {"kind": kind, "hidden": h()}
    if kind == "DeepRitz":
        return {"kind": kind, "width": int(rng.integers(3, 6)), "depth": int(rng.integers(1, 3))}
    return {"kind": "DeepONet", "trunk_hidden": h(), "branch_hidden": h(), "K": int(rng.integers(2, 5)),
            "n_disc": int(rng.integers(3, 6)), "n_fn": int(rng.integers(2, 4)), "fn_static": bool(rng.random() < 0.5)}


def _gen_sampler(rng, static=None):
    return {"where": str(rng.choice(["inner", "inner", "xbound", "t0"])),
            "n": [int(rng.integers(2, 5)), int(rng.integers(2, 5))],
            "static": bool(rng.random() < 0.6) if static is None else static}


def gen_opt(rng, tier, allow_lbfgs=True):
    names = ["SGD", "SGD", "Adam", "Adam", "AdamW", "RMSprop", "Adagrad"]
    if tier == "thorough" and allow_lbfgs:
        names.append("LBFGS")
    cls = str(rng.choice(names))
    pick = lambda xs: xs[int(rng.integers(0, len(xs)))]
    if cls == "SGD":
        o = {"cls": cls, "lr": pick([0.01, 0.03]),
             "args": pick([{}, {"momentum": 0.9}, {"momentum": 0.8, "nesterov": True},
                           {"momentum": 0.9, "weight_decay": 0.01}, {"momentum": 0.9, "dampening": 0.1}])}
    elif cls == "Adam":
        o = {"cls": cls, "lr": pick([0.003, 0.01]),
             "args": pick([{}, {"betas": [0.8, 0.9]}, {"amsgrad": True}, {"weight_decay": 0.01}])}
    elif cls == "AdamW":
        # weight_decay=0.0 is a falsy value that differs from the class default (0.01)
        o = {"cls": cls, "lr": 0.01, "args": pick([{}, {"weight_decay": 0.1}, {"weight_decay": 0.0}, {"weight_decay": 0.0, "amsgrad": False}])}
    elif cls == "RMSprop":
        o = {"cls": cls, "lr": 0.003, "args": pick([{}, {"momentum": 0.5}, {"centered": True}, {"alpha": 0.0, "momentum": 0.0}])}
    elif cls == "Adagrad":
        o = {"cls": cls, "lr": 0.05, "args": pick([{}, {"lr_decay": 0.1}])}
    else:
        o = {"cls": cls, "lr": 0.5, "args": pick([{"max_iter": 4, "history_size": 3},
                                                  {"max_iter": 3, "history_size": 2, "line_search_fn": "strong_wolfe"}])}
    r = rng.random()
    if cls != "LBFGS" and r >= 0.35:
        if r < 0.7:
            s = {"cls": "StepLR", "args": {"step_size": int(rng.integers(1, 3)), "gamma": 0.5}}
        else:
            s = {"cls": "ExponentialLR", "args": {"gamma": 0.7}}
        s["freq"] = int(rng.integers(1, 4))
        o["sched"] = s
    return o


def gen_spec(rng, tier, dup_names=None, late_weights=False):
    n_par = int(rng.choice([0, 1, 2], p=[0.35, 0.4, 0.25]))
    params = [{"name": "D", "init": [round(float(rng.uniform(0.5, 1.5)), 3)]},
              {"name": "k", "init": [round(float(rng.uniform(0.5, 1.5)), 3), round(float(rng.uniform(0.2, 0.8)), 3)]}][:n_par]
    n_models = int(rng.integers(1, 3))
    models = [_gen_model(rng, str(rng.choice(PLAIN_MODELS))) for _ in range(n_models)]
    opt = gen_opt(rng, tier)
    lbfgs = opt["cls"] == "LBFGS"
    n_conds = int(rng.integers(1, 5))
    kinds = ["pinn", "pinn", "data", "adaptive", "periodic"]
    if n_par:
        kinds += ["param"]
    if not lbfgs:
        kinds += ["pideeponet", "hpcm"]
    conds = []
    don = None
    for i in range(n_conds):
        kind = str(rng.choice(kinds))
        c = {"kind": kind, "weight": float(rng.choice(WEIGHTS))}
        mi = int(rng.integers(0, n_models))
        if kind in ("pinn", "adaptive"):
            c["model"] = mi
            c["sampler"] = _gen_sampler(rng, static=True if kind == "adaptive" else None)
            if n_par and rng.random() < 0.6:
                pj = int(rng.integers(0, n_par))
                c["param"] = pj
                c["res"] = str(rng.choice(["r_lap_D", "r_heat_D", "r_scale_D"])) if pj == 0 else "r_adv_k"
            else:
                c["res"] = str(rng.choice(["r_dirichlet", "r_source", "r_datafn", "r_lap", "r_heat"]))
        elif kind == "periodic":
            c["model"] = mi
            c["sampler"] = {"n": [1, int(rng.integers(2, 6))], "static": bool(rng.random() < 0.5)}
            if n_par and rng.random() < 0.5:
                c["param"] = 0
                c["res"] = "p_left_right_D"
            else:
                c["res"] = "p_left_right"
        elif kind == "data":
            c["model"] = mi
            c.update(n_data=int(rng.integers(4, 10)), data_seed=int(rng.integers(0, 1000)), batch=int(rng.integers(2, 6)),
                     norm=int(rng.choice([2, 2, 1])), root=float(rng.choice([1.0, 1.0, 2.0])),
                     full=bool(rng.random() < 0.3))
        elif kind == "hpcm":
            if n_models < 2:
                models.insert(1, _gen_model(rng, str(rng.choice(PLAIN_MODELS))))
                n_models = 2
                if don is not None:
                    don += 1
                    for q in conds:
                        if q.get("kind") == "pideeponet":
                            q["model"] = don
            c["model"] = mi
            c["corr_model"] = int((mi + 1) % n_models)
            c.update(n_data=int(rng.integers(4, 10)), data_seed=int(rng.integers(0, 1000)), batch=int(rng.integers(2, 6)),
                     norm=2, root=1.0, full=bool(rng.random() < 0.5))
        elif kind == "param":
            c["param"] = int(rng.integers(0, n_par))
            c["target"] = float(rng.choice([1.0, 0.5]))
        elif kind == "pideeponet":
            if don is None:
                models.append(_gen_model(rng, "DeepONet"))
                don = len(models) - 1
            c["model"] = don
            c["sampler"] = _gen_sampler(rng)
            c["res"] = str(rng.choice(["o_fit", "o_fit_x"]))
        conds.append(c)
    if rng.random() < 0.5:
        conds.insert(int(rng.integers(0, len(conds) + 1)),
                     {"kind": "recording", "model": int(rng.integers(0, n_models)), "weight": float(rng.choice(WEIGHTS)),
                      "sampler": _gen_sampler(rng), "uses_iteration": not lbfgs})
    if conds[-1]["weight"] == 1.0 and rng.random() < 0.8:
        conds[-1]["weight"] = float(rng.choice([0.25, 0.5, 2.0, 3.0]))
    # random samplers drawing from the global torch RNG (both runs reseed it at the start of every step)
    reseed = False
    rnd = lambda static=False: {"where": "inner", "n": [int(rng.integers(2, 5)), int(rng.integers(2, 5))], "random": True,
                                "static": static}
    if not lbfgs and rng.random() < 0.3:
        for c in conds:
            if c["kind"] == "pinn" and rng.random() < 0.7:
                c["sampler"] = rnd(static=bool(rng.random() < 0.25))
                reseed = True
    # weight-0 ("monitor only") training conditions, at any position (also first)
    r = rng.random()
    if r < 0.35:
        z = {"kind": "pinn", "model": int(rng.integers(0, n_models)), "weight": 0.0,
             "res": str(rng.choice(["r_dirichlet", "r_source", "r_lap", "r_heat"])), "sampler": _gen_sampler(rng)}
        if not lbfgs and (reseed or rng.random() < 0.35):
            z["sampler"] = rnd()
            reseed = True
        pos = 0 if rng.random() < 0.5 else int(rng.integers(0, len(conds) + 1))
        conds.insert(pos, z)
        if z["sampler"].get("random") and not any(c.get("sampler", {}).get("random") and c["weight"] != 0
                                                   for c in conds[pos + 1:]):
            # a weighted condition that samples randomly AFTER the monitor-only one
            conds.append({"kind": "pinn", "model": int(rng.integers(0, n_models)), "weight": float(rng.choice([0.5, 2.0, 3.0])),
                          "res": str(rng.choice(["r_dirichlet", "r_source", "r_heat"])), "sampler": rnd()})
    elif r < 0.45 and len(conds) >= 2:
        conds[int(rng.integers(0, len(conds)))]["weight"] = 0.0
        if all(c["weight"] == 0 for c in conds):
            conds[-1]["weight"] = 2.0
    # validation conditions (on the training models)
    vals = []
    for i in range(int(rng.choice([0, 1, 2], p=[0.45, 0.35, 0.2]))):
        kind = str(rng.choice(["pinn", "pinn", "data", "recording"]))
        if lbfgs and kind == "recording":
            kind = "pinn"       # its own parameter would be a validation-only tensor inside the LBFGS flat vector
        vm = int(rng.integers(0, n_models))
        trained = sorted({c["model"] for c in conds if c.get("model") is not None and c["model"] < n_models})
        if trained and (lbfgs or rng.random() < 0.7):
            # LBFGS works on one flat vector of everything the optimizer holds: a validation-only network would change
            # the summation layout of its dot products (a property-preserving float re-ordering), so it is not generated
            vm = int(rng.choice(trained))
        elif lbfgs:
            continue
        v = {"kind": kind, "model": vm, "weight": 1.0}
        if kind == "pinn":
            v["res"] = str(rng.choice(["r_dirichlet", "r_source", "r_lap", "r_heat", "r_datafn"]))
            v["sampler"] = _gen_sampler(rng)
        elif kind == "data":
            v.update(n_data=int(rng.integers(4, 10)), data_seed=int(rng.integers(0, 1000)), batch=int(rng.integers(2, 6)),
                     norm=2, root=1.0, full=bool(rng.random() < 0.7))
        else:
            v["sampler"] = _gen_sampler(rng)
            v["uses_iteration"] = False
        if kind == "pinn" and rng.random() < 0.3:
            # the validation condition evaluates on the very sampler object of a training condition (deterministic ones)
            cand = [i for i, c in enumerate(conds) if c["kind"] in ("pinn", "adaptive") and not c["sampler"].get("random")]
            if cand:
                v["sampler_of"] = int(rng.choice(cand))
        vals.append(v)
    if don is not None and rng.random() < 0.65:
        # a validation condition on the DeepONet that SHARES the model and the function set with a training condition
        tg = bool(rng.random() < 0.3)
        vals.append({"kind": "pideeponet", "model": don, "weight": 1.0, "res": "o_fit_x" if tg else "o_fit",
                     "track_gradients": tg, "sampler": _gen_sampler(rng)})
    # prune unused models / parameters and re-index
    used_m = sorted({c[q] for c in conds + vals for q in ("model", "corr_model") if c.get(q) is not None})
    mmap = {m: i for i, m in enumerate(used_m)}
    for c in conds + vals:
        for q in ("model", "corr_model"):
            if c.get(q) is not None:
                c[q] = mmap[c[q]]
    models = [models[m] for m in used_m]
    used_p = sorted({c["param"] for c in conds if c.get("param") is not None})
    pmap = {p: i for i, p in enumerate(used_p)}
    for c in conds:
        if c.get("param") is not None:
            c["param"] = pmap[c["param"]]
    params = [params[p] for p in used_p]
    steps = int(rng.integers(1, 9))
    if lbfgs:
        steps = min(steps, 4)
    trainer = {}
    if vals:
        trainer.update(val_interval=int(rng.integers(1, 4)), sanity=int(rng.choice([0, 2])))
    freq = opt.get("sched", {}).get("freq", 1)
    if rng.random() < 0.2 and steps >= 3:
        cands = [L for L in range(2, steps) if L % freq == 0]
        if cands:
            trainer["limit_train_batches"] = int(rng.choice(cands))
    out = {"seed": int(rng.integers(0, 2**31 - 1)), "models": models, "params": params, "conds": conds, "vals": vals,
           "opt": opt, "trainer": trainer, "steps": steps, "reseed": reseed}
    if len(conds) >= 2 and dup_names:
        out["dup_names"] = dup_names
    if late_weights:
        # the weights are assigned after the Solver object was constructed (the constructor values are decoys)
        out["late_weights"] = [0.0 if c["weight"] == 0 else float(rng.choice([0.25, 0.5, 2.0, 3.0, 5.0])) for c in conds]
    return out


def _gen_stage_conds(rng, n_models, n_par, n, need_param):
    """1-3 conditions on the shared models / Parameters of a staged world"""
    kinds = ["pinn", "pinn", "data", "adaptive", "periodic"] + (["param", "pinn"] if n_par else [])
    conds = []
    for i in range(n):
        kind = str(rng.choice(kinds))
        if need_param and i == 0 and n_par:
            kind = str(rng.choice(["pinn", "adaptive", "param"]))
        c = {"kind": kind, "weight": float(rng.choice(WEIGHTS))}
        mi = int(rng.integers(0, n_models))
        if kind in ("pinn", "adaptive"):
            c["model"] = mi
            c["sampler"] = _gen_sampler(rng, static=True if kind == "adaptive" else None)
            if n_par and (rng.random() < 0.7 or (need_param and i == 0)):
                pj = int(rng.integers(0, n_par))
                c["param"] = pj
                c["res"] = str(rng.choice(["r_lap_D", "r_heat_D", "r_scale_D"])) if pj == 0 else "r_adv_k"
            else:
                c["res"] = str(rng.choice(["r_dirichlet", "r_source", "r_datafn", "r_lap", "r_heat"]))
        elif kind == "periodic":
            c["model"] = mi
            c["sampler"] = {"n": [1, int(rng.integers(2, 6))], "static": bool(rng.random() < 0.5)}
            if n_par and rng.random() < 0.5:
                c["param"] = 0
                c["res"] = "p_left_right_D"
            else:
                c["res"] = "p_left_right"
        elif kind == "data":
            c["model"] = mi
            c.update(n_data=int(rng.integers(4, 10)), data_seed=int(rng.integers(0, 1000)), batch=int(rng.integers(2, 6)),
                     norm=2, root=1.0, full=bool(rng.random() < 0.3))
        else:
            c["param"] = int(rng.integers(0, n_par))
            c["target"] = float(rng.choice([1.0, 0.5]))
        conds.append(c)
    if rng.random() < 0.3:
        conds.append({"kind": "recording", "model": int(rng.integers(0, n_models)), "weight": float(rng.choice(WEIGHTS)),
                      "sampler": _gen_sampler(rng), "uses_iteration": True})
    return conds


def gen_staged_spec(rng, tier):
    """two or three training stages in one world: shared models and Parameters, own Solver / OptimizerSetting per stage"""
    n_par = int(rng.choice([0, 1, 2], p=[0.15, 0.5, 0.35]))
    params = [{"name": "D", "init": [round(float(rng.uniform(0.5, 1.5)), 3)]},
              {"name": "k", "init": [round(float(rng.uniform(0.5, 1.5)), 3), round(float(rng.uniform(0.2, 0.8)), 3)]}][:n_par]
    n_models = int(rng.integers(1, 3))
    models = [_gen_model(rng, str(rng.choice(PLAIN_MODELS))) for _ in range(n_models)]
    stages = []
    prev_opt = None
    for si in range(int(rng.integers(2, 4))):
        st = {"steps": int(rng.integers(1, 5)), "trainer": {}}
        if si and rng.random() < 0.35:
            st["reuse"] = True
            st["conds"] = []
        else:
            st["conds"] = _gen_stage_conds(rng, n_models, n_par, int(rng.integers(1, 4)), need_param=True)
            if rng.random() < 0.5:
                # conditions built BEFORE the trained ones with the shared objects, never handed to a Solver
                st["bystanders"] = _gen_stage_conds(rng, n_models, n_par, int(rng.integers(1, 3)), need_param=True)
        r = rng.random()
        if si and prev_opt is not None and not prev_opt.get("default_setting") and r < 0.25:
            # the user keeps his OptimizerSetting object and only changes its learning rate
            o = dict(prev_opt)
            o["lr"] = float(np.float32(prev_opt["lr"] * float(rng.choice([0.2, 0.5, 3.0]))))
            st["same_setting"] = True
        elif r < 0.35:
            o = {"cls": "Adam", "lr": 0.001, "args": {}, "default_setting": True}       # Solver(...) without a setting
        else:
            o = gen_opt(rng, tier, allow_lbfgs=False)
            if rng.random() < 0.6:
                o["args"] = {}
                o["default_args"] = True             # OptimizerSetting(...) without the optimizer_args argument
            o["lr"] = float(np.float32(o["lr"] * float(rng.choice([1.0, 0.4, 2.0, 0.15]))))
        st["opt"] = o
        prev_opt = o
        stages.append(st)
    return {"seed": int(rng.integers(0, 2**31 - 1)), "models": models, "params": params, "stages": stages}


def gen_cases(seed, tier):
    rng = np.random.default_rng([seed, 7])
    n = 130 if tier == "quick" else 6000
    single = [{"spec": gen_spec(rng, tier)} for _ in range(n)]
    rng2 = np.random.default_rng([seed, 7, 1])
    m = 50 if tier == "quick" else 2000
    staged = [{"spec": gen_staged_spec(rng2, tier)} for _ in range(m)]
    # conditions that share one name (all left at a default name / one name per kind): the log keys coincide, the loss must
    # still be the weighted sum over all of them
    rng3 = np.random.default_rng([seed, 7, 2])
    for i in range(20 if tier == "quick" else 600):
        for _ in range(20):
            sp = gen_spec(rng3, tier, dup_names=("all" if i % 2 else "kind"))
            if sp.get("dup_names"):
                break
        single.append({"spec": sp})
    rng5 = np.random.default_rng([seed, 7, 4])
    for i in range(16 if tier == "quick" else 500):
        single.append({"spec": gen_spec(rng5, tier, late_weights=True)})
    # a corrupted datum (inf target) in one mini-batch of a data condition on network 0, a healthy condition on network 1:
    # the configured optimizer is still applied in that step (network 0 turns non-finite, network 1 gets its regular update)
    rng6 = np.random.default_rng([seed, 7, 5])
    for i in range(4 if tier == "quick" else 60):
        nd = int(rng6.integers(6, 10))
        sp = {"seed": int(rng6.integers(0, 2**31 - 1)), "models": [_gen_model(rng6, "FCN"), _gen_model(rng6, str(rng6.choice(["FCN", "QRES"])))],
              "params": [], "vals": [], "trainer": {}, "steps": int(rng6.integers(3, 7)), "reseed": False, "nonfinite_ok": True,
              "opt": {"cls": "SGD", "lr": 0.01, "args": {}},
              "conds": [{"kind": "data", "model": 0, "weight": 1.0, "n_data": nd, "data_seed": int(rng6.integers(0, 1000)), "batch": int(rng6.integers(2, 4)),
                         "norm": 2, "root": 1.0, "full": False, "inf_row": int(rng6.integers(0, nd))},
                        {"kind": "pinn", "model": 1, "weight": float(rng6.choice([0.5, 2.0])), "res": str(rng6.choice(["r_dirichlet", "r_source", "r_heat"])),
                         "sampler": _gen_sampler(rng6, static=True)}]}
        single.append({"spec": sp})
    # long runs (more than 1000 optimizer steps) with a scheduler frequency that does not divide 1000
    rng4 = np.random.default_rng([seed, 7, 3])
    for i in range(2 if tier == "quick" else 24):
        for _ in range(200):
            sp = gen_spec(rng4, tier)
            if sp["opt"]["cls"] in ("SGD", "Adam") and not sp["reseed"] and len(sp["conds"]) <= 2 \
                    and all(c["kind"] in ("pinn", "param", "periodic") for c in sp["conds"]):
                break
        fr = [7, 300, 400][i % 3]
        sp["opt"]["lr"] = 0.003
        sp["opt"]["sched"] = {"cls": "ExponentialLR", "args": {"gamma": 0.97 if fr == 7 else 0.7}, "freq": fr}
        sp["vals"], sp["trainer"] = [], {}
        sp["steps"] = int(rng4.integers(1210, 1330))
        sp["long"] = True
        single.append({"spec": sp})
    # interleave, so that every worker process sees staged and single-fit cases in a mixed order
    out, k = [], max(1, n // m)
    for i, c in enumerate(single):
        out.append(c)
        if i % k == k - 1 and staged:
            out.append(staged.pop(0))
    return out + staged


# ---------------------------------------------------------------------------------------------
# monitor
# ---------------------------------------------------------------------------------------------

def _what(path):
    if "adaptive_layer" in path or "<closure adaptive_layer>" in path:
        return "adaptive_weights"
    if path.endswith("_params") or ".parameter." in path:
        return "inverse_parameter"
    if path.endswith(".own"):
        return "user_condition_parameter"
    return "network"


def _cls(spec):
    s = spec
    return "%s|%s|p%d|%s/%s|v%d|%s" % (
        "+".join(sorted({c["kind"] for c in s["conds"]})), "+".join(sorted({m["kind"] for m in s["models"]})),
        len(s["params"]), s["opt"]["cls"], (s["opt"].get("sched") or {}).get("cls", "-"),
        min(1, len(s["vals"])), "E" if s["trainer"].get("limit_train_batches") else "1")


def _tdiff(a, b):
    if a.shape != b.shape:
        return float("inf")
    if a.numel() == 0:
        return 0.0
    d = (a.double() - b.double()).abs()
    both_bad = ~torch.isfinite(a.double()) & ~torch.isfinite(b.double())      # e.g. NaN weights after a non-finite gradient, in
    d = torch.where(both_bad, torch.zeros_like(d), d)                        # the reference loop AND through the Solver
    d = torch.where(torch.isnan(d), torch.full_like(d, float("inf")), d)
    return float(d.max())


def check_events(spec, real, res, mech, lbfgs):
    """offline checker over the event log of the real run"""
    n_train = len(spec["conds"])
    V = res["viol"]
    step = -1
    in_step, in_val = False, False
    calls = None
    bad_iter = bad_count = bad_phase = bad_dev = 0
    first = {}
    for e in real.rec.events:
        k = e[0]
        if k == "bs":
            step += 1
            in_step, calls = True, [0] * n_train
        elif k == "be":
            if not lbfgs and calls is not None and any(c != 1 for c in calls):
                bad_count += 1
                first.setdefault("count", "step %d: calls per training condition %s" % (step, calls))
            in_step, calls = False, None
            res["judged"] += n_train
        elif k == "vs":
            in_val = True
        elif k == "ve":
            in_val = False
        elif k == "cond":
            _, role, idx, it, dev, grad = e
            res["counters"]["condition_calls_" + role] = res["counters"].get("condition_calls_" + role, 0) + 1
            if dev != "cpu":
                bad_dev += 1
                first.setdefault("dev", "condition %s[%d] called with device=%r" % (role, idx, dev))
            if role == "train":
                if in_val or not in_step:
                    bad_phase += 1
                    first.setdefault("phase", "training condition %d called outside a training step (validation=%s)"
                                     % (idx, in_val))
                else:
                    calls[idx] += 1
                    if not lbfgs and it != step:
                        bad_iter += 1
                        first.setdefault("iter", "step %d: training condition %d (%s) received iteration=%r"
                                         % (step, idx, spec["conds"][idx]["kind"], it))
            else:
                if in_step or not in_val:
                    bad_phase += 1
                    first.setdefault("phase", "validation condition %d called outside a validation run "
                                     "(inside training step: %s)" % (idx, in_step))
    if bad_count:
        V.append(viol("condition_call_count", first["count"], **mech))
    if bad_iter:
        V.append(viol("iteration_index", first["iter"] + " (%d such calls)" % bad_iter, **mech))
    if bad_phase:
        V.append(viol("condition_wrong_phase", first["phase"], **mech))
    if bad_dev:
        V.append(viol("condition_device", first["dev"], **mech))
    res["counters"]["steps_observed"] = step + 1
    return step + 1


def _judge(spec, steps, ref, real, res, mech, tag=""):
    """all monitors of one fit (a whole un-staged case, or one stage of a staged case); spec needs "conds", "opt",
    "trainer", "vals".  -> (how far the reference moved, all steps observed)"""
    from .. import c07_harness as H
    lbfgs = spec["opt"]["cls"] == "LBFGS"
    C, V = res["counters"], res["viol"]
    if ref["names"] != real.names:
        raise Inconclusive("reachability walk differs between two fresh worlds")
    names = real.names
    C["fits"] = C.get("fits", 0) + 1
    C["cases_opt_" + spec["opt"]["cls"]] = C.get("cases_opt_" + spec["opt"]["cls"], 0) + 1
    if spec["trainer"].get("limit_train_batches"):
        C["cases_several_epochs"] = C.get("cases_several_epochs", 0) + 1
    if spec["vals"]:
        C["cases_with_validation"] = C.get("cases_with_validation", 0) + 1
    if any(c["weight"] == 0 for c in spec["conds"]):
        C["fits_with_zero_weight_condition"] = C.get("fits_with_zero_weight_condition", 0) + 1
    if any(c.get("sampler", {}).get("random") for c in spec["conds"]):
        C["fits_with_random_samplers_reseeded"] = C.get("fits_with_random_samplers_reseeded", 0) + 1
    if any(c["kind"] == "pideeponet" for c in spec["vals"]):
        C["fits_with_validation_deeponet_sharing_function_set"] = C.get("fits_with_validation_deeponet_sharing_function_set", 0) + 1
    if any(c.get("sampler_of") is not None for c in spec["vals"]):
        C["fits_with_validation_on_training_sampler"] = C.get("fits_with_validation_on_training_sampler", 0) + 1
    C["learnable_tensors"] = C.get("learnable_tensors", 0) + len(names)
    for n in names:
        C["tensors_" + _what(n)] = C.get("tensors_" + _what(n), 0) + 1

    # (1) number of optimizer steps
    if real.global_step != steps:
        V.append(viol("step_count", "trainer stopped at global_step=%d, max_steps=%d" % (real.global_step, steps), **mech))

    # (2) learnable state after every step
    moved = 0.0
    n_state_cmp = 0
    reported = set()
    for s in range(1, steps + 1):
        got = real.rec.end_states.get(s)
        if got is None:
            continue
        want = ref["traj"][s - 1]
        # (tensors that turned non-finite in the reference do not widen the tolerance of the others)
        move = max([_tdiff(a, b) for a, b in zip(want, ref["theta0"]) if bool(torch.isfinite(a).all())] + [0.0])
        moved = max(moved, move)
        tol = 1e-6 + 1e-4 * move
        for n, a, b in zip(names, want, got):
            d = _tdiff(a, b)
            res["judged"] += 1
            n_state_cmp += 1
            if not d <= tol and _what(n) not in reported:
                reported.add(_what(n))
                V.append(viol("state_differs", tag + "after step %d of %d: %s differs from the reference loop by %.3g "
                              "(tolerance %.3g; reference moved %.3g from its start); conditions=%s weights=%s"
                              % (s, steps, n, d, tol, move, [c["kind"] for c in spec["conds"]],
                                 [c["weight"] for c in spec["conds"]]), what=_what(n), **mech))
    C["state_comparisons"] = C.get("state_comparisons", 0) + n_state_cmp
    # final state (after fit returned)
    for n, a, b in zip(names, ref["traj"][-1], real.final):
        d = _tdiff(a, b)
        res["judged"] += 1
        if not d <= 1e-6 + 1e-4 * moved and _what(n) not in reported:
            reported.add(_what(n))
            V.append(viol("state_differs", "after fit (%d steps): %s differs from the reference loop by %.3g"
                          % (steps, n, d), what=_what(n), **mech))

    # (3) optimizer state, learning rates, scheduler counter
    if real.opt_state is None:
        V.append(viol("no_optimizer", "trainer holds no optimizer after fit", **mech))
    elif lbfgs:
        same_layout = real.rec.opt_param_ids is not None and len(real.rec.opt_param_ids) == len(names)
        for k, a in ref["opt_state"].items():
            b = real.opt_state.get(k)
            if isinstance(a, torch.Tensor) and a.dim() > 0 and not same_layout:
                continue    # flat vectors have another layout when the optimizer also holds validation-only tensors
            if isinstance(a, torch.Tensor):
                d = _tdiff(a, b) if isinstance(b, torch.Tensor) else float("inf")
                tol = 1e-6 + 1e-4 * float(a.abs().max()) if a.numel() else 0.0
            else:
                d = abs(a - b) if isinstance(b, float) else float("inf")
                tol = 1e-6 + 1e-4 * abs(a)
            res["judged"] += 1
            if not d <= tol:
                V.append(viol("optimizer_state_differs", "LBFGS state %r differs by %.3g" % (k, d), key=k, **mech))
                break
    else:
        bad = None
        for n, a, b in zip(names, ref["opt_state"], real.opt_state):
            if set(a) != set(b):
                bad = "%s: optimizer state keys %s vs reference %s" % (n, sorted(b), sorted(a))
                break
            for k in a:
                x, y = a[k], b[k]
                if isinstance(x, torch.Tensor):
                    d = _tdiff(x, y) if isinstance(y, torch.Tensor) else float("inf")
                    tol = 1e-6 + 1e-4 * (float(x.abs().max()) if x.numel() else 0.0)
                elif x is None or y is None:
                    d, tol = (0.0 if x is y else float("inf")), 0.0
                else:
                    d, tol = abs(x - y), 1e-9
                res["judged"] += 1
                if not d <= tol:
                    bad = "%s: optimizer state %r differs from the reference by %.3g" % (n, k, d)
                    break
            if bad:
                break
        if bad:
            V.append(viol("optimizer_state_differs", bad + " after %d steps" % steps, **mech))
        C["optimizer_state_tensors"] = C.get("optimizer_state_tensors", 0) + sum(len(a) for a in ref["opt_state"])
    if real.lrs is not None:
        res["judged"] += 1
        if len(real.lrs) != len(ref["lrs"]) or any(abs(a - b) > 1e-12 + 1e-9 * abs(a) for a, b in zip(ref["lrs"], real.lrs)):
            V.append(viol("learning_rate_differs", "learning rates after %d steps: %s, reference %s (scheduler %s)"
                          % (steps, real.lrs, ref["lrs"], spec["opt"].get("sched")), **mech))
    if spec["opt"].get("sched"):
        res["judged"] += 1
        C["scheduler_cases"] = C.get("scheduler_cases", 0) + 1
        if real.sched_last_epoch != ref["sched_last_epoch"]:
            V.append(viol("scheduler_steps", "scheduler was stepped %s times, reference %s (frequency %d, %d steps)"
                          % (real.sched_last_epoch, ref["sched_last_epoch"], spec["opt"]["sched"]["freq"], steps), **mech))

    # (4) event log
    nsteps = check_events(spec, real, res, mech, lbfgs)
    if not lbfgs and nsteps != steps:
        V.append(viol("step_count", "%d training batches observed for max_steps=%d" % (nsteps, steps), **mech))

    # (5) what the user-defined condition saw
    for i, c in enumerate(spec["conds"]):
        if c["kind"] == "recording" and not lbfgs:
            calls = real.cond_logs[i]
            its = [x[0] for x in calls]
            res["judged"] += len(its)
            C["recording_condition_calls"] = C.get("recording_condition_calls", 0) + len(its)
            if its != list(range(steps)):
                V.append(viol("iteration_index", "user-defined condition received iterations %s, expected %s"
                              % (its[:12], list(range(steps))[:12]), seen_by="RecordingCondition", **mech))
            if not all(x[2] for x in calls):
                V.append(viol("grad_disabled_in_training", "training condition called with gradients disabled", **mech))

    # (6) optimizer membership
    ids = real.rec.opt_param_ids
    if ids is not None:
        for n, p in zip(names, real.params):
            res["judged"] += 1
            if id(p) not in ids:
                V.append(viol("not_optimised", "learnable tensor %s (shape %s) reachable from the training conditions "
                              "is not held by the optimizer" % (n, tuple(p.shape)), what=_what(n), **mech))
                break
        C["optimizer_membership_checks"] = C.get("optimizer_membership_checks", 0) + len(names)

    # (7) adaptive weights ascend (direct sign probe on the first step)
    wd = float(spec["opt"].get("args", {}).get("weight_decay", 0.0) or 0.0)
    if spec["opt"]["cls"] == "AdamW" and "weight_decay" not in spec["opt"].get("args", {}):
        wd = 0.01
    if not lbfgs and wd == 0.0 and 1 in real.rec.end_states:
        for j, n in enumerate(names):
            if _what(n) != "adaptive_weights":
                continue
            ci = int(n.split(".")[0][4:])
            if spec["conds"][ci]["weight"] <= 0:
                continue
            delta = real.rec.end_states[1][j] - real.theta0[j]
            dref = ref["traj"][0][j] - ref["theta0"][j]
            res["judged"] += 1
            C["adaptive_sign_probes"] = C.get("adaptive_sign_probes", 0) + 1
            if float(dref.abs().max()) == 0.0:
                continue
            if float(delta.min()) < 0.0 or not float(delta.max()) > 0.0:
                V.append(viol("adaptive_weights_descend", "%s: first update has min %.3g max %.3g (the loss is "
                              "mean(w_i * e_i) with e_i >= 0, ascent must not decrease any weight)"
                              % (n, float(delta.min()), float(delta.max())), what="adaptive_weights", **mech))

    # (8) validation leaves learnable and optimizer state alone
    for before, after, ob, oa, gs in real.rec.val_snaps:
        d = H.maxdiff(before, after)
        res["judged"] += 1
        C["validation_runs"] = C.get("validation_runs", 0) + 1
        if d != 0.0:
            V.append(viol("validation_changes_state", "validation run at global_step %d changed the learnable state "
                          "by %.3g" % (gs, d), **mech))
            break
        if ob is not None and oa is not None and not lbfgs:
            same = ob[1] == oa[1] and all(
                set(x) == set(y) and all((torch.equal(x[k], y[k]) if isinstance(x[k], torch.Tensor) else x[k] == y[k])
                                         for k in x) for x, y in zip(ob[0], oa[0]))
            if not same:
                V.append(viol("validation_changes_state", "validation run at global_step %d changed the optimizer state"
                              % gs, part="optimizer", **mech))
                break
    if real.val_only_params:
        C["validation_only_tensors"] = C.get("validation_only_tensors", 0) + len(real.val_only_params)
        for n, a, b in zip(real.val_only_names, real.val_only_theta0, real.val_only_final):
            res["judged"] += 1
            if not torch.equal(a, b):
                V.append(viol("validation_only_state_changed", "%s is reachable from validation conditions only but "
                              "changed by %.3g during fit" % (n, _tdiff(a, b)), **mech))
                break
    if spec["vals"] and not real.rec.val_snaps and steps >= spec["trainer"].get("val_interval", 1):
        C["validation_expected_but_not_run"] = C.get("validation_expected_but_not_run", 0) + 1

    return moved, len(real.rec.end_states) == steps


def run_case(case):
    from .. import c07_world as W, c07_refloop as R, c07_harness as H
    spec = case["spec"]
    if "stages" in spec:
        return _run_staged(case)
    steps = spec["steps"]
    res = {"cls": _cls(spec), "judged": 0, "nontrivial": False, "viol": [], "counters": {}}
    C = res["counters"]
    mech = {"opt": spec["opt"]["cls"], "sched": (spec["opt"].get("sched") or {}).get("cls"),
            "epochs": "several" if spec["trainer"].get("limit_train_batches") else "one",
            "validation": bool(spec["vals"]), "staged": False,
            "zero_weight": any(c["weight"] == 0 for c in spec["conds"]),
            "random_samplers": any(c.get("sampler", {}).get("random") for c in spec["conds"])}
    V = res["viol"]

    # determinism self-check of the reference (two fresh reference worlds must agree exactly)
    ref = R.run(spec, steps)
    flat = [t for st in ref["traj"] for t in st]
    if not all(bool(torch.isfinite(t).all()) for t in flat) and not spec.get("nonfinite_ok"):
        C["rejected_nonfinite_reference"] = 1      # the generated problem diverges: nothing to compare
        return res
    if spec.get("nonfinite_ok"):
        C["runs_with_a_nonfinite_gradient_step"] = 1
    if case.get("selfcheck", True) and steps <= 3 and not spec.get("nonfinite_ok"):
        ref2 = R.run(spec, steps)
        if H.maxdiff(ref["traj"][-1], ref2["traj"][-1]) != 0.0:
            raise Inconclusive("reference loop not reproducible for this spec")
        C["reference_reproducibility_checks"] = 1
    try:
        real = H.run_real(spec, steps)
    except Exception as e:
        V.append(viol("exception", "training through the Solver raised %r" % (e,), site=exc_site(e),
                      exc=type(e).__name__, **mech))
        return res
    moved, complete = _judge(spec, steps, ref, real, res, mech)
    res["nontrivial"] = moved > 0.0 and complete
    C["steps"] = steps
    C["cases_single_fit"] = 1
    return res


def _run_staged(case):
    """2-3 training stages in ONE world and one process: own Solver / OptimizerSetting / Trainer per stage, shared models
    and Parameters, conditions reused or freshly built; compared with the reference stage by stage and step by step"""
    from .. import c07_refloop as R, c07_harness as H
    spec = case["spec"]
    res = {"cls": _cls_staged(spec), "judged": 0, "nontrivial": False, "viol": [], "counters": {}}
    C, V = res["counters"], res["viol"]
    refs = R.run_staged(spec)
    for r in refs:
        if not all(bool(torch.isfinite(t).all()) for st in r["traj"] for t in st):
            C["rejected_nonfinite_reference"] = 1
            return res
    reals, exc = H.run_real_staged(spec)
    C["cases_staged"] = 1
    all_ok, moved_all = exc is None, True
    for si, st in enumerate(spec["stages"]):
        o = st["opt"]
        mech = {"opt": o["cls"], "sched": (o.get("sched") or {}).get("cls"), "epochs": "one", "validation": False,
                "staged": True, "stage": si, "conditions": "reused" if st.get("reuse") and si else "fresh",
                "setting": ("solver_default" if o.get("default_setting") else "same_object_lr_changed"
                            if st.get("same_setting") and si else "default_args" if o.get("default_args") else "explicit_args"),
                "bystanders": bool(st.get("bystanders")) and not (st.get("reuse") and si)}
        if si >= len(reals):
            if exc is not None and si == len(reals):
                V.append(viol("exception", "stage %d: training through the Solver raised %r" % (si, exc),
                              site=exc_site(exc), exc=type(exc).__name__, **mech))
            break
        ref, real = refs[si], reals[si]
        pseudo = {"conds": st["conds"] if not (st.get("reuse") and si) else _stage_conds(spec, si), "opt": o,
                  "trainer": st.get("trainer", {}), "vals": []}
        C["stages"] = C.get("stages", 0) + 1
        C["stages_setting_" + mech["setting"]] = C.get("stages_setting_" + mech["setting"], 0) + 1
        C["stages_conditions_" + mech["conditions"]] = C.get("stages_conditions_" + mech["conditions"], 0) + 1
        if mech["bystanders"]:
            C["stages_with_bystander_conditions"] = C.get("stages_with_bystander_conditions", 0) + 1
        moved, complete = _judge(pseudo, st["steps"], ref, real, res, mech, tag="stage %d (%s conditions, setting %s, lr %g): "
                                 % (si, mech["conditions"], mech["setting"], o["lr"]))
        C["steps"] = C.get("steps", 0) + st["steps"]
        all_ok = all_ok and complete
        moved_all = moved_all and moved > 0.0
        # every learnable tensor of the shared models / Parameters after the stage (also those this stage does not train)
        if ref["world_names"] != real.world_names:
            raise Inconclusive("walk over the shared objects differs between the two worlds")
        for n, a, b in zip(ref["world_names"], ref["world_state"], real.world_state):
            res["judged"] += 1
            d = _tdiff(a, b)
            if not d <= 1e-6 + 1e-4 * max(moved, 1.0):
                V.append(viol("state_differs", "after stage %d: shared object tensor %s differs from the reference by %.3g"
                              % (si, n, d), what=_what_world(n), scope="world", **mech))
                break
    res["nontrivial"] = all_ok and moved_all and len(reals) == len(spec["stages"])
    return res


def _stage_conds(spec, si):
    while si > 0 and spec["stages"][si].get("reuse"):
        si -= 1
    return spec["stages"][si]["conds"]


def _what_world(path):
    return "inverse_parameter" if path.endswith("._t") else "network"


def _cls_staged(spec):
    parts = []
    for si, st in enumerate(spec["stages"]):
        o = st["opt"]
        parts.append("%s:%s/%s/%s%s" % ("R" if st.get("reuse") and si else "F", o["cls"], (o.get("sched") or {}).get("cls", "-"),
                                       "dflt" if o.get("default_setting") else "same" if st.get("same_setting") and si
                                       else "noargs" if o.get("default_args") else "args",
                                       "+by" if st.get("bystanders") and not (st.get("reuse") and si) else ""))
    return "staged|p%d|%s" % (len(spec["params"]), "|".join(parts))


def sample_of(case, r):
    s = case.get("spec", {})
    return {"conditions": [(c["kind"], c["weight"]) for c in s.get("conds", [])],
            "models": [m["kind"] for m in s.get("models", [])], "params": [p["name"] for p in s.get("params", [])],
            "validation": [c["kind"] for c in s.get("vals", [])], "opt": s.get("opt"), "trainer": s.get("trainer"),
            "steps": s.get("steps"), "seed": s.get("seed"), "class": r.get("cls"), "comparisons": r.get("judged"),
            "status": r.get("status")}
