"""C16 -- data loaders deliver every datum with intact input/target pairing.

Offline checker over the batches recorded during complete passes over the REAL loaders
(`PointsDataLoader`, `DeepONetDataLoader` in both trunk layouts) and over the batches the REAL
`DataCondition` / `DeepONetDataCondition` feed to a recording model.

Every datum carries a unique id in its value (exact small integers in float32):
    PointsDataLoader : component k, row r, column c holds 4*h_k(r)+c, h_0(r)=r (inputs), h_1(r)=3r+5, h_2(r)=7r+1
    DeepONet         : branch[f,d,c] = 64f+2d+c ; shared trunk[l,c] = 4l+c ; per-function trunk[f,l,c] = 4(1000f+l)+c ;
                       out[f,l,c] = 4(1000f+l)+c
so a yielded row identifies what it was paired with in the data set.  Judged per pass:
    pairing by id in every batch, batch sizes never above the requested ones, every datum / every
    (function, location) pair presented at least once (except an explicitly dropped tail, drop_last),
    and full-data-set condition value == max over batches ('inf') resp. mean of per-batch means, root last,
    recomputed in float64 from the ids the recording model saw (every loader batch exactly once).
"""
import math
import itertools
import collections

import numpy as np
import torch

from ..core import viol, exc_site

LEVEL = "exploration"
RULE = ("seeded generator over loader kind (points | deeponet shared trunk | deeponet per-function trunk | the two data "
        "conditions) x data-set sizes 1-40 x batch sizes (dividing, not dividing, equal, larger than the data, -1) x "
        "shuffle flags x drop_last x column counts x norm/root/full-data-set mode; mode-switch histories on one condition "
        "object (j single-batch forwards, j in 1..number of batches+2, then use_full_dataset=True and two full evaluations, "
        "optionally back to single-batch mode and full again) for both condition classes; plus complete enumeration of all "
        "(size, batch size in {-1,1..size,size+1,size+3}, shuffle, drop_last, layout) combinations for sizes <= 5 "
        "(quick) / <= 8 (thorough). A case is non-trivial when at least one complete pass was recorded and every row "
        "of it was decoded and judged; distinct = (kind, layout, divisibility class of each batch size, shuffle flags, "
        "drop_last, gcd class of the batch counts, norm/root/mode)")
RULE += '; a quarter of the points / data-condition cases use data with a second batch axis (n, m, d); a third of the DeepONet cases change the batch sizes of the data set after the first passes'
REQUIRED_REACH = ["PointsDataset.__getitem__", "PointsDataset.__len__", "PointsDataset.__init__",
                  "DeepONetDataset.__len__", "DeepONetDataset._slice_points", "DeepONetDataset.__getitem__",
                  "DeepONetDataset.__init__", "DeepONetDataset_Unique.__getitem__", "DeepONetDataset_Unique.__init__",
                  "DataCondition.forward", "DataCondition._compute_dist", "DeepONetDataCondition._compute_dist"]
MIN_NONTRIVIAL = 12
ASSUMPTIONS = ["num_workers=0, pin_memory=False (single-process loading)",
               "batch sizes are positive integers, or -1 (= everything) for the DeepONet loader only",
               "ids are exact small integers in float32; condition values compared with relative tolerance 2e-5",
               "drop_last: the dropped tail may hold at most (size mod batch_size) data, the last ones when not shuffled",
               "the data conditions are judged on loaders that yield at least one batch"]
CASE_TIMEOUT = 300

H = [lambda r: r, lambda r: 3 * r + 5, lambda r: 7 * r + 1]
COMP_NAMES = ["x", "u", "w"]
MAX_VIOL_PER_KIND = 2


# ---------------------------------------------------------------------------------------------
# generators
# ---------------------------------------------------------------------------------------------

def _bs_choice(rng, n, allow_minus1):
    """a batch size of a random divisibility class for a data set of size n"""
    kinds = ["div", "nodiv", "eq", "gt", "one"] + (["m1"] if allow_minus1 else [])
    k = str(rng.choice(kinds))
    if k == "div":
        ds = [d for d in range(1, n + 1) if n % d == 0]
        return int(rng.choice(ds))
    if k == "nodiv":
        ds = [d for d in range(2, n) if n % d != 0]
        return int(rng.choice(ds)) if ds else int(n)
    if k == "eq":
        return int(n)
    if k == "gt":
        return int(n + rng.integers(1, n + 4))
    if k == "one":
        return 1
    return -1


def _rand_points_cfg(rng):
    n = int(rng.integers(1, 41))
    return {"N": n, "bs": _bs_choice(rng, n, False), "shuffle": bool(rng.random() < 0.5),
            "drop_last": bool(rng.random() < 0.4), "dims": [int(rng.integers(1, 4)) for _ in range(int(rng.integers(1, 4)))],
            "as_single": False}


def _rand_don_cfg(rng, layout=None):
    nb, nt = int(rng.integers(1, 41)), int(rng.integers(1, 41))
    if rng.random() < 0.5:      # small sizes have the richest gcd structure
        nb, nt = int(rng.integers(1, 13)), int(rng.integers(1, 13))
    return {"Nb": nb, "Nt": nt, "bb": _bs_choice(rng, nb, True), "bt": _bs_choice(rng, nt, True),
            "shuffle_b": bool(rng.random() < 0.5), "shuffle_t": bool(rng.random() < 0.5),
            "layout": layout or str(rng.choice(["shared", "unique"])),
            "D": int(rng.integers(1, 6)), "fdim": int(rng.integers(1, 3)), "tdim": int(rng.integers(1, 4)),
            "odim": int(rng.integers(1, 3))}


def gen_cases(seed, tier):
    rng = np.random.default_rng([seed, 16])
    quick = tier == "quick"
    cases = []
    for _ in range(140 if quick else 2500):
        c = _rand_points_cfg(rng)
        if len(c["dims"]) == 1 and rng.random() < 0.5:
            c["as_single"] = True           # a single Points object instead of a tuple
        if len(cases) % 4 == 2:
            c["m2"] = 1 + (len(cases) // 4) % 4      # data with a second batch axis (n, m, d): the loader batches the first one
        cases.append({"kind": "points", "cfg": c, "passes": int(rng.integers(1, 3)), "seed": int(rng.integers(0, 2**31))})
    for _ in range(260 if quick else 5000):
        cases.append({"kind": "deeponet", "cfg": _rand_don_cfg(rng), "passes": int(rng.integers(1, 3)),
                      "seed": int(rng.integers(0, 2**31))})
        if len(cases) % 3 == 0:
            # history: the batch sizes of the data set are changed after the first passes (the data sets recompute
            # their length "for the case when the batch size changed"), then one more pass
            k, cf = len(cases), cases[-1]["cfg"]
            cases[-1]["rebatch"] = [1 + (7 * k) % cf["Nb"], 1 + (5 * k) % cf["Nt"]]
    for _ in range(70 if quick else 1200):
        c = _rand_points_cfg(rng)
        c["dims"] = [int(rng.integers(1, 4)), int(rng.integers(1, 3))]
        if c["drop_last"] and c["bs"] > c["N"]:
            c["drop_last"] = False          # a loader without batches has no condition value
        if len(cases) % 4 == 1:
            c["m2"] = 1 + (len(cases) // 4) % 4
        cases.append({"kind": "datacond", "cfg": c, "norm": [1, 2, 3, "inf"][int(rng.integers(0, 4))],
                      "root": float(rng.choice([1.0, 2.0, 3.0])), "full": bool(rng.random() < 0.7),
                      "constrain": bool(rng.random() < 0.3), "forwards": int(rng.integers(1, 4)),
                      "seed": int(rng.integers(0, 2**31))})
    for _ in range(90 if quick else 1500):
        c = _rand_don_cfg(rng)
        c["Nb"], c["Nt"] = min(c["Nb"], 12), min(c["Nt"], 12)
        c["bb"], c["bt"] = _bs_choice(rng, c["Nb"], True), _bs_choice(rng, c["Nt"], True)
        cases.append({"kind": "deeponet_datacond", "cfg": c, "norm": [1, 2, "inf"][int(rng.integers(0, 3))],
                      "root": float(rng.choice([1.0, 2.0])), "full": bool(rng.random() < 0.7),
                      "constrain": bool(rng.random() < 0.3), "forwards": int(rng.integers(1, 4)),
                      "seed": int(rng.integers(0, 2**31))})
    # mode-switch histories on ONE condition object: j single-batch forwards (j in 1..number of batches + 2), then
    # use_full_dataset = True and two full evaluations, then optionally back to single-batch mode (and full once more)
    def switch_case(kind, cfg, j, norm, root, back, constrain):
        L = _n_batches(kind, cfg)
        sched = ["s"] * j + ["f", "f"] + ["s"] * back + (["f"] if back > 1 else [])
        return {"kind": kind, "cfg": cfg, "norm": norm, "root": root, "full": False, "constrain": constrain,
                "forwards": len(sched), "schedule": sched, "n_batches": L, "seed": int(rng.integers(0, 2**31))}
    for _ in range(60 if quick else 1000):
        c = _rand_points_cfg(rng)
        c["dims"] = [int(rng.integers(1, 4)), int(rng.integers(1, 3))]
        if c["drop_last"] and c["bs"] > c["N"]:
            c["drop_last"] = False
        L = _n_batches("datacond", c)
        cases.append(switch_case("datacond", c, int(rng.integers(1, L + 3)), [1, 2, "inf"][int(rng.integers(0, 3))],
                                 float(rng.choice([1.0, 2.0])), int(rng.integers(0, 4)), bool(rng.random() < 0.2)))
    for _ in range(60 if quick else 1000):
        c = _rand_don_cfg(rng)
        c["Nb"], c["Nt"] = min(c["Nb"], 10), min(c["Nt"], 10)
        c["bb"], c["bt"] = _bs_choice(rng, c["Nb"], True), _bs_choice(rng, c["Nt"], True)
        L = min(_n_batches("deeponet_datacond", c), 40)
        cases.append(switch_case("deeponet_datacond", c, int(rng.integers(1, L + 3)), [1, 2, "inf"][int(rng.integers(0, 3))],
                                 float(rng.choice([1.0, 2.0])), int(rng.integers(0, 4)), bool(rng.random() < 0.2)))
    for (n, bs) in ((7, 3), (6, 2), (5, 5), (9, 4)):
        cfg = {"N": n, "bs": bs, "shuffle": False, "drop_last": False, "dims": [1, 1], "as_single": False}
        for j in range(1, _n_batches("datacond", cfg) + 3):
            for norm in (1, 2, "inf"):
                for root in (1.0, 2.0):
                    cases.append(switch_case("datacond", dict(cfg), j, norm, root, 2 if (j + int(root)) % 2 else 0, False))
    for (nb, nt, bb, bt, layout) in ((3, 4, 1, 2, "shared"), (4, 3, 2, 2, "unique"), (2, 5, -1, 2, "shared")):
        cfg = {"Nb": nb, "Nt": nt, "bb": bb, "bt": bt, "shuffle_b": False, "shuffle_t": False, "layout": layout,
               "D": 2, "fdim": 1, "tdim": 1, "odim": 1}
        for j in range(1, _n_batches("deeponet_datacond", cfg) + 3):
            for norm in (1, 2, "inf"):
                for root in (1.0, 2.0):
                    cases.append(switch_case("deeponet_datacond", dict(cfg), j, norm, root, 2 if (j + int(root)) % 2 else 0,
                                             False))
    # complete enumeration of the small sub-space
    top = 5 if quick else 8
    for n in range(1, top + 1):
        cases.append({"kind": "points_enum", "N": n, "seed": int(rng.integers(0, 2**31))})
    for nb in range(1, top + 1):
        for nt in range(1, top + 1):
            for layout in ("shared", "unique"):
                cases.append({"kind": "deeponet_enum", "Nb": nb, "Nt": nt, "layout": layout,
                              "seed": int(rng.integers(0, 2**31))})
    return cases


def _n_batches(kind, cfg):
    """number of batches of one pass (own arithmetic; only used to choose the length of single-batch prefixes)"""
    if kind == "datacond":
        return cfg["N"] // cfg["bs"] if cfg["drop_last"] else -(-cfg["N"] // cfg["bs"])
    nb, nt = cfg["Nb"], cfg["Nt"]
    bb = nb if cfg["bb"] < 0 else cfg["bb"]
    bt = nt if cfg["bt"] < 0 else cfg["bt"]
    if cfg["layout"] == "shared":
        lb, lt = nb // math.gcd(nb, bb), nt // math.gcd(nt, bt)
        return lb * lt // math.gcd(lb, lt)
    return (-(-nb // min(bb, nb))) * (-(-nt // min(bt, nt)))


def _enum_bs(n, allow_minus1):
    return ([-1] if allow_minus1 else []) + list(range(1, n + 1)) + [n + 1, n + 3]


# ---------------------------------------------------------------------------------------------
# data with ids, decoding
# ---------------------------------------------------------------------------------------------

def _spaces():
    from torchphysics.problem.spaces import Space
    return Space


def _points_data(cfg):
    from torchphysics.problem.spaces import Space, Points
    n = cfg["N"]
    comps = []
    for k, d in enumerate(cfg["dims"]):
        r = torch.arange(n, dtype=torch.float32).reshape(n, 1)
        t = 4.0 * H[k](r) + torch.arange(d, dtype=torch.float32).reshape(1, d)
        if cfg.get("m2"):
            t = t.unsqueeze(1).expand(n, cfg["m2"], d).clone()      # datum i fills the whole slice [i, :, :]
        comps.append(Points(t, Space({COMP_NAMES[k]: d})))
    return comps


def _squeeze_m2(cfg, b):
    """(m, m2, d) array of a two-axis data set -> (m, d); None if the slices of the second axis are not the datum's copies"""
    if not cfg.get("m2"):
        return b
    if b.ndim != 3 or b.shape[1] != cfg["m2"] or (b.shape[0] and not np.all(b == b[:, :1, :])):
        return None
    return b[:, 0, :]


def _decode_rows(t, k):
    """ids of the rows of component k (float64 array (m,d)); None where a row is not a datum of the data set"""
    t = np.asarray(t, dtype=np.float64)
    m, d = t.shape
    ids = []
    for i in range(m):
        h = (t[i, 0] - 0) / 4.0
        ok = all(t[i, c] == 4.0 * h + c for c in range(d)) and h == int(h)
        r = None
        if ok:
            h = int(h)
            if k == 0:
                r = h
            elif k == 1 and (h - 5) % 3 == 0:
                r = (h - 5) // 3
            elif k == 2 and (h - 1) % 7 == 0:
                r = (h - 1) // 7
        ids.append(r)
    return ids


def _divclass(n, b):
    if b < 0:
        return "m1"
    if b == n:
        return "eq"
    if b > n:
        return "gtmult" if b % n == 0 else "gt"
    return "div" if n % b == 0 else "nodiv"


class _V:
    """collects violations, at most MAX_VIOL_PER_KIND per (kind, config)"""

    def __init__(self, res):
        self.res = res
        self.n = collections.Counter()

    def add(self, kind, msg, **mech):
        self.n[kind] += 1
        self.res["counters"]["viol_" + kind] = self.res["counters"].get("viol_" + kind, 0) + 1
        if self.n[kind] <= MAX_VIOL_PER_KIND:
            self.res["viol"].append(viol(kind, msg, **mech))

    def fresh(self):
        v = _V(self.res)
        return v


class _Rebatched:
    """violations of a pass made after the batch sizes were changed carry the history in their mechanism"""
    def __init__(self, V):
        self.V = V

    def add(self, kind, msg, **mech):
        self.V.add(kind, msg + " [pass after dataset.branch_batch_size / trunk_batch_size were changed]", **dict(mech, history="rebatched"))


def _cnt(res, key, n=1):
    res["counters"][key] = res["counters"].get(key, 0) + n


# ---------------------------------------------------------------------------------------------
# PointsDataLoader
# ---------------------------------------------------------------------------------------------

def _points_mech(cfg):
    return {"loader": "PointsDataLoader", "dataset": "PointsDataset", "shuffle": cfg["shuffle"],
            "drop_last": cfg["drop_last"], "bs_class": _divclass(cfg["N"], cfg["bs"]),
            "components": len(cfg["dims"]), "axes": 2 if cfg.get("m2") else 1}


def _build_points_loader(cfg, seed):
    from torchphysics.utils import PointsDataLoader
    torch.manual_seed(seed)
    comps = _points_data(cfg)
    data = comps[0] if cfg.get("as_single") else tuple(comps)
    return PointsDataLoader(data, batch_size=cfg["bs"], shuffle=cfg["shuffle"], drop_last=cfg["drop_last"])


def _record_points_pass(loader):
    """one complete pass; returns list of batches, each a list of float64 arrays (one per component)"""
    out = []
    for batch in loader:
        if not isinstance(batch, (tuple, list)):
            batch = (batch,)
        out.append([b.as_tensor.detach().clone().double().numpy() for b in batch])
    return out


def _judge_points_pass(cfg, batches, V, res):
    """pairing, size bound, coverage of one recorded pass; returns list of id tuples per batch"""
    mech = _points_mech(cfg)
    n, bs, ncomp = cfg["N"], cfg["bs"], len(cfg["dims"])
    seen = collections.Counter()
    id_batches = []
    for bi, batch in enumerate(batches):
        if len(batch) != ncomp:
            V.add("pairing", "batch %d has %d components, the data set has %d (%s)" % (bi, len(batch), ncomp, cfg),
                  what="component_count", **mech)
            continue
        if cfg.get("m2"):
            sq = [_squeeze_m2(cfg, b) for b in batch]
            if any(b is None for b in sq):
                V.add("pairing", "batch %d: component shapes %s of a data set with batch axes (%d, %d) (%s)"
                      % (bi, [b.shape for b in batch], n, cfg["m2"], cfg), what="row_count", **mech)
                continue
            batch = sq
        m = batch[0].shape[0]
        if any(b.ndim != 2 or b.shape[0] != m or b.shape[1] != cfg["dims"][k] for k, b in enumerate(batch)):
            V.add("pairing", "batch %d: component shapes %s do not pair row by row (%s)"
                  % (bi, [b.shape for b in batch], cfg), what="row_count", **mech)
            continue
        if m > bs:
            V.add("batch_too_large", "batch %d has %d rows, batch_size=%d (%s)" % (bi, m, bs, cfg), **mech)
        ids = [_decode_rows(b, k) for k, b in enumerate(batch)]
        for i in range(m):
            row = [ids[k][i] for k in range(ncomp)]
            res["judged"] += 1
            if row[0] is None or row[0] < 0 or row[0] >= n:
                V.add("pairing", "batch %d row %d: input row %s is not a row of the data set (%s)"
                      % (bi, i, batch[0][i].tolist(), cfg), what="foreign_row", **mech)
                continue
            if any(r != row[0] for r in row):
                V.add("pairing", "batch %d row %d: input is datum %d but the other components belong to data %s; "
                      "values %s (%s)" % (bi, i, row[0], row[1:], [b[i].tolist() for b in batch], cfg),
                      what="ids_differ", **mech)
                continue
            seen[row[0]] += 1
        id_batches.append(tuple(ids[0]))
    missing = [r for r in range(n) if seen[r] == 0]
    allowed = (n % bs) if cfg["drop_last"] else 0
    if cfg["drop_last"] and bs > n:
        allowed = n
    bad = len(missing) > allowed
    if not bad and missing and not cfg["shuffle"]:
        bad = missing != list(range(n - len(missing), n))
    if bad:
        V.add("data_never_presented", "one pass presented %d of %d data; never presented: %s; at most %d (tail of "
              "drop_last) may be missing (%s, %d batches of sizes %s)"
              % (n - len(missing), n, missing[:12], allowed, cfg, len(batches), [b[0].shape[0] for b in batches][:12]),
              **mech)
    _cnt(res, "points_batches", len(batches))
    _cnt(res, "points_rows_presented", sum(seen.values()))
    _cnt(res, "points_dropped_tail_rows", len(missing) if not bad else 0)
    if any(v > 1 for v in seen.values()):
        _cnt(res, "points_passes_with_repeated_data")
    return id_batches


def _run_points_cfg(cfg, seed, passes, V, res):
    try:
        loader = _build_points_loader(cfg, seed)
        rec = [_record_points_pass(loader) for _ in range(passes)]
    except Exception as e:
        V.add("exception", "PointsDataLoader %s raised %r" % (cfg, e), site=exc_site(e), stage="iterate",
              **_points_mech(cfg))
        return None, None
    idb = None
    for p in rec:
        idb = _judge_points_pass(cfg, p, V, res)
    _cnt(res, "passes", len(rec))
    if cfg["shuffle"] and idb and [r for b in idb for r in b] != sorted(r for b in idb for r in b if r is not None):
        _cnt(res, "passes_in_shuffled_order")
    return loader, idb


def _points_cls(cfg):
    return "points/%s/sh%d/dl%d/c%d%s" % (_divclass(cfg["N"], cfg["bs"]), cfg["shuffle"], cfg["drop_last"],
                                            len(cfg["dims"]), ("s" if cfg.get("as_single") else "") + ("/ax2" if cfg.get("m2") else ""))


# ---------------------------------------------------------------------------------------------
# DeepONetDataLoader
# ---------------------------------------------------------------------------------------------

def _don_data(cfg):
    nb, nt, D, fd, td, od = cfg["Nb"], cfg["Nt"], cfg["D"], cfg["fdim"], cfg["tdim"], cfg["odim"]
    f = torch.arange(nb, dtype=torch.float32)
    l = torch.arange(nt, dtype=torch.float32)
    branch = (64.0 * f.reshape(nb, 1, 1) + 2.0 * torch.arange(D, dtype=torch.float32).reshape(1, D, 1)
              + torch.arange(fd, dtype=torch.float32).reshape(1, 1, fd))
    pid = 1000.0 * f.reshape(nb, 1) + l.reshape(1, nt)
    out = 4.0 * pid.unsqueeze(-1) + torch.arange(od, dtype=torch.float32).reshape(1, 1, od)
    if cfg["layout"] == "shared":
        trunk = 4.0 * l.reshape(nt, 1) + torch.arange(td, dtype=torch.float32).reshape(1, td)
    else:
        trunk = 4.0 * pid.unsqueeze(-1) + torch.arange(td, dtype=torch.float32).reshape(1, 1, td)
    return branch, trunk, out


def _don_spaces(cfg):
    from torchphysics.problem.spaces import Space
    return Space({"f": cfg["fdim"]}), Space({"t": cfg["tdim"]}), Space({"u": cfg["odim"]})


def _build_don_loader(cfg, seed):
    from torchphysics.utils import DeepONetDataLoader
    torch.manual_seed(seed)
    branch, trunk, out = _don_data(cfg)
    sb, st, so = _don_spaces(cfg)
    user = [(nm, t, t.detach().clone()) for nm, t in (("branch", branch), ("trunk", trunk), ("output", out)) if isinstance(t, torch.Tensor)]
    loader = DeepONetDataLoader(branch, trunk, out, sb, st, so, cfg["bb"], cfg["bt"],
                                shuffle_branch=cfg["shuffle_b"], shuffle_trunk=cfg["shuffle_t"])
    loader._tpmon_user = user          # the caller's own tensors (a second loader may be built from them)
    return loader


def _eff(n, b):
    return n if b < 0 else b


def _don_numbers(cfg):
    nb, nt = cfg["Nb"], cfg["Nt"]
    bb, bt = _eff(nb, cfg["bb"]), _eff(nt, cfg["bt"])
    lb, lt = nb // math.gcd(nb, bb), nt // math.gcd(nt, bt)     # number of distinct branch / trunk windows
    return bb, bt, lb, lt


def _don_mech(cfg):
    bb, bt, lb, lt = _don_numbers(cfg)
    return {"loader": "DeepONetDataLoader",
            "dataset": "DeepONetDataset" if cfg["layout"] == "shared" else "DeepONetDataset_Unique",
            "layout": cfg["layout"], "shuffle_branch": cfg["shuffle_b"], "shuffle_trunk": cfg["shuffle_t"],
            "branch_bs_class": _divclass(cfg["Nb"], cfg["bb"]), "trunk_bs_class": _divclass(cfg["Nt"], cfg["bt"]),
            "gcd_gt_1": math.gcd(lb, lt) > 1,
            "batch_gt_data": bb > cfg["Nb"] or bt > cfg["Nt"],
            "branch_oversized": bb > cfg["Nb"], "trunk_oversized": bt > cfg["Nt"],
            "oversize_not_multiple": (bb > cfg["Nb"] and bb % cfg["Nb"] != 0) or (bt > cfg["Nt"] and bt % cfg["Nt"] != 0)}


def _window(n, b, i):
    a, e = (i * b) % n, ((i + 1) * b) % n
    return list(range(a, e)) if a < e else list(range(a, n)) + list(range(0, e))


def _diagonal_model(cfg):
    """Positions presented by a walk along the diagonal of (branch window, trunk window) -- the documented
    behaviour D34 of the shared-trunk data set; used only to classify a coverage failure, never to excuse one."""
    bb, bt, lb, lt = _don_numbers(cfg)
    L = lb * lt // math.gcd(lb, lt)
    pairs = set()
    for i in range(L):
        for f in _window(cfg["Nb"], bb, i):
            for l in _window(cfg["Nt"], bt, i):
                pairs.add((f, l))
    return pairs


def _oversize_model(cfg):
    """Positions presented when an over-sized batch (not a multiple of the data size) is cut to size mod n."""
    bb, bt, _, _ = _don_numbers(cfg)
    nb, nt = cfg["Nb"], cfg["Nt"]
    fs = range(bb % nb) if (bb > nb and bb % nb) else range(nb)
    ls = range(bt % nt) if (bt > nt and bt % nt) else range(nt)
    return set(itertools.product(fs, ls))


def _record_don_pass(loader):
    out = []
    for batch in loader:
        out.append([b.as_tensor.detach().clone().double().numpy() for b in batch])
    return out


def _decode_branch(b, cfg):
    """function ids of the rows of a branch batch (m, D, fdim); None for a row that is no function of the set"""
    ids = []
    D, fd = cfg["D"], cfg["fdim"]
    grid = 2.0 * np.arange(D).reshape(D, 1) + np.arange(fd).reshape(1, fd)
    for i in range(b.shape[0]):
        f = b[i, 0, 0] / 64.0
        ok = f == int(f) and 0 <= f < cfg["Nb"] and b[i].shape == grid.shape and np.array_equal(b[i], 64.0 * f + grid)
        ids.append(int(f) if ok else None)
    return ids


def _decode_code(v, dim):
    """v: (..., dim) values 4*id+c -> integer ids (...), -1 where the columns are not one intact datum"""
    base = v[..., 0] / 4.0
    ok = base == np.floor(base)
    for c in range(dim):
        ok &= v[..., c] == 4.0 * base + c
    return np.where(ok, base, -1).astype(np.int64)


def _judge_don_pass(cfg, batches, V, res):
    """pairing, size bounds, pair coverage of one recorded pass; returns [(function ids, location-id matrix)]"""
    mech = _don_mech(cfg)
    nb, nt = cfg["Nb"], cfg["Nt"]
    bb, bt, lb, lt = _don_numbers(cfg)
    presented = np.zeros((nb, nt), dtype=np.int64)
    id_batches = []
    wraps = 0
    for bi, batch in enumerate(batches):
        if len(batch) != 3:
            V.add("pairing", "batch %d has %d components instead of (branch, trunk, output)" % (bi, len(batch)),
                  what="component_count", **mech)
            continue
        br, tr, ou = batch
        shared = cfg["layout"] == "shared"
        ok_shape = (br.ndim == 3 and ou.ndim == 3 and ou.shape[0] == br.shape[0] and ou.shape[2] == cfg["odim"]
                    and ((shared and tr.ndim == 2 and tr.shape[0] == ou.shape[1]) or
                         (not shared and tr.ndim == 3 and tr.shape[:2] == ou.shape[:2])) and tr.shape[-1] == cfg["tdim"])
        if not ok_shape:
            V.add("pairing", "batch %d: shapes branch %s trunk %s output %s cannot be paired as out[i,j] <-> "
                  "(function i, location j) (%s)" % (bi, br.shape, tr.shape, ou.shape, cfg), what="shape", **mech)
            continue
        mF, mT = ou.shape[0], ou.shape[1]
        if mF > bb or mT > bt:
            V.add("batch_too_large", "batch %d holds %d functions x %d locations, requested at most %d x %d (%s)"
                  % (bi, mF, mT, bb, bt, cfg), **mech)
        fids = _decode_branch(br, cfg)
        oid = _decode_code(ou, cfg["odim"])                       # (mF, mT) pair ids 1000 f + l
        tid = _decode_code(tr, cfg["tdim"])                       # (mT,) location ids or (mF, mT) pair ids
        fa = np.array([-1 if f is None else f for f in fids], dtype=np.int64).reshape(mF, 1)
        for i in np.flatnonzero(fa[:, 0] < 0):
            V.add("pairing", "batch %d: branch row %d is not an intact function of the data set: %s (%s)"
                  % (bi, i, br[i].tolist(), cfg), what="foreign_branch_row", **mech)
        if shared:
            lm = np.repeat(tid.reshape(1, mT), mF, axis=0)
            want = 1000 * fa + lm
        else:
            want = tid
            lm = want - 1000 * fa
        f_ok = np.repeat(fa >= 0, mT, axis=1)
        t_ok = (lm >= 0) & (lm < nt) & (want >= 0)
        o_ok = oid == want
        res["judged"] += int(f_ok.sum())
        for i, j in np.argwhere(f_ok & ~t_ok)[:MAX_VIOL_PER_KIND + 1]:
            V.add("pairing", "batch %d: trunk entry for out[%d,%d] carries id %s which is no location of function "
                  "%d (%s)" % (bi, i, j, int(tid[j]) if shared else int(want[i, j]), int(fa[i, 0]), cfg),
                  what="trunk_vs_branch", **mech)
        for i, j in np.argwhere(f_ok & t_ok & ~o_ok)[:MAX_VIOL_PER_KIND + 1]:
            V.add("pairing", "batch %d: out[%d,%d] carries pair id %d (function %d, location %d) but sits at branch "
                  "function %d and trunk location %d (%s)" % (bi, i, j, int(oid[i, j]), int(oid[i, j]) // 1000,
                                                               int(oid[i, j]) % 1000, int(fa[i, 0]), int(lm[i, j]), cfg),
                  what="out_vs_inputs", **mech)
        good = f_ok & t_ok & o_ok
        np.add.at(presented, (np.repeat(fa, mT, axis=1)[good], lm[good]), 1)
        lmat = np.where(good, lm, -1)
        id_batches.append((tuple(fids), lmat))
        g = [x for x in fids if x is not None]
        if not cfg["shuffle_b"] and len(g) > 1 and any(g[k + 1] < g[k] for k in range(len(g) - 1)):
            wraps += 1
    _cnt(res, "deeponet_batches", len(batches))
    _cnt(res, "deeponet_wrap_around_batches", wraps)
    _cnt(res, "deeponet_pairs_presented", int(presented.sum()))
    missing = np.argwhere(presented == 0)
    if len(missing):
        got = set(map(tuple, np.argwhere(presented > 0).tolist()))
        shuffled = cfg["shuffle_b"] or cfg["shuffle_t"]
        def _matches(model):
            return (len(model) == len(got)) if shuffled else (model == got)
        extra = dict(mech)
        extra["matches_diagonal_model"] = bool(cfg["layout"] == "shared" and _matches(_diagonal_model(cfg)))
        extra["matches_oversize_model"] = bool(cfg["layout"] == "unique" and extra["oversize_not_multiple"]
                                               and _matches(_oversize_model(cfg)))
        V.add("pairs_never_presented", "one pass (%d batches) presented %d of %d (function, location) pairs; never "
              "presented e.g. %s; %d branch x %d trunk windows, gcd %d (%s)"
              % (len(batches), nb * nt - len(missing), nb * nt, missing[:6].tolist(), lb, lt, math.gcd(lb, lt), cfg),
              **extra)
    else:
        _cnt(res, "deeponet_passes_fully_covered")
    return id_batches


def _run_don_cfg(cfg, seed, passes, V, res, rebatch=None):
    try:
        loader = _build_don_loader(cfg, seed)
        rec = [_record_don_pass(loader) for _ in range(passes)]
    except Exception as e:
        V.add("exception", "DeepONetDataLoader %s raised %r" % (cfg, e), site=exc_site(e), stage="iterate",
              **_don_mech(cfg))
        return None, None
    idb = None
    for p in rec:
        idb = _judge_don_pass(cfg, p, V, res)
    if rebatch and not res["viol"]:
        cfg2 = dict(cfg, bb=int(rebatch[0]), bt=int(rebatch[1]))
        try:
            loader.dataset.branch_batch_size, loader.dataset.trunk_batch_size = cfg2["bb"], cfg2["bt"]
            p2 = _record_don_pass(loader)
        except Exception as e:
            V.add("exception", "DeepONetDataLoader %s raised %r in the pass after the batch sizes were set to %s"
                  % (cfg, e, rebatch), site=exc_site(e), stage="iterate_after_rebatch", **_don_mech(cfg2))
            return None, None
        V2 = _Rebatched(V)
        _judge_don_pass(cfg2, p2, V2, res)
        _cnt(res, "passes_after_batch_size_change")
    _cnt(res, "passes", len(rec))
    for nm, t, snap_ in getattr(loader, "_tpmon_user", []):
        _cnt(res, "user_tensors_compared")
        if t.shape != snap_.shape or not torch.equal(t, snap_):
            V.add("user_data_modified", "the %s tensor handed to DeepONetDataLoader %s was changed by the loader (%d entries differ): a "
                  "second loader built from the same tensors gets mispaired data" % (nm, cfg, int((t != snap_).sum()) if t.shape == snap_.shape else -1),
                  tensor=nm, **_don_mech(cfg))
    return loader, idb


def _don_cls(cfg):
    m = _don_mech(cfg)
    return "don/%s/b-%s/t-%s/sb%d/st%d/g%d" % (cfg["layout"], m["branch_bs_class"], m["trunk_bs_class"],
                                                cfg["shuffle_b"], cfg["shuffle_t"], m["gcd_gt_1"])


# ---------------------------------------------------------------------------------------------
# data conditions
# ---------------------------------------------------------------------------------------------

def _aggregate(per_batch_abs, norm, root):
    """reference: max over batches ('inf') resp. mean of the per-batch means of a**norm; root last (float64)"""
    if norm == "inf":
        v = max(float(np.max(a)) for a in per_batch_abs)
        v = max(v, 0.0)
    else:
        v = float(np.mean([float(np.mean(a ** norm)) for a in per_batch_abs]))
    if root != 1.0:
        v = v ** (1.0 / root)
    return v


def _close(a, b):
    return abs(a - b) <= 2e-5 * max(abs(a), abs(b)) + 1e-6


def _schedule(c):
    """modes of the successive forward() calls on ONE condition object: 's' single batch, 'f' full data set"""
    return list(c.get("schedule") or (["f" if c["full"] else "s"] * c["forwards"]))


def _hist(sched, k):
    """history class of forward k: what kind of calls preceded it on the same condition object"""
    before = set(sched[:k])
    if sched[k] == "f":
        return "full_after_single" if "s" in before else "full"
    return "single_after_full" if "f" in before else "single"


def _run_datacond(c, V, res):
    from torchphysics.models.model import Model
    from torchphysics.problem.spaces import Space, Points
    from torchphysics.problem.conditions import DataCondition
    cfg = c["cfg"]
    mech = dict(_points_mech(cfg), condition="DataCondition", norm=str(c["norm"]), root=c["root"], full=c["full"],
                constrain=c["constrain"])
    loader, idb = _run_points_cfg(cfg, c["seed"], 1, V, res)
    if loader is None or not idb or res["viol"]:
        return
    dx, dy = cfg["dims"]
    seen = []

    class Rec(Model):
        def __init__(self):
            super().__init__(Space({"x": dx}), Space({"u": dy}))

        def forward(self, points):
            x = self._fix_points_order(points).as_tensor
            seen.append(x.detach().clone().double().numpy())
            u = 0.75 * x[..., :1] + 0.5 * torch.arange(dy, dtype=x.dtype)
            return Points(u, self.output_space)

    def ref_abs(xrows):
        xrows = _squeeze_m2(cfg, xrows)
        if xrows is None:
            return None, []
        ids = _decode_rows(xrows, 0)
        if any(r is None for r in ids):
            return None, ids
        r = np.array(ids, dtype=np.float64).reshape(-1, 1)
        cc = np.arange(dy, dtype=np.float64).reshape(1, dy)
        u = 0.75 * xrows[:, :1] + 0.5 * cc
        if c["constrain"]:
            u = u + 0.25 * xrows[:, :1]
        y = 4.0 * H[1](r) + cc
        return np.abs(u - y), ids

    kw = {}
    if c["constrain"]:
        kw["constrain_fn"] = lambda u, x: u + 0.25 * x[..., :1]
    try:
        cond = DataCondition(Rec(), loader, norm=c["norm"], root=c["root"], use_full_dataset=c["full"], **kw)
    except Exception as e:
        V.add("exception", "DataCondition(...) raised %r" % e, site=exc_site(e), stage="construct", **mech)
        return
    sched = _schedule(c)
    mech0 = mech
    for k, mode in enumerate(sched):
        full = mode == "f"
        mech = dict(mech0, full=full, history=_hist(sched, k))
        cond.use_full_dataset = full
        del seen[:]
        try:
            val = float(cond.forward().detach().reshape(-1)[0])
        except Exception as e:
            V.add("exception", "DataCondition.forward raised %r (%s)" % (e, c), site=exc_site(e), stage="forward", **mech)
            return
        refs = [ref_abs(x) for x in seen]
        if any(a is None for a, _ in refs):
            V.add("pairing", "the model was fed rows that are no data of the set (%s)" % c, what="foreign_row", **mech)
            return
        got_batches = [tuple(ids) for _, ids in refs]
        _cnt(res, "condition_forwards_" + mech["history"])
        if full:
            if sorted(got_batches) != sorted(idb):
                V.add("condition_batches", "full-data-set forward %d (schedule %s) fed the model %d batches %s..., one pass "
                      "over the loader has %d batches %s... (%s)" % (k, "".join(sched), len(got_batches), got_batches[:3],
                                                                     len(idb), idb[:3], c), **mech)
                return
            if any(len(ids) == 0 for _, ids in refs):
                V.add("condition_value", "the full-data-set forward evaluated the model on an empty batch (%d batches of sizes %s): "
                      "the mean of the per-batch means is undefined; value %r (%s)"
                      % (len(refs), [len(ids) for _, ids in refs][:12], val, c), **mech)
                return
            want = _aggregate([a for a, _ in refs], c["norm"], c["root"])
            # the same aggregation over an independently recorded pass (every batch exactly once)
            res["judged"] += len(refs)
        else:
            if len(got_batches) != 1 or got_batches[0] not in idb:
                V.add("condition_batches", "single-batch forward %d fed the model %s, not one batch of the loader (%s)"
                      % (k, got_batches[:3], c), **mech)
                return
            want = _aggregate([refs[0][0]], c["norm"], c["root"])
            res["judged"] += 1
        _cnt(res, "condition_forwards")
        _cnt(res, "condition_batches_consumed", len(refs))
        if not _close(val, want):
            V.add("condition_value", "DataCondition(norm=%s, root=%s, full=%s).forward() = %.9g, reference aggregation of "
                  "the %d recorded batches = %.9g (forward %d of schedule %s; %s)"
                  % (c["norm"], c["root"], full, val, len(refs), want, k, "".join(sched), c),
                  **mech)
            return


def _run_don_datacond(c, V, res):
    from torchphysics.models import DeepONet, BranchNet, TrunkNet
    from torchphysics.problem.spaces import Space, Points, FunctionSpace
    from torchphysics.problem.domains import Interval
    from torchphysics.problem.samplers import GridSampler
    from torchphysics.problem.conditions import DeepONetDataCondition
    cfg = c["cfg"]
    mech = dict(_don_mech(cfg), condition="DeepONetDataCondition", norm=str(c["norm"]), root=c["root"], full=c["full"],
                constrain=c["constrain"])
    loader, idb = _run_don_cfg(cfg, c["seed"], 1, V, res)
    if loader is None or not idb or any(v["kind"] != "pairs_never_presented" for v in res["viol"]):
        return
    sb, st, so = _don_spaces(cfg)
    od = cfg["odim"]
    seen_b, seen_t = [], []

    class RecBranch(BranchNet):
        def forward(self, discrete_function_batch, device="cpu"):
            b = discrete_function_batch.as_tensor
            seen_b.append(b.detach().clone().double().numpy())
            v = b[:, 0, 0] / 64.0 * 0.5                                   # 0.5 f
            vec = torch.stack([v, torch.ones_like(v)], dim=-1)           # (F, 2)
            self.current_out = vec.unsqueeze(1).repeat(1, od, 1)         # (F, odim, 2)

    class RecTrunk(TrunkNet):
        def forward(self, points):
            t = self._fix_points_order(points).as_tensor
            seen_t.append(t.detach().clone().double().numpy())
            w = t[..., 0] / 4.0 * 1.25                                    # 1.25 * trunk id
            vec = torch.stack([torch.ones_like(w), w], dim=-1)           # (..., 2)
            return vec.unsqueeze(-2).repeat(*([1] * (vec.dim() - 1)), od, 1)

    fs = FunctionSpace(Interval(Space({"s": 1}), 0, 1), sb)
    try:
        net = DeepONet(RecTrunk(st), RecBranch(fs, GridSampler(Interval(Space({"s": 1}), 0, 1), n_points=cfg["D"])),
                       so, output_neurons=2 * od)
        kw = {}
        if c["constrain"]:
            kw["constrain_fn"] = lambda u: u + 1.0
        cond = DeepONetDataCondition(net, loader, norm=c["norm"], root=c["root"], use_full_dataset=c["full"], **kw)
    except Exception as e:
        V.add("exception", "building DeepONet / DeepONetDataCondition raised %r" % e, site=exc_site(e),
              stage="construct", **mech)
        return

    def ref_abs(b, t):
        fids = _decode_branch(b, cfg)
        tid = _decode_code(t, cfg["tdim"])
        if any(f is None for f in fids) or (tid < 0).any():
            return None, None
        f = np.array(fids, dtype=np.float64).reshape(-1, 1)
        if cfg["layout"] == "shared":
            tt = tid.astype(np.float64).reshape(1, -1)
            pid = 1000.0 * f + tt
            lm = np.repeat(tid.reshape(1, -1), len(fids), axis=0)
        else:
            tt = tid.astype(np.float64)
            pid = tt
            lm = tid - 1000 * np.array(fids, dtype=np.int64).reshape(-1, 1)
        u = 0.5 * f + 1.25 * tt                                         # (F, T)
        cc = np.arange(od, dtype=np.float64).reshape(1, 1, od)
        u = np.repeat(u[..., None], od, axis=-1)
        if c["constrain"]:
            u = u + 1.0
        y = 4.0 * pid[..., None] + cc
        return np.abs(u - y), (tuple(fids), lm)

    def key(fids, lm):
        return (tuple(fids), tuple(map(tuple, np.asarray(lm).tolist())))

    pass_keys = [key(f, lm) for f, lm in idb]
    sched = _schedule(c)
    mech0 = mech
    for k, mode in enumerate(sched):
        full = mode == "f"
        mech = dict(mech0, full=full, history=_hist(sched, k))
        cond.use_full_dataset = full
        del seen_b[:]
        del seen_t[:]
        try:
            val = float(cond.forward().detach().reshape(-1)[0])
        except Exception as e:
            V.add("exception", "DeepONetDataCondition.forward raised %r (%s)" % (e, c), site=exc_site(e),
                  stage="forward", **mech)
            return
        if len(seen_b) != len(seen_t):
            V.add("condition_batches", "branch net evaluated %d times, trunk net %d times in one forward (%s)"
                  % (len(seen_b), len(seen_t), c), **mech)
            return
        refs = [ref_abs(b, t) for b, t in zip(seen_b, seen_t)]
        if any(a is None for a, _ in refs):
            V.add("pairing", "the DeepONet was fed rows that are no data of the set (%s)" % c, what="foreign_row", **mech)
            return
        got = [key(*ids) for _, ids in refs]
        _cnt(res, "condition_forwards_" + mech["history"])
        if full:
            if sorted(got) != sorted(pass_keys):
                V.add("condition_batches", "full-data-set forward %d (schedule %s) fed the model %d batches, one pass over the "
                      "loader has %d; first fed %s (%s)" % (k, "".join(sched), len(got), len(pass_keys), got[:1], c), **mech)
                return
        elif len(got) != 1 or got[0] not in pass_keys:
            V.add("condition_batches", "single-batch forward %d fed the model %d batches / a batch the loader does not "
                  "yield (%s)" % (k, len(got), c), **mech)
            return
        want = _aggregate([a for a, _ in refs], c["norm"], c["root"])
        res["judged"] += len(refs)
        _cnt(res, "condition_forwards")
        _cnt(res, "condition_batches_consumed", len(refs))
        if not _close(val, want):
            V.add("condition_value", "DeepONetDataCondition(norm=%s, root=%s, full=%s).forward() = %.9g, reference "
                  "aggregation of the %d recorded batches = %.9g (forward %d of schedule %s; %s)"
                  % (c["norm"], c["root"], full, val, len(refs), want, k, "".join(sched), c), **mech)
            return


# ---------------------------------------------------------------------------------------------
# entry point
# ---------------------------------------------------------------------------------------------

def _sched_cls(c):
    """'' for a single-mode history, else the run-length pattern of the mode switches (s steps vs number of batches)"""
    sc = c.get("schedule")
    if not sc:
        return ""
    j = sc.index("f") if "f" in sc else len(sc)
    L = c.get("n_batches", 0)
    rel = "lt" if j < L else ("eq" if j == L else "gt")
    return "/switch-s%s-f%d-%s" % (rel, sc.count("f"), "back" if "s" in sc[j:] else "stay")


def run_case(c):
    res = {"cls": "?", "judged": 0, "nontrivial": False, "viol": [], "counters": {}}
    V = _V(res)
    kind = c["kind"]
    if kind == "points":
        res["cls"] = _points_cls(c["cfg"])
        _run_points_cfg(c["cfg"], c["seed"], c["passes"], V, res)
    elif kind == "deeponet":
        res["cls"] = _don_cls(c["cfg"])
        _run_don_cfg(c["cfg"], c["seed"], c["passes"], V, res, rebatch=c.get("rebatch"))
    elif kind == "datacond":
        res["cls"] = "cond/%s/n%s/r%g/full%d/c%d%s" % (_points_cls(c["cfg"]), c["norm"], c["root"], c["full"], c["constrain"],
                                                       _sched_cls(c))
        _run_datacond(c, V, res)
    elif kind == "deeponet_datacond":
        res["cls"] = "doncond/%s/n%s/r%g/full%d/c%d%s" % (c["cfg"]["layout"], c["norm"], c["root"], c["full"],
                                                          c["constrain"], _sched_cls(c))
        _run_don_datacond(c, V, res)
    elif kind == "points_enum":
        res["cls"] = "enum/points/N%d" % c["N"]
        n = c["N"]
        k = 0
        for bs in _enum_bs(n, False):
            for sh in (False, True):
                for dl in (False, True):
                    for dims in ([1, 1], [2]):
                        cfg = {"N": n, "bs": bs, "shuffle": sh, "drop_last": dl, "dims": dims,
                               "as_single": len(dims) == 1}
                        _run_points_cfg(cfg, c["seed"] + k, 1, V.fresh(), res)
                        k += 1
        _cnt(res, "enumerated_configurations", k)
    elif kind == "deeponet_enum":
        res["cls"] = "enum/don/%s/Nb%d/Nt%d" % (c["layout"], c["Nb"], c["Nt"])
        k = 0
        for bb in _enum_bs(c["Nb"], True):
            for bt in _enum_bs(c["Nt"], True):
                for sb in (False, True):
                    for st in (False, True):
                        cfg = {"Nb": c["Nb"], "Nt": c["Nt"], "bb": bb, "bt": bt, "shuffle_b": sb, "shuffle_t": st,
                               "layout": c["layout"], "D": 2, "fdim": 1, "tdim": 1, "odim": 1}
                        _run_don_cfg(cfg, c["seed"] + k, 1, V.fresh(), res)
                        k += 1
        _cnt(res, "enumerated_configurations", k)
    else:
        raise ValueError(kind)
    res["nontrivial"] = res["judged"] > 0 and res["counters"].get("passes", 0) > 0
    return res


def sample_of(case, r):
    return {"case": case, "class": r.get("cls"), "rows_or_batches_judged": r.get("judged"), "status": r.get("status"),
            "counters": r.get("counters")}


def extra_coverage(results):
    n = sum(r.get("counters", {}).get("enumerated_configurations", 0) for r in results)
    top = max([int(r["cls"].split("N")[-1]) for r in results if str(r.get("cls", "")).startswith("enum/points/")] or [0])
    return {"exhaustive_subspace": {"configurations_enumerated": int(n), "sizes_up_to": top,
                                    "what": "every (size, batch size in {-1,1..size,size+1,size+3}, shuffle flags, "
                                            "drop_last, trunk layout) combination with all sizes <= sizes_up_to"}}


def warmup():
    """imports done before the per-case watchdog is armed"""
    from torchphysics.utils import PointsDataLoader, DeepONetDataLoader  # noqa: F401
    from torchphysics.models import DeepONet, BranchNet, TrunkNet  # noqa: F401
    from torchphysics.problem.conditions import DataCondition, DeepONetDataCondition  # noqa: F401
