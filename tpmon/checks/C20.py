"""C20 -- Fourier layers are shift-equivariant, resolution-consistent convolutions.

Metamorphic monitor around the real `_FourierLayer.forward` / `FNO.forward`:
  * roll(L(x), s, axis) == L(roll(x, s, axis)) for every spatial axis and shift,
  * single 1-D layer, band-limited input: output on the grids n, 2n, 3n coincides at shared nodes,
  * the input tensor is not modified (clone comparison and tensor `_version`).
"""
import numpy as np
import torch

from ..core import viol, exc_site

LEVEL = "exploration"
RULE = ("seeded generator over (layer|FNO) x spatial dim 1-3 x resolution 4-64 (odd and even) x channels 1-8 x "
        "modes 1..2n per axis (truncating and zero-padding) x linear/skip/bias flags x FNO depth 1-4 x dtype; "
        "a case is non-trivial when at least one non-zero shift on every axis was compared; distinct = "
        "(kind, dim, per-axis truncate/pad pattern, flags, dtype, depth)")
RULE += '; 40 % of the resolution cases first evaluate the layer, then change its parameters in eval mode (load_state_dict / in-place copy / SGD step) and compare with a fresh layer holding the same parameters'
REQUIRED_REACH = ["_FourierLayer.forward", "FNO.forward"]
MIN_NONTRIVIAL = 8
ASSUMPTIONS = ["batch normalisation off (documented to remove resolution invariance)",
               "equalities judged with tolerance 1e-10 (float64) / 2e-4 (float32) relative to the output magnitude"]
CASE_TIMEOUT = 120


def gen_cases(seed, tier):
    rng = np.random.default_rng([seed, 20])
    n = 400 if tier == "quick" else 16000
    cases = []
    for i in range(n):
        kind = "fno" if rng.random() < 0.35 else "layer"
        dim = int(rng.choice([1, 2, 3], p=[0.45, 0.35, 0.2]))
        maxres = {1: 64, 2: 20, 3: 9}[dim]
        res = [int(rng.integers(4, maxres + 1)) for _ in range(dim)]
        modes = []
        for r in res:
            style = rng.random()
            if style < 0.4:
                modes.append(int(rng.integers(1, max(2, r // 2 + 1))))          # truncating
            elif style < 0.5:
                modes.append(r // 2 + 1)                                          # exact
            else:
                modes.append(int(rng.integers(r // 2 + 1, 2 * r + 1)))            # zero padding
        c = {"kind": kind, "dim": dim, "res": res, "modes": modes,
             "channels": int(rng.integers(1, 9)), "batch": int(rng.integers(1, 4)),
             "lin": bool(rng.random() < 0.5), "skip": bool(rng.random() < 0.5), "bias": bool(rng.random() < 0.5),
             "dtype": "float32" if rng.random() < 0.25 else "float64",
             "seed": int(rng.integers(0, 2**31)),
             "depth": int(rng.integers(1, 5)), "act": str(rng.choice(["tanh", "gelu"])),
             "in_ch": int(rng.integers(1, 4)), "out_ch": int(rng.integers(1, 4))}
        if i % 4 == 1:
            c["field"] = "impulse" if i % 8 == 1 else "bump"
        cases.append(c)
    # resolution-consistency cases (single 1-D layer)
    m = 150 if tier == "quick" else 6000
    for i in range(m):
        nc = int(rng.integers(4, 40))
        modes = int(rng.integers(1, 2 * nc))
        cases.append({"kind": "resolution", "dim": 1, "res": [nc], "modes": [modes],
                      "channels": int(rng.integers(1, 7)), "batch": int(rng.integers(1, 4)),
                      "lin": bool(rng.random() < 0.5), "skip": bool(rng.random() < 0.5),
                      "bias": bool(rng.random() < 0.5), "dtype": "float64",
                      "seed": int(rng.integers(0, 2**31)), "factor": int(rng.choice([2, 3, 4]))})
        if i % 5 in (1, 3):
            # history on one layer object in eval mode: evaluate, change the parameters, evaluate on the same and on a new grid
            cases[-1]["history"] = ["load_state_dict", "inplace", "sgd_step"][(i // 5) % 3]
    return cases


def _cls(c):
    pat = "".join("T" if m < r // 2 + 1 else ("E" if m == r // 2 + 1 else "P") for m, r in zip(c["modes"], c["res"]))
    return "%s/d%d/%s/l%ds%db%d/%s/%s" % (c["kind"], c["dim"], pat, c["lin"], c["skip"], c["bias"], c["dtype"],
                                          c.get("depth", 1) if c["kind"] == "fno" else 1)


def _build(c):
    from torchphysics.models.FNO import _FourierLayer, FNO
    from torchphysics.problem.spaces import Space
    torch.manual_seed(c["seed"])
    dt = torch.float64 if c["dtype"] == "float64" else torch.float32
    if c["kind"] == "fno":
        I = Space({"f": c["in_ch"]})
        O = Space({"u": c["out_ch"]})
        act = torch.nn.Tanh() if c["act"] == "tanh" else torch.nn.GELU()
        modes = c["modes"][0] if c["dim"] == 1 else tuple(c["modes"])
        if c["dim"] > 1:
            modes = [tuple(c["modes"])] * c["depth"]
        net = FNO(I, O, fourier_layers=c["depth"], hidden_channels=c["channels"], fourier_modes=modes,
                  activations=act, skip_connections=c["skip"], linear_connections=c["lin"], bias=c["bias"])
        ch = c["in_ch"]
    else:
        net = _FourierLayer(c["channels"], tuple(c["modes"]), linear_connection=c["lin"],
                            skip_connection=c["skip"], bias=c["bias"])
        ch = c["channels"]
    if dt == torch.float64:
        net = net.double()
    net.eval()
    return net, ch, dt


def _call(c, net, x):
    from torchphysics.problem.spaces import Points, Space
    if c["kind"] == "fno":
        out = net(Points(x, Space({"f": c["in_ch"]})))
        return out.as_tensor
    return net(x)


def run_case(c):
    res = {"cls": _cls(c), "judged": 0, "nontrivial": False, "viol": [], "counters": {}}
    net, ch, dt = _build(c)
    tol = 1e-10 if dt == torch.float64 else 2e-4
    g = torch.Generator().manual_seed(c["seed"] + 1)
    mech = {"kind_of_net": c["kind"], "dim": c["dim"]}
    if c["kind"] == "resolution":
        return _resolution(c, net, res, tol)
    x = torch.randn((c["batch"], *c["res"], ch), generator=g, dtype=dt)
    if c.get("field") in ("impulse", "bump"):
        # localised fields: zero except for one node / a few neighbouring nodes in the interior (first and last node of
        # every axis carry identical values); the shifts move the support over the ends of the grid
        mask = torch.zeros((1, *c["res"], 1), dtype=dt)
        idx = tuple(slice(max(1, r // 2 - (0 if c["field"] == "impulse" else 1)), min(r - 1, r // 2 + (1 if c["field"] == "impulse" else 2)))
                    for r in c["res"])
        mask[(0, *idx, 0)] = 1.0
        x = x * mask
        mech["field"] = c["field"]
    x0 = x.clone()
    v0 = x._version
    try:
        with torch.no_grad():
            y = _call(c, net, x)
    except Exception as e:
        res["viol"].append(viol("exception", "forward raised %r" % e, site=exc_site(e), **mech))
        return res
    res["counters"]["forward_calls"] = 1
    if x._version != v0 or not torch.equal(x, x0):
        res["viol"].append(viol("input_modified", "forward changed its input tensor (version %d -> %d, max diff %g)"
                                % (v0, x._version, float((x - x0).abs().max())), **mech))
        x = x0.clone()
    if tuple(y.shape[:-1]) != tuple(x.shape[:-1]):
        res["viol"].append(viol("shape", "output shape %s for input %s" % (tuple(y.shape), tuple(x.shape)), **mech))
        return res
    scale = max(1.0, float(y.abs().max()))
    rng = np.random.default_rng(c["seed"])
    axes_done = 0
    for ax in range(c["dim"]):
        n = c["res"][ax]
        shifts = list(range(1, n)) if n <= 16 and c["dim"] == 1 else sorted(
            set(int(s) for s in rng.integers(1, n, size=min(n - 1, 4 if c["dim"] > 1 else 8))))
        for s in shifts:
            with torch.no_grad():
                ys = _call(c, net, torch.roll(x, s, dims=ax + 1))
            err = float((ys - torch.roll(y, s, dims=ax + 1)).abs().max())
            res["judged"] += 1
            res["counters"]["forward_calls"] += 1
            if not err <= tol * scale:
                res["viol"].append(viol("not_equivariant", "axis %d shift %d of %d: |L(roll x) - roll L(x)| = %.3g "
                                        "(scale %.3g)" % (ax, s, n, err, scale), axis=ax, **mech))
                break
        axes_done += 1
    res["nontrivial"] = axes_done == c["dim"] and res["judged"] >= c["dim"]
    res["counters"]["shifts_compared"] = res["judged"]
    return res


def _resolution(c, net, res, tol):
    dt = torch.float64
    nc, modes, f = c["res"][0], c["modes"][0], c["factor"]
    mech = {"kind_of_net": "resolution", "dim": 1}
    # frequencies 0..K, K strictly below nc/2 and below the number of kept modes
    K = min(modes - 1, (nc - 1) // 2)
    g = torch.Generator().manual_seed(c["seed"] + 2)
    cc = torch.randn((K + 1, c["batch"], c["channels"]), generator=g, dtype=dt)
    cs = torch.randn((K + 1, c["batch"], c["channels"]), generator=g, dtype=dt)
    # build directly: x[b, j, ch] = sum_k cc[k,b,ch] cos(k t_j) + cs[k,b,ch] sin(k t_j)
    def make(n):
        t = torch.arange(n, dtype=dt) / n * 2 * np.pi
        k = torch.arange(K + 1, dtype=dt)
        arg = k.reshape(-1, 1) * t.reshape(1, -1)                       # (K+1, n)
        return torch.einsum("kbc,kn->bnc", cc, torch.cos(arg)) + torch.einsum("kbc,kn->bnc", cs, torch.sin(arg))
    xc = make(nc)
    xf = make(nc * f)
    try:
        if c.get("history"):
            mech["history"] = c["history"]
            with torch.no_grad():
                net(xc.clone())                              # the layer has seen the coarse grid with the old parameters
            new = {k: v.clone() + 0.3 * torch.randn(v.shape, generator=g, dtype=v.dtype) for k, v in net.state_dict().items()}
            if c["history"] == "load_state_dict":
                net.load_state_dict(new)
            elif c["history"] == "inplace":
                with torch.no_grad():
                    for k, p_ in net.named_parameters():
                        p_.copy_(new[k])
            else:
                opt = torch.optim.SGD(net.parameters(), lr=1.0)
                for k, p_ in net.named_parameters():
                    p_.grad = (p_.detach() - new[k]).clone()  # one SGD step with lr 1 lands on the new parameters
                opt.step()
                opt.zero_grad()
            fresh, _, _ = _build(c)
            fresh.load_state_dict(net.state_dict())
            with torch.no_grad():
                want = fresh(xc.clone())
                got = net(xc.clone())
            e2 = float((got - want).abs().max())
            res["judged"] += 1
            res["counters"]["history_reevaluations"] = 1
            if not e2 <= tol * max(1.0, float(want.abs().max())):
                res["viol"].append(viol("stale_after_parameter_change", "layer evaluated, parameters changed by %s (still in eval mode), "
                                        "evaluated again on the same grid: differs from a fresh layer with the same parameters by %.3g"
                                        % (c["history"], e2), **mech))
        with torch.no_grad():
            yc = net(xc.clone())
            yf = net(xf.clone())
    except Exception as e:
        res["viol"].append(viol("exception", "forward raised %r" % e, site=exc_site(e), **mech))
        return res
    scale = max(1.0, float(yc.abs().max()))
    err = float((yf[:, ::f, :] - yc).abs().max())
    res["judged"] += 1
    res["nontrivial"] = K >= 1
    res["counters"]["resolution_pairs"] = 1
    res["counters"]["band_limit_sum"] = K
    if not err <= tol * scale:
        res["viol"].append(viol("resolution_inconsistent", "n=%d vs %d, modes=%d, band limit %d: shared-node "
                                "difference %.3g (scale %.3g)" % (nc, nc * f, modes, K, err, scale), **mech))
    return res


def sample_of(case, r):
    return {"case": case, "class": r.get("cls"), "comparisons": r.get("judged"), "status": r.get("status")}
