"""C02 -- samplers return exactly n points per parameter row, paired in order; sampler algebra.

Two workloads:
  * "basic": the shared sampling workload (generated domain expressions x sampling calls); post-condition on
    every return: row count == n * max(k,1), result space == domain space (x parameter space, in that order, at
    the sampler level), parameter columns bit-for-bit repeat_interleave(params, n), pairing of domain-level rows
    with parameter row i // n (twin membership with disjointly placed parameter rows), len(sampler).
  * "algebra": products / sums / appends / static wrappers / data samplers; every inner sampler's return is
    recorded (probe on the instance) and the outer return must be the stated combination of the recorded
    inner outputs; histories of 1-3 calls.
"""
import math
import numpy as np

from .. import geo, gen_geo, sampling, probes
from ..core import viol, exc_site, BudgetExceeded

LEVEL = "exploration"
RULE = ("(a) shared sampling workload: generated domain expressions (see C01) x calls by n / density at domain and "
        "sampler level, k in {0,1,2,3,5,8} unique parameter rows; (b) generated sampler compositions: product (first "
        "factor dependent on the second or not, grid/random/data/static factors, external parameters), sum, append, "
        "static, repeated calls; non-trivial = a count/pairing/combination equality was evaluated on a returned "
        "sample; distinct = (workload kind, composition shape or expression shape, call kind, n class, k class)")
RULE += '; data-first products whose second factor yields exactly as many points as the data set has rows'
REQUIRED_REACH = ["PointSampler._repeat_params", "Domain._repeat_params", "PointSampler._sample_params_independent",
                  "PointSampler._sample_params_dependent", "PointSampler._sample_for_ith_param",
                  "ProductSampler.sample_points", "ConcatSampler.sample_points", "AppendSampler.sample_points",
                  "RandomUniformSampler._sample_n_points_with_filter", "GridSampler._resample_grid",
                  "PointSampler._cut_tensor_to_length_n", "DataSampler.sample_points", "StaticSampler.sample_points"]
MIN_NONTRIVIAL = 40
ASSUMPTIONS = ["density calls are judged for space / parameter columns only (counts by density belong to C10)",
               "documented rejections are not generated (DESIGN.md 2.5)"]
CASE_TIMEOUT = 150
TOL = 2e-5


def gen_cases(seed, tier):
    cases = sampling.gen_cases(seed, tier, 2, 220, 6000)
    for c in cases:
        c["wk"] = "basic"
    rng = np.random.default_rng([seed, 202])
    m = 300 if tier == "quick" else 10000
    for i in range(m):
        cases.append(gen_algebra(rng, tier))
    # compositions with an operand whose row count changes from call to call (random sampler with density and filter)
    rng2 = np.random.default_rng([seed, 203])
    for i in range(30 if tier == "quick" else 1000):
        cases.append({"wk": "varying", "op": ["sum", "prod", "append_static", "sum_static"][i % 4], "seed": int(rng2.integers(0, 2 ** 31)),
                      "want": float(rng2.choice([25, 60, 140])), "thr": float(rng2.uniform(-0.3, 0.3)), "nb": int(rng2.choice([1, 3, 7])),
                      "ncalls": int(rng2.integers(3, 6)), "interval": int(rng2.choice([1, 2]))})
    return cases


def run_varying(case):
    """len(sampler) of a composition follows the most recent sample when an operand's row count changes between calls"""
    import torch
    import torchphysics as tp
    res = {"cls": "varying|%s|nb%d|i%d" % (case["op"], case["nb"], case["interval"]), "judged": 0, "nontrivial": False, "viol": [], "counters": {}}
    torch.manual_seed(case["seed"])
    X, T = tp.spaces.R2("x"), tp.spaces.R1("t")
    C = tp.domains.Circle(X, [0.0, 0.0], 1.0)
    thr = case["thr"]
    a = tp.samplers.RandomUniformSampler(C, density=case["want"] / math.pi, filter_fn=lambda x: x[:, :1] > thr)
    op = case["op"]
    mech = {"wk": "varying", "comp": op}
    inner = []
    if op.endswith("_static"):
        a = a.make_static(resample_interval=case["interval"])
    orig = a.sample_points

    def rec(*args, **kw):
        out = orig(*args, **kw)
        inner.append(len(out))
        return out
    a.sample_points = rec
    if op in ("sum", "sum_static"):
        b = tp.samplers.RandomUniformSampler(tp.domains.Parallelogram(X, [2, 0], [3, 0], [2, 1]), n_points=case["nb"])
        s = a + b
        rows = lambda na: na + case["nb"]
    elif op == "prod":
        b = tp.samplers.GridSampler(tp.domains.Interval(T, 0.0, 1.0), n_points=case["nb"])
        s = a * b
        rows = lambda na: na          # the first factor is sampled with the partner points as parameters: its return is the product
    else:
        s = a + tp.samplers.RandomUniformSampler(C, n_points=case["nb"])
        rows = lambda na: na + case["nb"]
    counts = set()
    for i in range(case["ncalls"]):
        n0 = len(inner)
        try:
            out = s.sample_points()
        except Exception as e:
            res["viol"].append(viol("exception", "call %d of the composition raised %r" % (i, e), exc=type(e).__name__, site=exc_site(e), **mech))
            return res
        if len(inner) != n0 + 1:
            res["viol"].append(viol("inner_not_called", "call %d: the varying operand was sampled %d times" % (i, len(inner) - n0), **mech))
            return res
        na = inner[-1]
        counts.add(na)
        res["judged"] += 2
        if len(out) != rows(na):
            res["viol"].append(viol("count", "call %d: composition returned %d rows, its varying operand %d rows and the other %d"
                                    % (i, len(out), na, case["nb"]), **mech))
        try:
            ln = len(s)
        except Exception as e:
            res["viol"].append(viol("exception", "len(sampler) raised %r" % e, exc=type(e).__name__, site="__len__", **mech))
            return res
        if ln != len(out):
            res["viol"].append(viol("len", "call %d: len(sampler)=%d but the call just made returned %d rows (varying operand: %s rows so far)"
                                    % (i, ln, len(out), inner), **mech))
            break
    res["counters"]["varying_calls"] = case["ncalls"]
    res["counters"]["distinct_operand_counts"] = len(counts)
    res["nontrivial"] = len(counts) > 1
    return res


# ---------------------------------------------------------------------------------------------
# algebra workload
# ---------------------------------------------------------------------------------------------

def _xdom(rng, dep_var=None):
    """2-D domain in variable x, optionally depending on the scalar variable dep_var"""
    ctx = gen_geo.Ctx(rng, False, 0, None, 2)
    a = gen_geo.prim2d(ctx, rng.uniform(-2, 2, 2), float(rng.uniform(0.4, 1.5)), kinds=("circle", "parallelogram", "triangle"))
    if dep_var:
        a = gen_geo._make_depend_on(a, dep_var, rng, 1.0)
        # strong motion so that different partner points give disjoint regions
        for key in ("center", "origin", "c1", "c2"):
            if key in a and isinstance(a[key], dict):
                a[key]["terms"][0]["coef"][0] = 7.0
    return a


def _leaf(rng, dom, var, kinds=("random", "grid"), n=None, target="interior"):
    return {"s": str(rng.choice(kinds)), "dom": dom, "target": target,
            "n": int(n if n is not None else rng.choice([1, 2, 3, 4, 7, 16])), "var": var}


def gen_algebra(rng, tier):
    kind = str(rng.choice(["prod", "prod", "prod_dep", "prod_dep", "prod3", "sum", "append", "static", "data", "prod_ext", "data_first"]))
    tdom = {"prim": "interval", "var": "t", "lo": float(rng.uniform(-1, 0)), "hi": float(rng.uniform(0.5, 2))}
    ydom = {"prim": "interval", "var": "y", "lo": 0.0, "hi": float(rng.uniform(0.5, 3))}
    rows = {}
    if kind == "prod":
        a = _leaf(rng, _xdom(rng), "x", target=str(rng.choice(["interior", "boundary"])))
        b = _leaf(rng, tdom, "t", kinds=("random", "grid", "data"))
        spec = {"s": "prod", "a": a, "b": b}
    elif kind == "prod_dep":
        a = _leaf(rng, _xdom(rng, "t"), "x", target=str(rng.choice(["interior", "boundary"])))
        b = _leaf(rng, tdom, "t", kinds=("random", "grid", "data"))
        spec = {"s": "prod", "a": a, "b": b}
    elif kind == "prod3":
        a = _leaf(rng, _xdom(rng, "t" if rng.random() < 0.5 else None), "x")
        b = _leaf(rng, tdom, "t")
        c = _leaf(rng, ydom, "y")
        spec = {"s": "prod", "a": a, "b": {"s": "prod", "a": b, "b": c}} if rng.random() < 0.5 else \
            {"s": "prod", "a": {"s": "prod", "a": a, "b": b}, "b": c}
    elif kind == "prod_ext":
        # external parameter q moves the second factor
        tq = {"prim": "interval", "var": "t", "lo": {"a": [0.0], "terms": [{"var": "q", "coef": [3.0]}]},
              "hi": {"a": [1.0], "terms": [{"var": "q", "coef": [3.0]}]}}
        a = _leaf(rng, _xdom(rng, "t" if rng.random() < 0.6 else None), "x")
        b = _leaf(rng, tq, "t")
        spec = {"s": "prod", "a": a, "b": b}
        k = int(rng.choice([1, 2, 3]))
        rows = {"q": [[float(v)] for v in rng.permutation(5)[:k] + rng.uniform(0, 0.2, k)]}
    elif kind == "data_first":
        # a data sampler as FIRST factor receives the (changing) points of the second factor as parameters on every call
        a = {"s": "data", "var": "y", "n": int(rng.choice([1, 2, 3, 4, 6])), "dom": ydom, "target": "interior"}
        # in 40 % of the cases the second factor yields exactly as many points as the data set has rows (the partner rows
        # then have the batch shape of the data: still a full product)
        nb = a["n"] if rng.random() < 0.4 else int(rng.choice([1, 2, 4]))
        b = _leaf(rng, tdom, "t", kinds=("random", "random", "grid"), n=nb)
        spec = {"s": "prod", "a": a, "b": b}
    elif kind == "sum":
        spec = {"s": "sum", "a": _leaf(rng, _xdom(rng), "x"), "b": _leaf(rng, _xdom(rng), "x", target="boundary")}
    elif kind == "append":
        n = int(rng.choice([1, 2, 5, 9]))
        spec = {"s": "append", "a": _leaf(rng, _xdom(rng), "x", n=n), "b": _leaf(rng, ydom, "y", n=n)}
    elif kind == "static":
        inner = _leaf(rng, _xdom(rng), "x", kinds=("random",), n=int(rng.choice([4, 7, 16])))
        spec = {"s": "static", "a": inner}
        if rng.random() < 0.5:
            spec = {"s": "prod", "a": spec, "b": _leaf(rng, tdom, "t")}
    else:
        spec = {"s": "prod", "a": _leaf(rng, _xdom(rng, "t" if rng.random() < 0.5 else None), "x"),
                "b": {"s": "data", "var": "t", "n": int(rng.choice([1, 3, 6])), "dom": tdom, "target": "interior"}}
    if not rows and rng.random() < 0.25 and kind in ("sum", "append", "prod"):
        k = int(rng.choice([1, 2, 3]))
        rows = {"q": [[float(v)] for v in rng.permutation(6)[:k] + rng.uniform(0, 0.2, k)]}
    return {"wk": "algebra", "kind": kind, "sspec": spec, "rows": rows,
            "ncalls": int(rng.integers(2, 4)) if kind == "data_first" else int(rng.integers(1, 4)),
            "seed": int(rng.integers(0, 2 ** 31))}


def build_sampler(sp, log, path="r"):
    """spec -> live sampler; every node's sample_points is probed (records into log[path])"""
    import torch
    import torchphysics as tp
    S = tp.samplers
    k = sp["s"]
    if k in ("random", "grid", "data"):
        D = geo.build(sp["dom"])
        if sp["target"] == "boundary":
            D = D.boundary
        if k == "random":
            s = S.RandomUniformSampler(D, n_points=sp["n"])
        elif k == "grid":
            s = S.GridSampler(D, n_points=sp["n"])
        else:
            lo = float(np.asarray(sp["dom"]["lo"]).reshape(-1)[0])
            hi = float(np.asarray(sp["dom"]["hi"]).reshape(-1)[0])
            vals = torch.linspace(lo, hi, sp["n"] + 2)[1:-1].reshape(-1, 1) + 0.0
            s = S.DataSampler({sp["var"]: vals})
    elif k == "static":
        s = build_sampler(sp["a"], log, path + ".a").make_static()
    else:
        a = build_sampler(sp["a"], log, path + ".a")
        b = build_sampler(sp["b"], log, path + ".b")
        s = {"prod": lambda: a * b, "sum": lambda: a + b, "append": lambda: a.append(b)}[k]()
    orig = s.sample_points

    def rec(*args, **kw):
        out = orig(*args, **kw)
        log.setdefault(path, []).append({"args": args, "kw": kw, "out": out})
        return out
    s.sample_points = rec
    return s


def _has_static(sp):
    if sp["s"] == "static":
        return True
    return any(_has_static(sp[w]) for w in ("a", "b") if w in sp and isinstance(sp[w], dict) and "s" in sp[w])


def _T(p):
    return p.as_tensor.detach()


def expected_len(sp):
    k = sp["s"]
    if k in ("random", "grid", "data"):
        return sp["n"]
    if k == "static":
        return expected_len(sp["a"])
    a, b = expected_len(sp["a"]), expected_len(sp["b"])
    return {"prod": a * b, "sum": a + b, "append": a}[k]


def space_of(sp):
    """ordered variable list the sampler's own points live in (without incoming parameters)"""
    k = sp["s"]
    if k in ("random", "grid", "data"):
        return [sp["var"]]
    if k == "static":
        return space_of(sp["a"])
    a, b = space_of(sp["a"]), space_of(sp["b"])
    if k == "sum":
        return a
    return a + [v for v in b if v not in a]


def check_node(sp, log, path, res, mech, call_idx):
    """judge the recorded return of node `path` at call `call_idx` against its recorded inner returns"""
    import torch
    recs = log.get(path, [])
    k = sp["s"]
    if k == "static":
        return
    if k in ("random", "grid", "data"):
        return
    for which in ("a", "b"):
        check_node(sp[which], log, path + "." + which, res, mech, call_idx)
    if call_idx >= len(recs):
        return
    out = recs[call_idx]["out"]
    ra = log.get(path + ".a", [])
    rb = log.get(path + ".b", [])
    # static inner samplers are called once per outer call as well (they return the cache)
    if call_idx >= len(ra) or call_idx >= len(rb):
        res["viol"].append(viol("inner_not_called", "%s: inner sampler not called once per outer call (a:%d b:%d calls, outer call %d)"
                                % (path, len(ra), len(rb), call_idx), node=k, **mech))
        return
    a_out, b_out = ra[call_idx]["out"], rb[call_idx]["out"]
    res["judged"] += 1
    res["counters"]["combinations_checked"] = res["counters"].get("combinations_checked", 0) + 1
    if k == "sum":
        exp = torch.cat([_T(a_out), _T(b_out)], 0)
        if _T(out).shape != exp.shape or not torch.equal(_T(out), exp) or list(out.space.keys()) != list(a_out.space.keys()):
            res["viol"].append(viol("sum_not_concatenation", "%s: a+b output %s is not the row concatenation of the inner outputs %s, %s"
                                    % (path, tuple(_T(out).shape), tuple(_T(a_out).shape), tuple(_T(b_out).shape)), node=k, **mech))
    elif k == "append":
        # with parameters both inner outputs carry the parameter columns; the stack keeps them once, at the end
        a_own = [n for n in a_out.space.keys() if n not in b_out.space.keys()]
        a_part = torch.cat([a_out.coordinates[n].reshape(len(a_out), -1) for n in a_own], 1) if a_own else _T(a_out)[:, :0]
        exp = torch.cat([a_part, _T(b_out)], 1) if len(a_out) == len(b_out) else None
        names = a_own + list(b_out.space.keys())
        if exp is None or _T(out).shape != exp.shape or not torch.equal(_T(out), exp) or list(out.space.keys()) != names:
            res["viol"].append(viol("append_not_column_stack", "%s: append output %s / %s is not the column stack of %s and %s"
                                    % (path, tuple(_T(out).shape), list(out.space.keys()), tuple(_T(a_out).shape),
                                       tuple(_T(b_out).shape)), node=k, **mech))
    elif k == "prod":
        # a was called with b's output as parameters; the product returns a's output
        a_args = ra[call_idx]["args"]
        got_params = a_args[0] if a_args else ra[call_idx]["kw"].get("params")
        if got_params is not b_out and not (got_params is not None and torch.equal(_T(got_params), _T(b_out))):
            res["viol"].append(viol("product_wrong_partner", "%s: first factor was not evaluated at the second factor's points" % path,
                                    node=k, **mech))
        if out is not a_out and not torch.equal(_T(out), _T(a_out)):
            res["viol"].append(viol("product_not_inner", "%s: product output differs from the first factor's output" % path, node=k, **mech))
        na = expected_len(sp["a"])
        R = len(b_out)
        if len(out) != na * R:
            res["viol"].append(viol("count", "%s: product returned %d rows for %d partner rows x %d points" % (path, len(out), R, na),
                                    node=k, **mech))
            return
        # partner columns: every partner row repeated na times, in order, bit for bit
        bnames = list(b_out.space.keys())
        try:
            got = torch.cat([out.coordinates[n].reshape(len(out), -1) for n in bnames], 1)
        except KeyError as e:
            res["viol"].append(viol("space", "%s: product output lacks partner variable %s" % (path, e), node=k, **mech))
            return
        exp = torch.repeat_interleave(torch.cat([b_out.coordinates[n].reshape(R, -1) for n in bnames], 1), na, dim=0)
        a_static_later = _has_static(sp["a"]) and call_idx > 0     # a static first factor returns its cache
        if not torch.equal(got, exp) and not a_static_later:
            res["viol"].append(viol("pairing", "%s: partner columns of the product are not repeat_interleave(second factor output, %d)"
                                    % (path, na), node=k, **mech))
        anames = space_of(sp["a"])
        if list(out.space.keys())[:len(anames)] != anames:
            res["viol"].append(viol("space", "%s: product space %s does not start with the first factor's variables %s"
                                    % (path, list(out.space.keys()), anames), node=k, **mech))
        # each block's a-part is a full sample of a
        la = sp["a"]
        if la["s"] in ("random", "grid") and len(out):
            X = torch.cat([out.coordinates[n].reshape(len(out), -1) for n in [la["var"]]], 1).double().numpy()
            node = geo.ref(la["dom"] if la["target"] == "interior" else {"op": "boundary", "d": la["dom"]})
            env = {n: out.coordinates[n].reshape(len(out), -1).double().numpy() for n in out.space.keys() if n != la["var"]}
            L = max(1.0, float(np.abs(X).max()))
            ok, amb = node.member(X, env, TOL * L, L)
            res["counters"]["product_rows_judged"] = res["counters"].get("product_rows_judged", 0) + len(X)
            if (~ok & ~amb).any():
                i = int(np.where(~ok & ~amb)[0][0])
                res["viol"].append(viol("product_block_outside", "%s: %d rows of the product are not in the first factor evaluated at "
                                        "their partner point (row %d x=%s partner=%s)" % (path, int((~ok & ~amb).sum()), i,
                                                                                          X[i].tolist(), {n: v[i].tolist() for n, v in env.items()}),
                                        node=k, dep=bool(node.free()), **mech))
            if la["s"] == "grid" and not geo.ref(la["dom"]).free():
                import torchphysics as tp
                D = geo.build(la["dom"])
                if la["target"] == "boundary":
                    D = D.boundary
                full = _T(tp.samplers.GridSampler(D, n_points=la["n"]).sample_points())
                full2 = _T(tp.samplers.GridSampler(D, n_points=la["n"]).sample_points())
                deterministic = torch.equal(full, full2)      # some grids are topped up with random points
                blocks = out.coordinates[la["var"]].reshape(R, na, -1)
                same = all(torch.equal(blocks[j], blocks[0]) for j in range(R))
                if not same or (deterministic and not torch.equal(blocks[0], full)):
                    res["viol"].append(viol("product_not_full_grid", "%s: a block of the product is not the complete grid of the first factor"
                                            % path, node=k, **mech))


def run_algebra(case):
    import torch
    res = {"cls": "", "judged": 0, "nontrivial": False, "viol": [], "counters": {}}
    torch.manual_seed(case["seed"])
    probes.install()
    sp = case["sspec"]
    kcls = "k0" if not case["rows"] else "k%d" % len(next(iter(case["rows"].values())))
    shape = _shape(sp)
    res["cls"] = "algebra|%s|%s" % (shape, kcls)
    mech = {"wk": "algebra", "comp": case["kind"], "k": kcls}
    log = {}
    try:
        s = build_sampler(sp, log)
        P, env = geo.make_params(case["rows"])
        k = max(1, len(P))
        outs = []
        for c in range(case["ncalls"]):
            probes.begin_call()
            outs.append(s.sample_points(P) if len(P) else s.sample_points())
            probes.end_call()
    except BudgetExceeded as e:
        res["viol"].append(viol("no_bounded_progress", str(e), **mech))
        return res
    except Exception as e:
        res["viol"].append(viol("exception", "%s in %s for sampler composition %s (params %s): %s" % (type(e).__name__, exc_site(e),
                                shape, case["rows"], str(e)[:300]), exc=type(e).__name__, site=exc_site(e), **mech))
        return res
    n_exp = expected_len(sp)
    own = space_of(sp)
    for c, out in enumerate(outs):
        res["judged"] += 1
        if len(out) != n_exp * k:
            res["viol"].append(viol("count", "composition %s returned %d rows, expected %d x %d parameter rows (call %d)"
                                    % (shape, len(out), n_exp, k, c), **mech))
            continue
        names = list(out.space.keys())
        if names != own + [p for p in case["rows"] if p not in own]:
            res["viol"].append(viol("space", "composition %s: output space %s, expected %s then parameters %s"
                                    % (shape, names, own, list(case["rows"])), **mech))
        if case["rows"] and sp["s"] != "sum":
            for pn in case["rows"]:
                if pn in out.coordinates:
                    exp = torch.repeat_interleave(P.coordinates[pn], n_exp, dim=0)
                    if not torch.equal(out.coordinates[pn].reshape(exp.shape), exp):
                        res["viol"].append(viol("pairing", "composition %s: parameter column %s is not repeat_interleave(params, %d)"
                                                % (shape, pn, n_exp), **mech))
        check_node(sp, log, "r", res, mech, c)
    try:
        ln = len(s)
        if ln != n_exp:
            res["viol"].append(viol("len", "len(sampler)=%d but a parameter-free call returns %d rows (composition %s, after %d calls with %d parameter rows)"
                                    % (ln, n_exp, shape, len(outs), 0 if not case["rows"] else k), **mech))
    except Exception as e:
        res["viol"].append(viol("exception", "len(sampler) raised %r" % e, exc=type(e).__name__, site="__len__", **mech))
    if sp["s"] == "static" and len(outs) > 1:
        if not all(o is outs[0] or torch.equal(_T(o), _T(outs[0])) for o in outs):
            res["viol"].append(viol("static_changed", "static sampler returned different points on repeated calls", **mech))
    res["nontrivial"] = res["judged"] > 0
    return res


def _shape(sp):
    k = sp["s"]
    if k in ("random", "grid", "data"):
        dep = "~" if geo.ref(sp["dom"]).free() else ""
        return "%s%s%s%s" % (k[0], dep, "b" if sp["target"] == "boundary" else "", "1" if sp["n"] == 1 else "")
    if k == "static":
        return "st(%s)" % _shape(sp["a"])
    return "(%s%s%s)" % (_shape(sp["a"]), {"prod": "*", "sum": "+", "append": ","}[k], _shape(sp["b"]))


# ---------------------------------------------------------------------------------------------
# basic workload
# ---------------------------------------------------------------------------------------------

def _kcls(k):
    return "k0" if k == 0 else ("k1" if k == 1 else "k+")


def run_basic(case):
    import torch
    info = case["info"]
    res = {"cls": "", "judged": 0, "nontrivial": False, "viol": [], "counters": {}}
    D, node, P, env = sampling.build_case(case)
    bnode = geo.ref({"op": "boundary", "d": case["spec"]})
    k = case["k"]
    kk = max(k, 1)
    shape = "".join(c for c in info["desc"] if not c.isdigit())
    classes = []
    for call in case["calls"]:
        o = sampling.run_call(D, call, P)
        mech = {"wk": "basic", "lvl": call["lvl"], "target": call["target"], "fn": call["fn"], "by": call["by"],
                "root": info["kind"], "dep": bool(info["dep"]), "k": _kcls(k), "n1": call.get("n") == 1,
                "filter": "filter" in call}
        if o.budget:
            res["viol"].append(viol("no_bounded_progress", o.budget, **mech))
            continue
        if o.exc is not None:
            res["viol"].append(viol("exception", "%s in %s for call %s on %s: %s" % (type(o.exc).__name__, o.site, call, info["desc"],
                                    str(o.exc)[:300]), exc=type(o.exc).__name__, site=o.site, **mech))
            continue
        pts = o.points
        tnode = node if call["target"] == "interior" else bnode
        dnames = [n for n, _ in tnode.space()]
        names = list(pts.space.keys())
        res["judged"] += 1
        classes.append("%s|%s|%s|%s" % (shape, sampling.call_cls(call, info), sampling.ncls(call.get("n")), _kcls(k)))
        # space
        want = dnames + (list(case["rows"].keys()) if call["lvl"] == "sampler" else [])
        if names != want:
            res["viol"].append(viol("space", "call %s on %s: result space %s, expected %s" % (call, info["desc"], names, want), **mech))
            continue
        if call["by"] == "n":
            n = call["n"]
            if len(pts) != n * kk:
                res["viol"].append(viol("count", "call %s on %s with %d parameter rows returned %d rows, expected %d"
                                        % (call, info["desc"], k, len(pts), n * kk), got=len(pts) - n * kk, **mech))
                continue
            res["counters"]["counts_checked"] = res["counters"].get("counts_checked", 0) + 1
        if call["lvl"] == "sampler" and k > 0 and len(pts):
            for pn in case["rows"]:
                col = pts.coordinates[pn]
                if call["by"] == "n":
                    exp = torch.repeat_interleave(P.coordinates[pn], call["n"], dim=0)
                    good = col.shape == exp.shape and torch.equal(col, exp)
                else:
                    # density: blocks of constant parameter rows in the given order
                    rowsP = P.coordinates[pn]
                    idx = [int((rowsP == r).all(1).nonzero()[0, 0]) if (rowsP == r).all(1).any() else -1 for r in col]
                    good = all(i >= 0 for i in idx) and all(idx[j] <= idx[j + 1] for j in range(len(idx) - 1))
                res["counters"]["param_columns_checked"] = res["counters"].get("param_columns_checked", 0) + 1
                if not good:
                    res["viol"].append(viol("pairing", "call %s on %s: parameter column %s is not the given rows repeated in order"
                                            % (call, info["desc"], pn), **mech))
        if call["lvl"] == "domain" and k > 1 and call["by"] == "n" and info["dep"] and info["kind"] in ("prim", "bool", "translate"):
            # pairing by disjoint placement: row i must lie in the region of parameter row i // n, not of another row
            X, envrows, _ = sampling.split_result(tnode, pts, env, k, call)
            L = max(geo.char_length(node, envrows, len(X)), float(np.abs(X).max()))
            ok, amb = tnode.member(X, envrows, TOL * L, L)
            bad = np.where(~ok & ~amb)[0]
            res["counters"]["pairing_rows_judged"] = res["counters"].get("pairing_rows_judged", 0) + len(X)
            if len(bad):
                other = 0
                for j in range(k):
                    envj = {pn: np.repeat(env[pn][j:j + 1], len(bad), 0) for pn in env}
                    okj, _ = tnode.member(X[bad], envj, TOL * L, L)
                    other += int(okj.sum())
                if other:
                    res["viol"].append(viol("mispaired", "call %s on %s: %d rows lie in the region of another parameter row than i // n"
                                            % (call, info["desc"], other), **mech))
        if call["lvl"] == "sampler" and "len" in o.extra:
            if call["by"] == "n" and o.extra["len"] != call["n"]:
                res["viol"].append(viol("len", "len(sampler)=%d for n_points=%d (%s)" % (o.extra["len"], call["n"], call), **mech))
            if call["by"] == "d" and k == 0 and o.extra["len"] != o.extra.get("last_rows", len(pts)):
                res["viol"].append(viol("len", "len(sampler)=%d but the parameter-free call returned %d rows (%s on %s)"
                                        % (o.extra["len"], len(pts), call, info["desc"]), **mech))
            res["counters"]["len_checked"] = res["counters"].get("len_checked", 0) + 1
    res["nontrivial"] = res["judged"] > 0
    res["cls"] = "basic|%s|%s" % (shape, _kcls(k))
    res["classes"] = classes
    return res


def run_case(case):
    if case["wk"] == "basic":
        return run_basic(case)
    if case["wk"] == "varying":
        return run_varying(case)
    return run_algebra(case)


def extra_coverage(results):
    cl = set()
    for r in results:
        cl.update(r.get("classes", []))
    return {"distinct_call_classes": len(cl)}


def sample_of(case, r):
    if case.get("wk") == "varying":
        return {"varying_composition": case.get("op"), "class": r.get("cls"), "status": r.get("status")}
    if case.get("wk") == "algebra":
        return {"composition": case.get("sspec"), "rows": case.get("rows"), "ncalls": case.get("ncalls"), "class": r.get("cls"),
                "status": r.get("status")}
    return {"spec": case.get("spec"), "rows": case.get("rows"), "calls": case.get("calls", [])[:3], "class": r.get("cls"),
            "status": r.get("status")}
