"""Run by MANIFEST.setup_cmd: imports, library location, reference-model self validation."""
import sys
import warnings
warnings.filterwarnings("ignore")


def main():
    import tpmon
    import torch
    import torchphysics
    import icontract  # noqa: F401
    from tpmon import reach
    reach.install()
    src = torchphysics.__file__
    assert src.startswith(tpmon.REPO_SRC), "library imported from %s, expected %s" % (src, tpmon.REPO_SRC)
    try:
        from tpmon import geo
        geo.self_validate()
    except ImportError:
        pass
    print("tpmon selfcheck ok: torch", torch.__version__, "torchphysics from", src)


if __name__ == "__main__":
    main()
