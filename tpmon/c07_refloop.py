"""Reference optimisation loop of checks C07 / C19: plain PyTorch, no Lightning, no Solver.

run(spec, steps): builds a fresh world from the spec, finds the learnable tensors with the harness' own
reachability walk, and performs

    for it in 0..steps-1:
        loss = sum_i weight_i * cond_i(device="cpu", iteration=it)
        loss.backward(); optimizer.step()
        if (it + 1) % frequency == 0: scheduler.step()

Adaptive point weights ascend: the gradient reversal of the library is NOT used here; the reduce function of an
AdaptiveWeightsCondition is replaced by the harness' own `mean(reverse(w) * e)` where reverse is the identity
with derivative -1, written without autograd.Function.
"""
import torch

from . import c07_world as W


def own_reverse(w):
    """identity in value (w + (w - w) is exactly w), derivative -1"""
    wd = w.detach()
    return wd + (wd - w)


def install_own_ascent(world, conds=None):
    import torchphysics as tp
    n = 0
    for c in (conds if conds is not None else world.train + world.val):
        if isinstance(c, tp.conditions.AdaptiveWeightsCondition):
            if getattr(c, "_c07_own_ascent", False):
                n += 1
                continue
            aw = None
            for path, p in W.reach_learnables([c.reduce_fn]):
                aw = p
            if aw is None:
                raise RuntimeError("adaptive weights not found behind reduce_fn")

            def red(e, aw=aw):
                return torch.mean(own_reverse(aw) * e)

            c.reduce_fn = red
            c._c07_own_ascent = True
            n += 1
    return n


def make_optimizer(ospec, params):
    opt = W.opt_class(ospec["cls"])(params, lr=ospec["lr"], **W.opt_args(ospec))
    sched, freq = None, 1
    if ospec.get("sched"):
        s = ospec["sched"]
        sched = W.sched_class(s["cls"])(opt, **s["args"])
        freq = int(s.get("freq", 1))
    return opt, sched, freq


def run_stage(w, train, ospec, steps, reseed=None):
    """the plain loop on the given condition objects with a fresh optimizer / scheduler"""
    reached = W.reach_learnables(train)
    names = [n for n, _ in reached]
    params = [p for _, p in reached]
    for c, wt in zip(train, (getattr(w, "spec", {}) or {}).get("late_weights") or []):
        c.weight = wt                 # weights assigned after the Solver object exists (the real run does it there)
    n_adaptive = install_own_ascent(w, train)
    theta0 = W.clone_state(params)
    opt, sched, freq = make_optimizer(ospec, params)
    is_lbfgs = ospec["cls"] == "LBFGS"
    traj, losses, lr_traj = [], [], []
    for it in range(steps):
        if reseed is not None:
            torch.manual_seed(int(reseed) + it)       # same global RNG state at the start of every step as in the real run

        def closure():
            opt.zero_grad()
            loss = torch.zeros(1)
            for c in train:
                loss = loss + c.weight * c(device="cpu", iteration=it)
            loss.backward()
            return loss
        if is_lbfgs:
            loss = opt.step(closure)
        else:
            loss = closure()
            opt.step()
        if sched is not None and (it + 1) % freq == 0:
            sched.step()
        losses.append(float(loss.detach().reshape(-1)[0]))
        traj.append(W.clone_state(params))
        lr_traj.append([float(g["lr"]) for g in opt.param_groups])
    if is_lbfgs:
        opt_state, lrs = W.lbfgs_state(opt), [float(g["lr"]) for g in opt.param_groups]
    else:
        opt_state, lrs = W.canon_opt_state(opt, params)
    return {"world": w, "names": names, "params": params, "theta0": theta0, "traj": traj, "opt": opt,
            "opt_state": opt_state, "lrs": lrs, "lr_traj": lr_traj, "losses": losses, "n_adaptive": n_adaptive,
            "sched_last_epoch": (sched.last_epoch if sched is not None else None)}


def run(spec, steps, world=None):
    """-> dict(world, names, params, theta0, traj[step] (state after step+1 steps), opt, opt_state, lrs, losses)"""
    w = world if world is not None else W.build(spec)
    return run_stage(w, w.train, spec["opt"], steps, reseed=W.reseed_base(spec, 0))


def run_staged(spec):
    """Several training stages on ONE world (shared models / Parameters).  Every stage gets the reference's own fresh
    optimizer built from the stage's (class, lr, args, scheduler) -- the harness' own bookkeeping of what each stage
    was configured with.  Conditions are reused from the previous stage or freshly built (bystander conditions are
    built first and never trained).  -> list of run_stage results, each with "world_state" after the stage."""
    w = W.build_base(spec)
    out, train = [], None
    for si, st in enumerate(spec["stages"]):
        if st.get("reuse") and train is not None:
            pass
        else:
            W.build_conditions(w, st.get("bystanders", []), "s%db" % si)      # built, never trained
            train = W.build_conditions(w, st["conds"], "s%dc" % si)
        r = run_stage(w, train, st["opt"], st["steps"], reseed=W.reseed_base(spec, si))
        wl = W.world_learnables(w)
        r["world_names"] = [n for n, _ in wl]
        r["world_state"] = W.clone_state([p for _, p in wl])
        out.append(r)
    return out
