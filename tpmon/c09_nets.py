"""Helper of check C09: JSON-able DeepONet specs, spec -> live DeepONet (fast or plain trunk), the parametric
family of branch input functions, and the monitor's own evaluation of trunk / branch features from the
weights in the state dict (plain matrix products written here, nothing of the library's forward code)."""
import math

import numpy as np
import torch

ACTS = ["tanh", "sigmoid", "sin", "gelu", "softplus", "adaptive_tanh", "relu"]
T_NAMES = ["x", "t", "y", "z", "r"]


# ---------------------------------------------------------------------------------------------
# generation
# ---------------------------------------------------------------------------------------------

def _acts(rng, n):
    if rng.random() < 0.5:
        return str(rng.choice(ACTS))
    return [str(rng.choice(ACTS)) for _ in range(n)]


def _hidden(rng, big, square_bias=0.35):
    depth = int(rng.integers(1, 5 if big else 4))
    wmax = 32 if big else 14
    if rng.random() < square_bias:
        return [int(rng.integers(2, wmax + 1))] * depth      # square layers: a dropped transpose stays shape-correct
    return [int(rng.integers(1, wmax + 1)) for _ in range(depth)]


def _gain(rng, n):
    if rng.random() < 0.6:
        return float(rng.choice([5 / 3, 1.0, 0.8]))
    return [float(np.round(rng.uniform(0.5, 1.7), 3)) for _ in range(n)]


def gen_spec(rng, big=False):
    nv = int(rng.choice([1, 2, 3], p=[0.4, 0.4, 0.2]))
    names = [str(n) for n in rng.choice(T_NAMES, size=nv, replace=False)]
    tsp = [[n, int(rng.choice([1, 2], p=[0.65, 0.35]))] for n in names]
    th = _hidden(rng, big)
    s = {"trunk_space": tsp, "trunk_hidden": th, "trunk_act": _acts(rng, len(th)), "trunk_gain": _gain(rng, len(th))}
    s["norm"] = None
    if rng.random() < 0.35:
        fac = []
        for n, d in tsp:
            if d == 1:
                a = float(np.round(rng.uniform(-3, 3), 3))
                fac.append({"d": "interval", "var": n, "a": a, "b": float(np.round(a + rng.uniform(0.3, 4), 3))})
            elif rng.random() < 0.5:
                fac.append({"d": "rect", "var": n, "o": [float(np.round(rng.uniform(-3, 3), 3)) for _ in range(2)],
                            "w": float(np.round(rng.uniform(0.5, 4), 3)), "h": float(np.round(rng.uniform(0.5, 4), 3))})
            else:
                fac.append({"d": "circle", "var": n, "c": [float(np.round(rng.uniform(-3, 3), 3)) for _ in range(2)],
                            "r": float(np.round(rng.uniform(0.3, 3), 3))})
        s["norm"] = fac
    # output space: 1-2 variables, total dimension 1-3
    od = int(rng.choice([1, 2, 3], p=[0.3, 0.4, 0.3]))
    if od >= 2 and rng.random() < 0.4:
        s["out_space"] = [["u", 1], ["v", od - 1]]
    else:
        s["out_space"] = [["u", od]]
    s["K"] = int(rng.integers(1, 13 if big else 9))
    if od >= 2 and s["K"] == od and rng.random() < 0.7:
        s["K"] += 1
    # branch
    s["fn_in"] = {"var": "s", "a": float(np.round(rng.uniform(-1, 0.5), 3))}
    s["fn_in"]["b"] = float(np.round(s["fn_in"]["a"] + rng.uniform(0.5, 3), 3))
    s["fn_ch"] = int(rng.choice([1, 2], p=[0.6, 0.4]))
    s["n_disc"] = int(rng.integers(2, 13))
    s["branch"] = "conv" if rng.random() < 0.4 else "fc"
    bh = _hidden(rng, big)
    s["branch_hidden"] = bh
    s["branch_act"] = _acts(rng, len(bh))
    s["branch_gain"] = _gain(rng, len(bh))
    if s["branch"] == "conv":
        nl = int(rng.integers(1, 3))
        chans = [s["fn_ch"]] + [int(rng.integers(1, 4)) for _ in range(nl - 1)] + [s["fn_ch"]]
        s["conv"] = [{"in": chans[i], "out": chans[i + 1], "k": int(rng.choice([1, 3, 5])),
                      "act": str(rng.choice(["tanh", "relu", "gelu"]))} for i in range(nl)]
    return s


def out_dim(s):
    return sum(d for _, d in s["out_space"])


def trunk_dim(s):
    return sum(d for _, d in s["trunk_space"])


# ---------------------------------------------------------------------------------------------
# building live objects
# ---------------------------------------------------------------------------------------------

def _act(name):
    from torchphysics.models.activation_fn import AdaptiveActivationFunction, Sinus
    return {"tanh": torch.nn.Tanh, "sigmoid": torch.nn.Sigmoid, "sin": Sinus, "gelu": torch.nn.GELU,
            "softplus": torch.nn.Softplus, "relu": torch.nn.ReLU,
            "adaptive_tanh": lambda: AdaptiveActivationFunction(torch.nn.Tanh(), inital_a=0.8, scaling=1.5)}[name]()


def _act_mods(a):
    return [_act(x) for x in a] if isinstance(a, list) else _act(a)


def space_of(pairs):
    from torchphysics.problem.spaces import Space
    sp = Space({})
    for n, d in pairs:
        sp = sp * Space({n: int(d)})
    return sp


def _domain(fac):
    import torchphysics as tp
    from torchphysics.problem.spaces import Space
    dom = None
    for f in fac:
        if f["d"] == "interval":
            d = tp.domains.Interval(Space({f["var"]: 1}), f["a"], f["b"])
        elif f["d"] == "rect":
            o = f["o"]
            d = tp.domains.Parallelogram(Space({f["var"]: 2}), o, [o[0] + f["w"], o[1]], [o[0], o[1] + f["h"]])
        else:
            d = tp.domains.Circle(Space({f["var"]: 2}), f["c"], f["r"])
        dom = d if dom is None else dom * d
    return dom


def build(s, fast, seed):
    """-> (DeepONet, function space, static discretisation sampler).  Same seed => same initial weights for the
    fast (trunk_input_copied=True) and the plain variant (the caller also copies the state dict)."""
    import torchphysics as tp
    from torchphysics.problem.spaces import Space, FunctionSpace
    from torchphysics.models.deeponet.deeponet import DeepONet
    from torchphysics.models.deeponet.trunknets import FCTrunkNet
    from torchphysics.models.deeponet.branchnets import FCBranchNet, ConvBranchNet1D
    from torchphysics.models.model import Sequential, NormalizationLayer
    torch.manual_seed(seed)
    fi = s["fn_in"]
    dom = tp.domains.Interval(Space({fi["var"]: 1}), fi["a"], fi["b"])
    fspace = FunctionSpace(dom, Space({"f": s["fn_ch"]}))
    sampler = tp.samplers.GridSampler(dom, s["n_disc"]).make_static()
    trunk = FCTrunkNet(space_of(s["trunk_space"]), hidden=tuple(s["trunk_hidden"]),
                       activations=_act_mods(s["trunk_act"]), xavier_gains=s["trunk_gain"], trunk_input_copied=fast)
    if s["norm"]:
        trunk = Sequential(NormalizationLayer(_domain(s["norm"])), trunk)
    if s["branch"] == "fc":
        branch = FCBranchNet(fspace, sampler, hidden=tuple(s["branch_hidden"]), activations=_act_mods(s["branch_act"]),
                             xavier_gains=s["branch_gain"])
    else:
        mods = []
        for L in s["conv"]:
            mods.append(torch.nn.Conv1d(L["in"], L["out"], L["k"], padding=L["k"] // 2))
            mods.append(_act(L["act"]))
        branch = ConvBranchNet1D(fspace, sampler, torch.nn.Sequential(*mods), hidden=tuple(s["branch_hidden"]),
                                 activations=_act_mods(s["branch_act"]), xavier_gains=s["branch_gain"])
    net = DeepONet(trunk, branch, space_of(s["out_space"]), output_neurons=out_dim(s) * s["K"])
    return net, fspace, sampler


# ---------------------------------------------------------------------------------------------
# branch input functions  f(s; k) : R -> R^ch ,  k in R^2
# ---------------------------------------------------------------------------------------------

def fn_family(k, s, ch):
    """k (..., 2), s (..., 1) broadcastable -> (..., ch)."""
    k1, k2 = k[..., 0:1], k[..., 1:2]
    cols = [k1 * torch.sin(k2 * s) + 0.3 * s]
    if ch == 2:
        cols.append(torch.cos(k1 * s) - k2 * s * s)
    return torch.cat(cols, dim=-1)


def gen_params(rng, F):
    return np.round(rng.uniform(0.5, 3.0, size=(F, 2)), 3).tolist()


# ---------------------------------------------------------------------------------------------
# own evaluation of the features from the weights
# ---------------------------------------------------------------------------------------------

def _apply_act(name, x, sd, key):
    if name == "tanh":
        return torch.tanh(x)
    if name == "sigmoid":
        return torch.sigmoid(x)
    if name == "sin":
        return torch.sin(x)
    if name == "gelu":
        return torch.nn.functional.gelu(x)
    if name == "softplus":
        return torch.nn.functional.softplus(x)
    if name == "relu":
        return torch.relu(x)
    if name == "adaptive_tanh":
        return torch.tanh(1.5 * sd[key + ".a"] * x)
    raise ValueError(name)


def _mlp(x, sd, prefix, hidden, acts):
    acts = acts if isinstance(acts, list) else [acts] * len(hidden)
    # a single activation module is shared by all layers (one parameter entry per position in the state dict)
    for i in range(len(hidden)):
        x = x @ sd["%s.%d.weight" % (prefix, 2 * i)].T + sd["%s.%d.bias" % (prefix, 2 * i)]
        x = _apply_act(acts[i], x, sd, "%s.%d" % (prefix, 2 * i + 1))
    n = 2 * len(hidden)
    return x @ sd["%s.%d.weight" % (prefix, n)].T + sd["%s.%d.bias" % (prefix, n)]


def own_trunk_features(s, sd, x):
    """x (n, d) in the declared variable order -> (n, N) raw trunk features."""
    if s["norm"]:
        x = x @ sd["trunk.models.0.normalize.weight"].T + sd["trunk.models.0.normalize.bias"]
        prefix = "trunk.models.1.sequential"
    else:
        prefix = "trunk.sequential"
    return _mlp(x, sd, prefix, s["trunk_hidden"], s["trunk_act"])


def own_branch_features(s, sd, V):
    """V (F, n_disc, ch) discretised functions -> (F, N) raw branch features."""
    F = V.shape[0]
    if s["branch"] == "conv":
        x = V.permute(0, 2, 1)                                   # (F, channels, length)
        for i, L in enumerate(s["conv"]):
            x = torch.nn.functional.conv1d(x, sd["branch.conv_net.%d.weight" % (2 * i)],
                                           sd["branch.conv_net.%d.bias" % (2 * i)], padding=L["k"] // 2)
            x = _apply_act(L["act"], x, sd, "")
        x = x.permute(0, 2, 1).reshape(F, -1)
    else:
        x = V.reshape(F, -1)
    return _mlp(x, sd, "branch.sequential", s["branch_hidden"], s["branch_act"])


def own_output(s, T, B):
    """T (n, N), B (F, N) -> out (F, n, dim) with neuron c*K+k belonging to output component c; also the
    alternative consistent grouping (neuron k*dim+c) for diagnosis."""
    dim, K = out_dim(s), s["K"]
    blocks = torch.einsum("ick,jck->ijc", B.reshape(-1, dim, K), T.reshape(-1, dim, K))
    strided = torch.einsum("ikc,jkc->ijc", B.reshape(-1, K, dim), T.reshape(-1, K, dim))
    return blocks, strided
