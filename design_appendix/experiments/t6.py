import warnings, torch, os, tempfile, shutil, logging, copy
warnings.filterwarnings("ignore")
logging.getLogger("pytorch_lightning").setLevel(logging.ERROR)
logging.getLogger("lightning").setLevel(logging.ERROR)
logging.getLogger("lightning.pytorch").setLevel(logging.ERROR)
import pytorch_lightning as pl
import torchphysics as tp
from torchphysics.problem.spaces import R1, R2
X=R2('x'); U=R1('u'); Dp=R1('D')
A=tp.domains.Parallelogram(X,[0,0],[1,0],[0,1])
class SimulatedCrash(Exception): pass
class Rec(pl.Callback):
    def __init__(self, crash_at=None, ckdir=None): self.states=[]; self.crash_at=crash_at; self.ckdir=ckdir; self.copied=[]
    def on_train_batch_start(self, trainer, m, batch, batch_idx):
        self.states.append(('start',batch_idx,copy.deepcopy(m.state_dict())))
    def on_train_batch_end(self, trainer, m, out, batch, batch_idx):
        if self.ckdir and os.path.exists(self.ckdir+'/ck.ckpt'):
            shutil.copy(self.ckdir+'/ck.ckpt', self.ckdir+f'/ck.step{trainer.global_step}.ckpt')
        if self.crash_at is not None and trainer.global_step==self.crash_at: raise SimulatedCrash()
def build():
    torch.manual_seed(5)
    model=tp.models.FCN(X,U,hidden=(5,))
    param=tp.models.Parameter(init=0.5,space=Dp)
    s1=tp.samplers.GridSampler(A,n_points=16).make_static()
    c1=tp.conditions.PINNCondition(model,s1,lambda u,x,D: tp.utils.laplacian(u,x)*D-1.0,parameter=param,name='pde')
    vc=tp.conditions.PINNCondition(model,s1,lambda u: u,name='val')
    opt=tp.OptimizerSetting(torch.optim.SGD, lr=0.05, optimizer_args={'momentum':0.9})
    return model, tp.solver.Solver([c1],[vc],optimizer_setting=opt)
def fit(steps, cbs, ckpt=None, val=False):
    model,solver=build()
    kw=dict(max_steps=steps,accelerator='cpu',logger=False,enable_checkpointing=False,enable_progress_bar=False,enable_model_summary=False,num_sanity_val_steps=0,callbacks=cbs)
    if val: kw.update(val_check_interval=2, check_val_every_n_epoch=None)
    else: kw.update(limit_val_batches=0)
    tr=pl.Trainer(**kw)
    try: tr.fit(solver, ckpt_path=ckpt)
    except SimulatedCrash: pass
    return model,solver,tr
N=6
_,full,_=fit(N,[])
ref=full.state_dict()
d=tempfile.mkdtemp()
for c in (1,2,3):
  for k in range(1,N):
    for f in os.listdir(d): os.remove(d+'/'+f)
    ck=tp.utils.TrainerStateCheckpoint(d,'ck',check_interval=c)
    rec=Rec(crash_at=k, ckdir=d)
    _,s,tr=fit(N,[ck,rec])
    _,s2,tr2=fit(N,[],ckpt=d+'/ck.ckpt')
    diff=max((ref[q]-s2.state_dict()[q]).abs().max().item() for q in ref if ref[q].numel())
    print(f"c={c} crash at {k}: crashed global_step={tr.global_step}, resumed-> {tr2.global_step}, diff vs uninterrupted {diff:.1e}")
# with validation on: does it alter?
_,fv,_=fit(N,[],val=True)
print("val on/off diff", max((ref[q]-fv.state_dict()[q]).abs().max().item() for q in ref if ref[q].numel()))
# weight save min loss
dd=tempfile.mkdtemp()
model,solver=build()
rec=Rec()
cb=tp.utils.WeightSaveCallback(model,dd,'w',check_interval=2,save_initial_model=True)
tr=pl.Trainer(max_steps=7,accelerator='cpu',logger=False,enable_checkpointing=False,enable_progress_bar=False,enable_model_summary=False,limit_val_batches=0,callbacks=[cb,rec])
tr.fit(solver)
ml=torch.load(dd+'/w_min_loss.pt')
match=[b for (_,b,st) in rec.states if all(torch.equal(ml[k], st['train_conditions.0.module.'+k]) for k in ml)]
print("min_loss file equals state at start of batch idx:", match)
fin=torch.load(dd+'/w_final.pt'); print("final equals model:", all(torch.equal(fin[k],model.state_dict()[k]) for k in fin))
shutil.rmtree(d); shutil.rmtree(dd)
