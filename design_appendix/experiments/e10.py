import warnings, torch, math, traceback, numpy as np, time, copy, os, tempfile, logging
warnings.filterwarnings("ignore")
logging.getLogger("pytorch_lightning").setLevel(logging.ERROR)
logging.getLogger("lightning").setLevel(logging.ERROR)
import pytorch_lightning as pl
import torchphysics as tp
from torchphysics.problem.spaces import Points, R1, R2
X=R2('x'); U=R1('u'); D=R1('D')
A=tp.domains.Parallelogram(X,[0,0],[1,0],[0,1])
def build():
    torch.manual_seed(5)
    model=tp.models.FCN(X,U,hidden=(5,5))
    param=tp.models.Parameter(init=0.5,space=D)
    s1=tp.samplers.GridSampler(A,n_points=16).make_static()
    s2=tp.samplers.GridSampler(A.boundary,n_points=8).make_static()
    def r1(u,x,D): return tp.utils.laplacian(u,x)*D - 1.0
    def r2(u): return u
    c1=tp.conditions.PINNCondition(model,s1,r1,parameter=param,weight=2.0,name='pde')
    c2=tp.conditions.PINNCondition(model,s2,r2,weight=0.5,name='bc')
    c3=tp.conditions.AdaptiveWeightsCondition(model,s1,r2,name='aw',weight=1.5)
    return model,param,[c1,c2,c3]
def run_solver(steps, ckpt=None, cb=()):
    model,param,conds=build()
    opt=tp.OptimizerSetting(torch.optim.Adam, lr=0.01, scheduler_class=torch.optim.lr_scheduler.StepLR, scheduler_args={'step_size':2,'gamma':0.5})
    solver=tp.solver.Solver(conds, optimizer_setting=opt)
    tr=pl.Trainer(max_steps=steps, accelerator='cpu', logger=False, enable_checkpointing=False, enable_progress_bar=False, enable_model_summary=False, num_sanity_val_steps=0, callbacks=list(cb), benchmark=False)
    t=time.time(); tr.fit(solver, ckpt_path=ckpt); dt=time.time()-t
    return solver, tr, dt
def run_ref(steps):
    model,param,conds=build()
    ml=torch.nn.ModuleList(conds)
    o=torch.optim.Adam(ml.parameters(), lr=0.01)
    sch=torch.optim.lr_scheduler.StepLR(o, step_size=2, gamma=0.5)
    for it in range(steps):
        o.zero_grad()
        loss=torch.zeros(1)
        for c in conds: loss=loss+c.weight*c(device='cpu',iteration=it)
        loss.backward(); o.step(); sch.step()
    return ml
s,tr,dt=run_solver(5)
print("fit 5 steps took", round(dt,2))
ref=run_ref(5)
sd1=s.train_conditions.state_dict(); sd2=ref.state_dict()
print(sorted(sd1.keys()))
print("max diff", max((sd1[k]-sd2[k]).abs().max().item() for k in sd1 if sd1[k].numel()))
# checkpoint / resume
d=tempfile.mkdtemp()
cb=tp.utils.TrainerStateCheckpoint(d,'ck',check_interval=1)
s3,tr3,_=run_solver(3,cb=[cb])
print(os.listdir(d), "global_step", tr3.global_step)
s4,tr4,dt=run_solver(5,ckpt=d+'/ck.ckpt')
print("resume took",round(dt,2),"global_step",tr4.global_step)
sd4=s4.train_conditions.state_dict()
print("resume vs uninterrupted max diff", max((sd1[k]-sd4[k]).abs().max().item() for k in sd1 if sd1[k].numel()))
