import warnings, torch, math, traceback
warnings.filterwarnings("ignore")
import torchphysics as tp
from torchphysics.problem.spaces import Points, R1, R2, R3
X=R2('x'); T=R1('t')
def tryit(name, f):
    try:
        r=f(); print("OK  ", name, "->", r)
    except Exception as e:
        print("EXC ", name, "->", type(e).__name__, str(e)[:200].replace("\n"," "))
torch.manual_seed(0)
# boundary self-consistency for shifted / slanted shapes
def bnd(dom, n=2000):
    b=dom.boundary
    p=b.sample_random_uniform(n=n)
    c=b._contains(p).float().mean().item()
    nn_=b.normal(p)
    nan=torch.isnan(nn_).any(dim=1).float().mean().item()
    pg=b.sample_grid(n=200)
    cg=b._contains(pg).float().mean().item()
    return dict(rand_contains=round(c,4), nan_normals=round(nan,4), grid_contains=round(cg,4))
shapes={
 "unit square": tp.domains.Parallelogram(X,[0,0],[1,0],[0,1]),
 "shifted square": tp.domains.Parallelogram(X,[5,3],[6,3],[5,4]),
 "slanted": tp.domains.Parallelogram(X,[5,3],[7,4],[4,5]),
 "far slanted": tp.domains.Parallelogram(X,[50,-30],[52.3,-29.1],[49.2,-27.7]),
 "unit tri": tp.domains.Triangle(X,[0,0],[1,0],[0,1]),
 "slanted tri": tp.domains.Triangle(X,[5,3],[7,4],[4,5]),
 "far tri": tp.domains.Triangle(X,[50,-30],[52.3,-29.1],[49.2,-27.7]),
 "circle": tp.domains.Circle(X,[0,0],1.0),
 "far circle": tp.domains.Circle(X,[50,-30],2.3),
 "small circle": tp.domains.Circle(X,[0.3,0.2],0.01),
 "sphere": tp.domains.Sphere(R3('x'),[1,2,3],2.3),
 "far sphere": tp.domains.Sphere(R3('x'),[100,200,-300],2.3),
}
for k,d in shapes.items():
    tryit("boundary "+k, lambda: bnd(d))
I=tp.domains.Interval(T, 3.3, 7.7)
tryit("interval bnd", lambda: (I.boundary._contains(I.boundary.sample_random_uniform(n=100)).float().mean().item()))
# interior
def inner(dom,n=5000):
    p=dom.sample_random_uniform(n=n); c=dom._contains(p).float().mean().item()
    pg=dom.sample_grid(n=500); cg=dom._contains(pg).float().mean().item()
    return dict(rand=round(c,5), grid=round(cg,5), ngrid=len(pg))
for k,d in shapes.items():
    tryit("inner "+k, lambda: inner(d))
